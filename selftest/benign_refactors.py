#!/usr/bin/env python3
"""Applies behaviour-preserving refactors to a scratch worktree of /repo and runs the affected checks: every check must
stay green (guard against brittle contracts / false alarms).  Usage: selftest/benign_refactors.py"""
import os
import subprocess
import sys
import tempfile

ROOT = os.path.dirname(os.path.dirname(os.path.abspath(__file__)))
EDITS = [
    ('cflib/crazyflie/commander.py',
     "        pk = CRTPPacket()\n        pk.port = CRTPPort.COMMANDER\n        pk.data = struct.pack('<fffH', roll, -pitch, yawrate, thrust)\n        self._cf.send_packet(pk)",
     "        packet = CRTPPacket()\n        payload = struct.pack('<fffH', roll, -pitch, yawrate, thrust)\n        packet.port = CRTPPort.COMMANDER\n        packet.data = payload\n        self._cf.send_packet(packet)"),
    ('cflib/crazyflie/mem/__init__.py',
     "        new_len = len(self._data)\n        if new_len > _WriteRequest.MAX_DATA_LENGTH:\n            new_len = _WriteRequest.MAX_DATA_LENGTH\n",
     "        new_len = min(len(self._data), _WriteRequest.MAX_DATA_LENGTH)\n"),
    ('cflib/crazyflie/__init__.py', "        longest_match = ()\n        if len(self._answer_patterns) > 0:", "        longest_match = tuple()\n        if self._answer_patterns:"),
    ('cflib/bootloader/cloader.py', "            if count > 24:", "            if count >= 25:"),
    ('cflib/crazyflie/toc.py', "        try:\n            return self.toc[group][name]\n        except KeyError:\n            return None",
     "        return self.toc.get(group, {}).get(name)"),
    ('cflib/utils/callbacks.py', "        copy_of_callbacks = list(self.callbacks)\n        for cb in copy_of_callbacks:\n            cb(*args)",
     "        for cb in self.callbacks[:]:\n            cb(*args)"),
]
CHECKS = ['C08', 'C06', 'C10', 'C12', 'C03', 'C07', 'C02']


def main():
    wt = tempfile.mkdtemp(prefix='benign-wt.', dir='/tmp')
    subprocess.check_call(['git', '-C', '/repo', 'worktree', 'add', '--detach', wt, 'HEAD', '-q'])
    rc = 0
    try:
        for path, old, new in EDITS:
            p = os.path.join(wt, path)
            s = open(p).read()
            if s.count(old) < 1:
                print('SKIP (text not found): %s' % path)
                continue
            open(p, 'w').write(s.replace(old, new, 1))
        env = dict(os.environ, VERIF_REPO=wt, VERIF_NO_EVIDENCE='1')
        for c in CHECKS:
            r = subprocess.run([os.path.join(ROOT, 'vcheck'), c, 'quick'], env=env, capture_output=True, text=True)
            last = r.stdout.strip().splitlines()[-1][:160] if r.stdout.strip() else ''
            print('%s exit=%d %s' % (c, r.returncode, last))
            if r.returncode != 0:
                rc = 1
    finally:
        subprocess.call(['git', '-C', '/repo', 'worktree', 'remove', '--force', wt])
    return rc


if __name__ == '__main__':
    sys.exit(main())
