"""C17 - flight helpers always end on the ground command and track motion faithfully.

Sequential (virtual time) fragment of the property, real arithmetic (float_mode='R': machine floats are treated as
mathematical reals, so rounding in distance/velocity is not modelled).

How the clauses are decomposed
------------------------------
* MotionCommander against the *contract of its set-point thread*: in `mc.*` contracts the commander is built by its real
  constructor, put in the air and given a recording stub as `_thread` (`c.set`), so that the order of
  `thread.set_vel_setpoint / thread.get_height / thread.stop`, `time.sleep` and the commander packets
  (`cf.commander.send_stop_setpoint`, `cf.commander.send_notify_setpoint_stop`) is one observable trace.
  "Whatever sequence of motion primitives came before" is by induction over the program: every primitive (blocking,
  start_*, stop; returning or raising) preserves the representation invariant INV = (`_is_flying`, `_thread` is the same
  thread, `_cf` is the same Crazyflie) and the landing contract assumes nothing but INV (height and thread state are
  arbitrary).  `mc.session` additionally runs real bounded programs (`__enter__`, primitives, `__exit__`) with the real
  `_SetPointThread` object (thread body not running), and `mc.flight` one virtual-time interleaving in which the real
  thread body run() is executed after take-off and inside join() (Thread.join replaced by its contract "returns after
  run() returned"), so that hover set-points and the stop command appear in one trace.
* `_SetPointThread` itself (`thread.*` contracts): `set_vel_setpoint/stop/get_height`, and the real `run()` loop executed
  sequentially on a scripted queue and a scripted clock (every `time.time()` reading is a contract input): one hover
  set-point per loop iteration, height = base + vertical velocity * elapsed time, nothing sent once the terminate event is
  read.  "No set-points streamed after the stop command" then follows from: land() calls thread.stop() *before*
  send_stop_setpoint (mc.land), stop() = put(terminate) + join() (thread.stop), run() returns at the terminate event
  without sending (thread.run.events*), and the assumed contract of threading.Thread.join (returns after run() returned).
* PositionHlCommander (`phlc.*`): real object, recording stub for the Crazyflie (`cf.high_level_commander.*`).
  position == start + sum of displacements is by induction: one contract per public method states the new stored
  position; `phlc.session` runs bounded real programs (`__enter__`, primitives, `__exit__`) end to end.

Pre-conditions (misuse outside the property): velocities/rates > 0, turn/circle angles >= 0, circle radius > 0 for the
"no exception" conclusions (the frame/invariant conclusions are proved without them).

Assumptions: float mode R; time.sleep(d) raises ValueError for d < 0 and otherwise only passes time; time.time() is
non-decreasing; Thread.start/join and the Crazyflie (`cf`) are recording stubs (sequential model, `c.virtual_time()`);
Queue is a FIFO; the default velocity 0.2 and math.pi are the doubles the code uses - the engine folds products of two
concrete floats (360.0 * 0.2) in machine arithmetic, so for circles flown with the *default* velocity the identity
"rate * duration == angle" is stated with a relative tolerance of 1e-12 (exact for every explicit velocity).

Known finding kept visible: `phlc.land`/`no-exception` - PositionHlCommander.land() with the current z below the landing
height computes a negative duration; time.sleep raises ValueError after hl.land was sent and before hl.stop.

Not covered (outside the technique)
-----------------------------------
* real thread interleavings / wall-clock timing (only the sequential runs and the one interleaving of mc.flight): "hover set-points at least every update period" is proved only as
  "each iteration of run() blocks at most update_period in Queue.get(timeout=update_period) and then sends exactly one
  hover set-point"; scheduling delays, the duration of send_packet and the race of the commanding thread with the
  set-point thread (e.g. _hover_setpoint read by get_height while run() replaces it) are not modelled.
* "no set-points streamed afterwards" under the real thread: relies on the assumed contract of Thread.join (above).
* time.time() is read twice inside _new_setpoint; the height formula is stated exactly in terms of both readings (the
  height integrates the velocity exactly when the two readings coincide, see thread.run.events/height-continuity).
* floating-point rounding (mode R), NaN/inf arguments.
* programs longer than the stated bound in the session contracts (the inductive per-primitive contracts are unbounded).
* construction from a SyncCrazyflie, the optional controller parameter of PositionHlCommander (not part of C17).
"""
from pyvc.api import contract

MC = 'cflib.positioning.motion_commander'
PHL = 'cflib.positioning.position_hl_commander'
MCC = MC + ':MotionCommander'
SPT = MC + ':_SetPointThread'
PHC = PHL + ':PositionHlCommander'

CL_END = ('leaving the context (normally or through an exception) or calling land always ends with the stop command sent '
          '(MotionCommander: followed by the setpoint-priority release) and no setpoints streamed afterwards, whatever '
          'sequence of motion primitives came before')
CL_MOVE = ('each blocking primitive commands velocity and duration whose product is the requested displacement in the '
           'requested direction')
CL_HOVER = ('while flying, hover setpoints are streamed at least every update period with a height that integrates the '
            'commanded vertical velocity')
CL_POS = ('the position reported by the PositionHlCommander equals the start position plus the sum of commanded '
          'displacements, and every go-to it issues targets that position with duration distance/velocity')

DIRS = {'left': (0, 1, 0), 'right': (0, -1, 0), 'forward': (1, 0, 0), 'back': (-1, 0, 0), 'up': (0, 0, 1), 'down': (0, 0, -1)}
MC_VELOCITY = 0.2       # documented default velocity of the MotionCommander primitives (m/s)
MC_RATE = 72.0          # documented default yaw rate (360 degrees in 5 s)
PI = 3.141592653589793

INV = 'self._is_flying is True and is_same(self._thread, thread) and is_same(self._cf, cf)'


# =========================================================================== MotionCommander (thread = its contract)

def mc_flying(c):
    """a MotionCommander from its real constructor, in the air, with a recording stub for the set-point thread whose
    height is arbitrary"""
    c.virtual_time()
    cf = c.ext('cf', returns={'is_connected': True})
    c.float('dh')
    self = c.new(MCC, cf, c.get('dh'))
    h = c.float('h')
    thread = c.ext('thread', returns={'get_height': h})
    c.set(self, '_is_flying', True)
    c.set(self, '_thread', thread)
    c.let('self', self)
    c.reset_trace()
    return self


def called(c, prefix=''):
    """names of the recorded external calls (concrete on every path), for choosing which post-conditions apply"""
    return tuple(e[0] for e in c.get('trace') if e[0].startswith(prefix))


SET = 'thread.set_vel_setpoint'


def velocity_arg(c, name='v', default=MC_VELOCITY):
    """the optional velocity argument: explicit (symbolic) or left out (documented default)"""
    if c.choice(name + '_given', [True, False]):
        return [c.float(name)]
    c.let(name, default)
    return []


def check_blocking(c, sp, T, ok_when):
    """post-conditions shared by the blocking primitives: set-point `sp`, sleep `T`, zero set-point - or nothing"""
    c.ensure('invariant-preserved', INV)
    c.ensure('no-exception-when-valid', 'implies(%s, raised is None)' % ok_when)
    c.ensure('only-thread-and-sleep', "all(n in ('thread.set_vel_setpoint', 'time.sleep') for n in calls())")
    if c.get('raised') is None:
        c.ensure('nothing-or-start-sleep-stop', "calls() in ((), ('thread.set_vel_setpoint', 'time.sleep', 'thread.set_vel_setpoint'))")
        if called(c) == (SET, 'time.sleep', SET):
            c.snapshot('sp', 'trace[0][1]')
            c.snapshot('T', 'trace[1][1][0]')
            c.ensure('plain-positional-calls', 'len(trace[0][1]) == 4 and len(trace[0][2]) == 0 and len(trace[1][1]) == 1 and len(trace[2][2]) == 0')
            c.ensure('setpoint', sp)
            c.ensure('duration', T)
            c.ensure('ends-hovering', 'trace[2][1] == (0.0, 0.0, 0.0, 0.0)')


def _mc_move(prim):
    @contract('C17', 'mc.' + prim, [MCC + '.' + prim, MCC + '.move_distance', MCC + '.start_linear_motion', MCC + '.stop',
                                    MCC + '._set_vel_setpoint'], clause=CL_MOVE, float_mode='R')
    def k(c):
        self = mc_flying(c)
        if prim == 'move_distance':
            args = [c.float('dx'), c.float('dy'), c.float('dz')]
        else:
            d = c.float('d')
            sx, sy, sz = DIRS[prim]
            c.let('sx', sx), c.let('sy', sy), c.let('sz', sz)
            c.snapshot('dx', 'sx * d'), c.snapshot('dy', 'sy * d'), c.snapshot('dz', 'sz * d')
            args = [d]
        args += velocity_arg(c)
        c.call((self, prim), *args)
        c.snapshot('dist2', 'dx * dx + dy * dy + dz * dz')
        check_blocking(c, 'sp[0] * T == dx and sp[1] * T == dy and sp[2] * T == dz and sp[3] == 0',
                       'T >= 0 and (T * v) * (T * v) == dist2', ok_when='v > 0')
        if c.get('raised') is None:
            c.ensure('moves-iff-displacement-nonzero', 'iff(len(trace) == 3, dist2 > 0)')
    return k


for _p in list(DIRS) + ['move_distance']:
    _mc_move(_p)


def _mc_turn(prim, sign):
    @contract('C17', 'mc.' + prim, [MCC + '.' + prim, MCC + '.start_' + prim, MCC + '.stop', MCC + '._set_vel_setpoint'],
              clause=CL_MOVE + ' (turns: yaw rate * duration == requested angle, left positive)', float_mode='R')
    def k(c):
        self = mc_flying(c)
        c.float('angle')
        args = [c.get('angle')] + velocity_arg(c, 'rate', MC_RATE)
        c.call((self, prim), *args)
        c.let('sign', sign)
        check_blocking(c, 'sp == (0.0, 0.0, 0.0, sign * rate) and sp[3] * T == sign * angle', 'T >= 0',
                       ok_when='rate > 0 and angle >= 0')
        if c.get('raised') is None:
            c.ensure('always-commanded', 'len(trace) == 3')
    return k


_mc_turn('turn_left', 1)
_mc_turn('turn_right', -1)


def _mc_circle(prim, sign):
    @contract('C17', 'mc.' + prim, [MCC + '.' + prim, MCC + '.start_' + prim, MCC + '.stop', MCC + '._set_vel_setpoint'],
              clause=CL_MOVE + ' (circles: forward velocity v with yaw rate 360*v/(2*pi*r); rate * duration == requested '
              'angle, v * duration == arc length)', float_mode='R')
    def k(c):
        self = mc_flying(c)
        c.float('r')
        args = [c.get('r')] + velocity_arg(c)
        if c.choice('angle_given', [True, False]):
            if not args[1:]:
                args.append(MC_VELOCITY)
            args.append(c.float('angle'))
        else:
            c.let('angle', 360.0)
        c.let('sign', sign), c.let('PI', PI)
        c.call((self, prim), *args)
        # with the concrete default velocity the engine folds 360.0 * 0.2 in machine arithmetic (72.0, not the real product
        # of the two doubles), so the angle identity holds up to that rounding there; it is exact for a symbolic velocity
        turned = ('sign * sp[3] * T == angle' if c.get('v_given') else
                  'abs(sign * sp[3] * T - angle) <= 1e-12 * abs(angle)')
        check_blocking(c, 'sp[0] == v and sp[1] == 0 and sp[2] == 0 and sign * sp[3] * (2 * r * PI) == 360.0 * v and ' + turned,
                       'T >= 0 and v * T * 360.0 == 2 * r * PI * angle', ok_when='r > 0 and v > 0 and angle >= 0')
        if c.get('raised') is None:
            c.ensure('always-commanded', 'len(trace) == 3')
    return k


_mc_circle('circle_left', 1)
_mc_circle('circle_right', -1)


START = {   # primitive -> (argument names, expected set-point)
    'start_left': (['v'], '(0.0, v, 0.0, 0.0)'), 'start_right': (['v'], '(0.0, -v, 0.0, 0.0)'),
    'start_forward': (['v'], '(v, 0.0, 0.0, 0.0)'), 'start_back': (['v'], '(-v, 0.0, 0.0, 0.0)'),
    'start_up': (['v'], '(0.0, 0.0, v, 0.0)'), 'start_down': (['v'], '(0.0, 0.0, -v, 0.0)'),
    'stop': ([], '(0.0, 0.0, 0.0, 0.0)'),
    'start_turn_left': (['rate'], '(0.0, 0.0, 0.0, rate)'), 'start_turn_right': (['rate'], '(0.0, 0.0, 0.0, -rate)'),
    'start_linear_motion': (['vx', 'vy', 'vz', 'yaw'], '(vx, vy, vz, yaw)'),
}


@contract('C17', 'mc.start', [MCC + '.' + p for p in START] + [MCC + '._set_vel_setpoint'],
          clause='non-blocking primitives post exactly one velocity set-point in the documented direction to the set-point '
          'thread and keep the commander flying with the same thread (induction step of: ' + CL_END + ')', float_mode='R')
def mc_start(c):
    self = mc_flying(c)
    prim = c.choice('prim', sorted(START))
    names, expect = START[prim]
    args = []
    if names == ['v']:
        args = velocity_arg(c)
    elif names == ['rate']:
        args = velocity_arg(c, 'rate', MC_RATE)
    else:
        args = [c.float(n) for n in names]
        if prim == 'start_linear_motion' and not c.choice('yaw_given', [True, False]):
            args = args[:3]
            c.let('yaw', 0.0)
    c.call((self, prim), *args)
    c.ensure('no-exception', 'raised is None')
    c.ensure('invariant-preserved', INV)
    c.ensure('exactly-one-setpoint', "calls() == ('thread.set_vel_setpoint',) and all(len(e[2]) == 0 for e in trace)")
    if called(c) == (SET,):
        c.ensure('setpoint', 'trace[0][1] == ' + expect)


@contract('C17', 'mc.start_circle', [MCC + '.start_circle_left', MCC + '.start_circle_right', MCC + '._set_vel_setpoint'],
          clause='circles: forward velocity v with yaw rate 360*v/(2*pi*r), left positive; the commander keeps flying with the '
          'same thread whether or not the call raises', float_mode='R')
def mc_start_circle(c):
    self = mc_flying(c)
    prim = c.choice('prim', ['start_circle_left', 'start_circle_right'])
    c.let('sign', 1 if prim == 'start_circle_left' else -1), c.let('PI', PI)
    c.float('r')
    c.call((self, prim), c.get('r'), *velocity_arg(c))
    c.ensure('no-exception-when-valid', 'implies(r != 0, raised is None)')
    c.ensure('invariant-preserved', INV)
    if c.get('raised') is None:
        c.ensure('exactly-one-setpoint', "calls() == ('thread.set_vel_setpoint',) and all(len(e[2]) == 0 for e in trace)")
        if called(c) == (SET,):
            c.snapshot('sp', 'trace[0][1]')
            c.ensure('setpoint', 'len(sp) == 4 and sp[0] == v and sp[1] == 0 and sp[2] == 0 and sign * sp[3] * (2 * r * PI) == 360.0 * v')
    else:
        c.ensure('nothing-sent-when-raising', 'calls() == ()')


@contract('C17', 'mc.on_ground', [MCC + '.' + p for p in ('forward', 'turn_left', 'circle_left', 'start_up', 'stop', 'land', '__exit__')]
          + [MCC + '._set_vel_setpoint'],
          clause='on the ground (before take-off / after landing) no primitive streams anything: the motion primitives raise and '
          'land/__exit__ do nothing', float_mode='R')
def mc_on_ground(c):
    c.virtual_time()
    cf = c.ext('cf', returns={'is_connected': True})
    self = c.new(MCC, cf)
    c.let('self', self)
    c.reset_trace()
    prim = c.choice('prim', ['forward', 'turn_left', 'circle_left', 'start_up', 'stop', 'land', '__exit__'])
    args = {'forward': [c.float('d')], 'turn_left': [c.get('d')], 'circle_left': [c.get('d')], '__exit__': [None, None, None]}.get(prim, [])
    c.call((self, prim), *args)
    c.let('lands', prim in ('land', '__exit__'))
    c.ensure('nothing-sent', 'all(n == "time.sleep" for n in calls()) and len(calls("cf.")) == 0')
    c.ensure('still-on-ground', 'self._is_flying is False and self._thread is None')
    c.ensure('motion-refused', "iff(raised is None, lands or (d == 0 and %r))" % (prim == 'forward'))
    c.ensure('declared-error', "raised in (None, 'Exception') or (raised == 'ZeroDivisionError' and d == 0 and %r)" % (prim == 'circle_left'))


def _mc_land(via):
    @contract('C17', 'mc.land' + ('' if via == 'land' else '.' + via), [MCC + '.land', MCC + '.__exit__', MCC + '.down', MCC + '.move_distance'],
              clause=CL_END + ' [MotionCommander, from any flying state satisfying the invariant, ' + via + ']', float_mode='R')
    def k(c):
        self = mc_flying(c)
        if via == 'land':
            args = velocity_arg(c)
        else:
            c.let('v', MC_VELOCITY)
            args = [None, None, None] if via == 'exit' else [c.ext('exc_type'), c.ext('exc_value'), c.ext('exc_tb')]
        c.require('v > 0')
        c.call((self, 'land' if via == 'land' else '__exit__'), *args)
        c.ensure('no-exception', 'raised is None')
        END = "('thread.stop', 'cf.commander.send_stop_setpoint', 'cf.commander.send_notify_setpoint_stop')"
        c.ensure('ends-with-thread-stopped-then-stop-then-priority-release', 'calls()[-3:] == ' + END)
        c.ensure('stop-commands-without-arguments', 'all(len(e[1]) == 0 and len(e[2]) == 0 for e in trace[-3:])')
        c.ensure('descent-before', "calls()[:-3] in (('thread.get_height',), ('thread.get_height', 'thread.set_vel_setpoint', 'time.sleep', 'thread.set_vel_setpoint'))")
        c.ensure('descends-iff-above-or-below-ground', 'iff(len(trace) == 7, h != 0)')
        if called(c)[:4] == ('thread.get_height', SET, 'time.sleep', SET):
            c.snapshot('sp', 'trace[1][1]')
            c.snapshot('T', 'trace[2][1][0]')
            c.ensure('descent-setpoint', 'len(sp) == 4 and sp[0] == 0 and sp[1] == 0 and sp[3] == 0 and sp[2] * T == -h and len(trace[2][1]) == 1')
            c.ensure('descent-duration', 'T >= 0 and T * v == (h if h >= 0 else -h)')
            c.ensure('descent-ends-hovering', 'trace[3][1] == (0.0, 0.0, 0.0, 0.0)')
        c.ensure('on-ground-afterwards', 'self._is_flying is False and self._thread is None')
        if via != 'land':
            c.ensure('exception-not-swallowed', 'not result')
        # afterwards: landing again and any motion primitive stream nothing
        c.snapshot('n0', 'len(trace)')
        c.call((self, 'land'))
        c.ensure('second-land-sends-nothing', 'raised is None and len(trace) == n0')
        c.call((self, 'start_forward'))
        c.ensure('no-setpoints-afterwards', "raised == 'Exception' and len(trace) == n0")
    return k


for _v in ('land', 'exit', 'exit_exc'):
    _mc_land(_v)


@contract('C17', 'mc.take_off', [MCC + '.take_off', MCC + '.__enter__', MCC + '.up', MCC + '.move_distance', MCC + '._reset_position_estimator',
                                 SPT + '.__init__', SPT + '.set_vel_setpoint'],
          clause='take-off starts exactly one set-point thread for this Crazyflie and climbs: vertical velocity * duration == '
          'requested height; refused (nothing started or sent) when already flying or not connected', float_mode='R')
def mc_take_off(c):
    c.virtual_time()
    connected = c.bool('connected')
    cf = c.ext('cf', returns={'is_connected': connected})
    c.float('dh')
    self = c.new(MCC, cf, c.get('dh'))
    c.let('self', self)
    was_flying = c.choice('was_flying', [False, True])
    if was_flying:
        old = c.ext('thread')
        c.set(self, '_is_flying', True)
        c.set(self, '_thread', old)
    c.reset_trace()
    via = c.choice('via', ['take_off', 'take_off_height', '__enter__'])
    if via == 'take_off_height':
        args = [c.float('ht')] + velocity_arg(c)
    else:
        args = []
        c.let('ht', c.get('dh')), c.let('v', MC_VELOCITY)
    c.call((self, '__enter__' if via == '__enter__' else 'take_off'), *args)
    c.let('was_flying', was_flying)
    c.ensure('refused-iff-flying-or-not-connected', "iff(raised == 'Exception', was_flying or not connected)")
    c.ensure('no-exception-when-valid', "implies(not was_flying and connected and v > 0, raised is None)")
    c.ensure('declared-errors-only', "raised in (None, 'Exception') or (raised in ('ZeroDivisionError', 'ValueError') and not v > 0)")
    c.ensure('nothing-sent-to-the-commander', "len(calls('cf.commander')) == 0")
    if was_flying:
        c.ensure('refused', "calls() == () and self._is_flying is True and is_same(self._thread, thread)")
        return
    if c.get('raised') == 'Exception':
        c.ensure('refused-not-connected', "calls() == ('cf.is_connected',) and self._is_flying is False and self._thread is None")
        return
    c.snapshot('t', 'self._thread')
    c.ensure('flying-with-a-setpoint-thread', "self._is_flying is True and typename(t) == '_SetPointThread' and is_same(t._cf, cf) and t.update_period == 0.2")
    c.ensure('estimator-reset-then-thread-started-once',
             "calls()[:6] == ('cf.is_connected', 'cf.param.set_value', 'time.sleep', 'cf.param.set_value', 'time.sleep', 'thread:_SetPointThread.start') "
             "and len(sent('thread:_SetPointThread.start')) == 1 and all(is_same(e[1][0], t) for e in sent('thread:_SetPointThread.start'))")
    c.ensure('estimator-reset-values', "tuple(e[1] for e in sent('cf.param.set_value')) == (('kalman.resetEstimation', '1'), ('kalman.resetEstimation', '0'))")
    if c.get('t') is None:
        return
    c.snapshot('q', 'tuple(t._queue.queue)')
    c.snapshot('sleeps', "sent('time.sleep')[2:]")
    if c.get('raised') is None:
        c.ensure('climb-commanded-iff-height-nonzero', 'iff(ht != 0, len(q) == 2) and iff(ht == 0, len(q) == 0) and len(sleeps) == len(q) // 2')
        if via == '__enter__':
            c.ensure('enter-returns-self', 'is_same(result, self)')
        if len(c.get('q')) == 2 and len(c.get('sleeps')) == 1:
            c.snapshot('T', 'sleeps[0][1][0]')
            c.ensure('climb-setpoint', 'len(q[0]) == 4 and q[0][0] == 0 and q[0][1] == 0 and q[0][3] == 0 and q[0][2] * T == ht')
            c.ensure('climb-duration', 'T >= 0 and T * v == (ht if ht >= 0 else -ht)')
            c.ensure('then-hover', 'q[1] == (0.0, 0.0, 0.0, 0.0)')


# =========================================================================== _SetPointThread

def spt(c, clock=None):
    c.virtual_time(clock)
    cf = c.ext('cf')
    t = c.new(SPT, cf)
    c.let('t', t)
    c.reset_trace()
    return t


@contract('C17', 'thread.api', [SPT + '.__init__', SPT + '.set_vel_setpoint', SPT + '.stop', SPT + '.get_height'],
          clause='contract of the set-point thread used by the MotionCommander contracts: set_vel_setpoint queues exactly that '
          'set-point, stop queues the terminate event and joins the thread, get_height is the height of the last hover set-point',
          float_mode='R')
def thread_api(c):
    t = spt(c)
    c.ensure('initial-state', 'tuple(t._queue.queue) == () and t.get_height() == 0.0 and t.update_period == 0.2')
    sp = [c.float(n) for n in ('vx', 'vy', 'vz', 'yaw')]
    c.call((t, 'set_vel_setpoint'), *sp)
    c.ensure('set-no-exception', 'raised is None')
    c.ensure('setpoint-queued', 'tuple(t._queue.queue) == ((vx, vy, vz, yaw),)')
    c.ensure('nothing-sent-by-caller', "len(calls('cf.')) == 0 and len(calls('thread:')) == 0")
    c.call((t, 'get_height'))
    c.ensure('height-is-last-hover-height', 'raised is None and result == t._hover_setpoint[3]')
    c.call((t, 'stop'))
    c.ensure('stop-no-exception', 'raised is None')
    c.ensure('terminate-queued-last', "tuple(t._queue.queue) == ((vx, vy, vz, yaw), 'terminate')")
    c.ensure('joined-after-terminate', "calls('thread:') == ('thread:_SetPointThread.join',) and all(is_same(e[1][0], t) for e in sent('thread:_SetPointThread.join')) and len(calls('cf.')) == 0")


def _thread_run_events(n):
    @contract('C17', 'thread.run.events%d' % n, [SPT + '.run', SPT + '._new_setpoint', SPT + '._update_z_in_setpoint', SPT + '._current_z', SPT + '.get_height'],
              clause=CL_HOVER + ' - one hover set-point per queued velocity set-point carrying its vx, vy, yaw rate and the height '
              'base + vertical velocity * elapsed time; run() returns at the terminate event and sends nothing after it',
              float_mode='R', bounded='%d queued set-points before the terminate event (1 and 2 enumerated); further events after terminate' % n)
    def k(c):
        clk = c.floats('clk', 3 * n)
        t = spt(c, clk)
        ev = [[c.float('%s%d' % (a, i)) for a in ('vx', 'vy', 'vz', 'yaw')] for i in range(n)]
        for e in ev:
            c.call((t, 'set_vel_setpoint'), *e)
        c.call((t, 'stop'))
        c.call((t, 'set_vel_setpoint'), 1.0, 1.0, 1.0, 1.0)        # posted after the terminate event: must never be streamed
        c.reset_trace()
        c.call((t, 'run'))
        c.ensure('returns-at-terminate', 'raised is None and result is None')
        c.snapshot('hov', "sent('cf.commander.send_hover_setpoint')")
        c.ensure('one-hover-setpoint-per-event-none-after-terminate', "len(hov) == %d and calls('cf.') == ('cf.commander.send_hover_setpoint',) * %d" % (n, n))
        c.ensure('later-events-left-unread', 'tuple(t._queue.queue) == ((1.0, 1.0, 1.0, 1.0),)')
        # heights: z_k sent at clock reading c3 of event k; base b_k taken at reading c1, base time at reading c2
        c.let('b', 0.0), c.let('zv', 0.0), c.let('bt', 0.0)
        for i in range(n if len(c.get('hov')) == n else 0):
            c.let('i', i)
            c.snapshot('b', 'b + zv * (clk[3 * i] - bt)')
            c.snapshot('zv', 'vz%d' % i)
            c.snapshot('bt', 'clk[3 * i + 1]')
            c.snapshot('z', 'b + zv * (clk[3 * i + 2] - bt)')
            c.ensure('hover%d-velocity-and-yawrate' % i, 'len(hov[i][1]) == 4 and len(hov[i][2]) == 0 and hov[i][1][:3] == (vx%d, vy%d, yaw%d)' % (i, i, i))
            c.ensure('hover%d-height-integrates-vertical-velocity' % i, 'hov[i][1][3] == z')
            if i > 0:
                c.ensure('height-continuity%d' % i, 'implies(clk[3 * i] == clk[3 * i + 1], b == hov[i - 1][1][3] + vz%d * (clk[3 * i + 1] - clk[3 * i - 1]))' % (i - 1))
        if len(c.get('hov')) == n:
            c.ensure('reported-height', 't.get_height() == z')
    return k


_thread_run_events(1)
_thread_run_events(2)


@contract('C17', 'thread.run.ticks', [SPT + '.run', SPT + '._new_setpoint', SPT + '._update_z_in_setpoint', SPT + '._current_z'],
          clause=CL_HOVER + ' - with no new command every iteration of run() waits at most the update period (Queue.get with '
          'timeout=update_period) and then repeats the hover set-point with the height advanced by vertical velocity * elapsed time',
          float_mode='R', bounded='one velocity set-point followed by two idle periods (loop left by a scripted stub exception)')
def thread_run_ticks(c):
    clk = c.floats('clk', 5)
    c.virtual_time(clk)
    n = {'k': 0}
    stop = c.raiser('StopLoop')

    def hover(*_a):
        n['k'] += 1
        if n['k'] == 3:
            stop()
    cf = c.ext('cf', returns={'commander.send_hover_setpoint': hover})
    period = c.float('period')
    c.require('period > 0')
    t = c.new(SPT, cf, c.get('period'))
    c.let('t', t)
    # the queue is scripted: one velocity set-point, then nothing (queue.Empty after the timeout) for ever
    items = [tuple(c.float(a) for a in ('vx', 'vy', 'vz', 'yaw'))]
    empty = c.raiser('queue.Empty')

    def get(*_a):
        if items:
            return items.pop(0)
        empty()
    c.set(t, '_queue', c.ext('q', returns={'get': get}))
    c.reset_trace()
    c.call((t, 'run'))
    c.ensure('left-by-scripted-stop-only', "raised == 'StopLoop'")
    c.ensure('get-then-one-hover-setpoint-each-period', "tuple(x for x in calls() if x != 'time.time') == ('q.get', 'cf.commander.send_hover_setpoint') * 3")
    c.snapshot('hov', "sent('cf.commander.send_hover_setpoint')")
    c.snapshot('bt', 'clk[1]')
    c.ensure('hover-setpoints', 'all(len(e[1]) == 4 and len(e[2]) == 0 and e[1][:3] == (vx, vy, yaw) for e in hov)')
    if len(c.get('hov')) == 3:
        c.ensure('heights-integrate-vertical-velocity',
                 'hov[0][1][3] == vz * (clk[2] - bt) and hov[1][1][3] == vz * (clk[3] - bt) and hov[2][1][3] == vz * (clk[4] - bt)')
    c.ensure('waits-at-most-update-period', "all(e[2]['block'] is True and e[2]['timeout'] == period and len(e[1]) == 0 for e in sent('q.get'))")


# =========================================================================== MotionCommander + real _SetPointThread

@contract('C17', 'mc.session', [MCC + '.__enter__', MCC + '.take_off', MCC + '.__exit__', MCC + '.land', SPT + '.stop', SPT + '.set_vel_setpoint',
                                SPT + '.get_height'] + [MCC + '.' + p for p in ('forward', 'start_up', 'turn_left', 'stop')],
          clause=CL_END + ' [MotionCommander with its real set-point thread object: __enter__, a bounded program, __exit__]', float_mode='R',
          bounded='programs of 0..2 primitives drawn from forward/start_up/turn_left/stop, optionally ending in an exception')
def mc_session(c):
    c.virtual_time()
    cf = c.ext('cf', returns={'is_connected': True})
    self = c.new(MCC, cf)
    c.let('self', self)
    c.call((self, '__enter__'))
    c.require('raised is None')
    t = c.getfield(self, '_thread')
    c.let('t', t)
    c.float('h')
    c.set(t, '_hover_setpoint', [0.0, 0.0, 0.0, c.get('h')])      # the thread has streamed up to some height
    n = c.choice('n', [0, 1, 2])
    failed = False
    for i in range(n):
        p = c.choice('p%d' % i, ['forward', 'start_up', 'turn_left', 'stop'])
        a = [c.float('a%d' % i)] if p != 'stop' else []
        c.call((self, p), *a)
        if c.get('raised') is not None:       # the with statement leaves the body at the first exception
            failed = True
            break
    c.snapshot('n0', 'len(tuple(t._queue.queue))')
    c.reset_trace()
    c.call((self, '__exit__'), *([c.ext('exc_type'), c.ext('exc_value'), c.ext('exc_tb')] if failed else [None, None, None]))
    c.ensure('no-exception', 'raised is None')
    c.ensure('thread-terminated-and-joined-then-stop-then-priority-release',
             "tuple(x for x in calls() if x != 'time.sleep') == ('thread:_SetPointThread.join', 'cf.commander.send_stop_setpoint', 'cf.commander.send_notify_setpoint_stop')")
    c.ensure('joined-own-thread', "all(is_same(e[1][0], t) for e in sent('thread:_SetPointThread.join'))")
    c.ensure('terminate-is-the-last-event', "tuple(t._queue.queue)[-1:] == ('terminate',) and all(e != 'terminate' for e in tuple(t._queue.queue)[:-1])")
    c.ensure('descent-queued-iff-height-nonzero', 'len(tuple(t._queue.queue)) == n0 + (3 if h != 0 else 1)')
    c.ensure('on-ground-afterwards', 'self._is_flying is False and self._thread is None')


@contract('C17', 'mc.flight', [MCC + '.__enter__', MCC + '.take_off', MCC + '.__exit__', MCC + '.land', MCC + '.forward', MCC + '.start_up',
                               SPT + '.run', SPT + '.stop', SPT + '.set_vel_setpoint', SPT + '.get_height', SPT + '._new_setpoint'],
          clause=CL_END + ' [one virtual-time interleaving with the real thread body: the set-point thread runs (a) after take-off until it '
          'has read the two take-off set-points and (b) otherwise only when the commander blocks in join(); every hover set-point '
          'precedes the stop command]', float_mode='R',
          bounded='one interleaving; programs of 0..1 primitives drawn from forward/start_up, optionally ending in an exception')
def mc_flight(c):
    c.virtual_time()
    n = {'k': 0}
    stop_loop = c.raiser('StopLoop')

    def hover(*_a):
        n['k'] += 1
        if n['k'] == 2:
            stop_loop()         # scheduler: the thread is descheduled right after streaming the second set-point
    cf = c.ext('cf', returns={'is_connected': True, 'commander.send_hover_setpoint': hover})
    self = c.new(MCC, cf)
    c.let('self', self)
    c.call((self, '__enter__'))
    c.require('raised is None')
    t = c.getfield(self, '_thread')
    c.let('t', t)
    # Thread.join modelled by its contract "returns after run() has returned": run the real thread body to completion there
    c.set(t, 'join', c.ext('join', returns={'()': lambda *_a: c.invoke((t, 'run'))}))
    c.call((t, 'run'))
    c.require("raised == 'StopLoop'")
    c.snapshot('h', 't.get_height()')
    failed = False
    if c.choice('n', [0, 1]):
        p = c.choice('p', ['forward', 'start_up'])
        c.call((self, p), c.float('a'))
        failed = c.get('raised') is not None
    c.let('queued', len(tuple(c.getfield(c.getfield(t, '_queue'), 'queue'))))
    c.reset_trace()
    c.call((self, '__exit__'), *([c.ext('exc_type'), c.ext('exc_value'), c.ext('exc_tb')] if failed else [None, None, None]))
    c.ensure('no-exception', 'raised is None')
    c.snapshot('cmd', "calls('cf.commander')")
    c.ensure('every-hover-setpoint-precedes-stop-then-priority-release-last',
             "cmd[-2:] == ('cf.commander.send_stop_setpoint', 'cf.commander.send_notify_setpoint_stop') and "
             "all(x == 'cf.commander.send_hover_setpoint' for x in cmd[:-2])")
    c.ensure('queued-setpoints-all-streamed-before-stop', 'len(cmd) - 2 == queued + (2 if h != 0 else 0)')
    c.ensure('thread-body-finished-in-join', "len(sent('join')) == 1 and tuple(t._queue.queue) == ()")
    c.ensure('on-ground-afterwards', 'self._is_flying is False and self._thread is None')


# =========================================================================== PositionHlCommander

def phlc(c, flying=True, clock=None):
    """a PositionHlCommander from its real constructor at an arbitrary position with arbitrary defaults"""
    c.virtual_time(clock)
    connected = c.bool('connected') if not flying else True
    cf = c.ext('cf', returns={'is_connected': connected})
    for n in ('x0', 'y0', 'z0', 'dv', 'dh', 'lh'):
        c.float(n)
    self = c.new(PHC, cf, c.get('x0'), c.get('y0'), c.get('z0'), c.get('dv'), c.get('dh'), None, c.get('lh'))
    c.let('self', self)
    if flying:
        c.set(self, '_is_flying', True)
    c.reset_trace()
    return self


def opt_arg(c, name, default_name):
    """optional argument: explicit symbolic value, or left out / None (then the commander's default applies)"""
    how = c.choice(name + '_how', ['given', 'none'])
    if how == 'given':
        c.float(name + '_arg')
        c.snapshot(name, name + '_arg')
        return c.get(name + '_arg')
    c.snapshot(name, default_name)
    return None


GOTO = 'cf.high_level_commander.go_to'


def check_go_to(c, target):
    """shared post-conditions of everything that moves the PositionHlCommander: target = (tx, ty, tz) expressions"""
    c.snapshot('tgt', target)
    c.snapshot('dist2', '(tgt[0] - x0) * (tgt[0] - x0) + (tgt[1] - y0) * (tgt[1] - y0) + (tgt[2] - z0) * (tgt[2] - z0)')
    c.ensure('no-exception-when-valid', 'implies(v > 0, raised is None)')
    if c.get('raised') is None:
        c.ensure('position-is-start-plus-displacement', 'self.get_position() == tgt')
        c.ensure('go-to-then-sleep-or-nothing', "calls() in ((), ('%s', 'time.sleep'))" % GOTO)
        c.ensure('go-to-iff-distance-positive', 'iff(len(trace) == 2, dist2 > 0)')
        if called(c) == (GOTO, 'time.sleep'):
            c.snapshot('g', 'trace[0][1]')
            c.ensure('go-to-targets-position-absolute-yaw0', 'len(g) == 5 and g[:3] == tgt and g[3] == 0 and len(trace[0][2]) == 0')
            c.ensure('duration-is-distance-over-velocity', 'g[4] >= 0 and (g[4] * v) * (g[4] * v) == dist2')
            c.ensure('sleeps-for-the-duration', 'trace[1][1] == (g[4],)')
    else:
        c.ensure('position-unchanged-when-raising', 'self.get_position() == (x0, y0, z0)')
        c.ensure('declared-errors-only', "raised in ('ZeroDivisionError', 'ValueError')")


@contract('C17', 'phlc.go_to', [PHC + '.go_to', PHC + '.get_position', PHC + '._height', PHC + '._velocity'], clause=CL_POS, float_mode='R')
def phlc_go_to(c):
    self = phlc(c)
    c.float('x'), c.float('y')
    if c.choice('z_positional', [True, False]):
        z = opt_arg(c, 'z', 'dh')
        vel = opt_arg(c, 'v', 'dv')
        c.call((self, 'go_to'), c.get('x'), c.get('y'), z, vel)
    else:
        c.snapshot('z', 'dh'), c.snapshot('v', 'dv')
        c.call((self, 'go_to'), c.get('x'), c.get('y'))
    check_go_to(c, '(x, y, z)')


def _phlc_move(prim):
    @contract('C17', 'phlc.' + prim, [PHC + '.' + prim, PHC + '.move_distance', PHC + '.go_to', PHC + '.get_position'], clause=CL_POS, float_mode='R')
    def k(c):
        self = phlc(c)
        if prim == 'move_distance':
            args = [c.float('dx'), c.float('dy'), c.float('dz')]
        else:
            d = c.float('d')
            sx, sy, sz = DIRS[prim]
            c.let('sx', sx), c.let('sy', sy), c.let('sz', sz)
            c.snapshot('dx', 'sx * d'), c.snapshot('dy', 'sy * d'), c.snapshot('dz', 'sz * d')
            args = [d]
        if c.choice('v_positional', [True, False]):
            args.append(opt_arg(c, 'v', 'dv'))
        else:
            c.snapshot('v', 'dv')
        c.call((self, prim), *args)
        check_go_to(c, '(x0 + dx, y0 + dy, z0 + dz)')
    return k


for _p in list(DIRS) + ['move_distance']:
    _phlc_move(_p)


@contract('C17', 'phlc.defaults', [PHC + '.set_default_velocity', PHC + '.set_default_height', PHC + '.set_landing_height', PHC + '.go_to', PHC + '.land'],
          clause=CL_POS + ' - default changes: the new defaults apply to the following commands and change nothing else', float_mode='R')
def phlc_defaults(c):
    self = phlc(c)
    for n in ('ndv', 'ndh', 'nlh'):
        c.float(n)
    which = c.choice('which', ['set_default_velocity', 'set_default_height', 'set_landing_height'])
    c.call((self, which), c.get({'set_default_velocity': 'ndv', 'set_default_height': 'ndh', 'set_landing_height': 'nlh'}[which]))
    c.ensure('setter-sends-nothing', 'raised is None and calls() == () and self.get_position() == (x0, y0, z0) and self._is_flying is True')
    c.snapshot('v', 'ndv' if which == 'set_default_velocity' else 'dv')
    c.snapshot('z', 'ndh' if which == 'set_default_height' else 'dh')
    c.snapshot('l', 'nlh' if which == 'set_landing_height' else 'lh')
    c.float('x'), c.float('y')
    c.call((self, 'go_to'), c.get('x'), c.get('y'))
    check_go_to(c, '(x, y, z)')
    if c.get('raised') is None:
        c.reset_trace()
        c.require('z >= l and v > 0')
        c.call((self, 'land'))
        c.ensure('lands-on-new-landing-height', "raised is None and calls('cf.') == ('cf.high_level_commander.land', 'cf.high_level_commander.stop') "
                 "and all(e[1][:1] == (l,) for e in sent('cf.high_level_commander.land')) and self.get_position() == (x, y, l)")


@contract('C17', 'phlc.take_off', [PHC + '.take_off', PHC + '.__enter__', PHC + '.__init__', PHC + '._height', PHC + '._velocity'],
          clause='take-off climbs to the requested (or default) height with duration height/velocity and the reported position '
          'becomes (x, y, height); refused with nothing sent when already flying or not connected', float_mode='R')
def phlc_take_off(c):
    clk = c.floats('clk', 2)
    self = phlc(c, flying=False, clock=clk)
    was_flying = c.choice('was_flying', [False, True])
    if was_flying:
        c.set(self, '_is_flying', True)
    c.let('was_flying', was_flying)
    via = c.choice('via', ['take_off', '__enter__'])
    if via == 'take_off':
        ht = opt_arg(c, 'ht', 'dh')
        vel = opt_arg(c, 'v', 'dv')
        c.call((self, 'take_off'), ht, vel)
    else:
        c.snapshot('ht', 'dh'), c.snapshot('v', 'dv')
        c.call((self, '__enter__'))
    HL = "calls('cf.high_level_commander')"
    c.ensure('refused-iff-flying-or-not-connected', "iff(raised == 'Exception', was_flying or not connected)")
    c.ensure('no-exception-when-valid', 'implies(not was_flying and connected and v > 0 and ht >= 0, raised is None)')
    if c.get('raised') == 'Exception':
        c.ensure('nothing-sent-when-refused', HL + " == () and len(sent('time.sleep')) == 0 and self.get_position() == (x0, y0, z0) and self._is_flying is was_flying")
    elif c.get('raised') is None:
        c.ensure('one-takeoff-command', HL + " == ('cf.high_level_commander.takeoff',) and calls('cf.') == ('cf.is_connected', 'cf.high_level_commander.takeoff')")
        if called(c)[-2:] == ('cf.high_level_commander.takeoff', 'time.sleep'):
            c.snapshot('g', 'trace[-2]')
            c.ensure('takeoff-height-and-duration', 'len(g[1]) == 2 and len(g[2]) == 0 and g[1][0] == ht and g[1][1] * v == ht and g[1][1] >= 0')
            c.ensure('sleeps-for-the-duration', 'trace[-1][1] == (g[1][1],)')
        c.ensure('takeoff-then-sleep-last', "calls()[-2:] == ('cf.high_level_commander.takeoff', 'time.sleep')")
        c.ensure('holds-back-one-second-after-construction', "iff(len(sent('time.sleep')) == 2, clk[0] + 1.0 - clk[1] > 0) and len(sent('time.sleep')) in (1, 2) "
                 "and implies(len(sent('time.sleep')) == 2, sent('time.sleep')[0][1] == (clk[0] + 1.0 - clk[1],))")
        c.ensure('position-and-state', 'self.get_position() == (x0, y0, ht) and self._is_flying is True')
        if via == '__enter__':
            c.ensure('enter-returns-self', 'is_same(result, self)')
    else:
        c.ensure('declared-errors-only', "raised in ('ZeroDivisionError', 'ValueError')")


@contract('C17', 'phlc.land', [PHC + '.land', PHC + '.__exit__', PHC + '._landing_height', PHC + '._velocity', PHC + '.get_position'],
          clause=CL_END + ' [PositionHlCommander, from any flying state; land, __exit__ without and with a pending exception]', float_mode='R')
def phlc_land(c):
    self = phlc(c)
    via = c.choice('via', ['land', 'land_args', 'exit', 'exit_exc'])
    if via == 'land_args':
        args = [opt_arg(c, 'v', 'dv'), opt_arg(c, 'l', 'lh')]
    else:
        c.snapshot('v', 'dv'), c.snapshot('l', 'lh')
        args = {'land': [], 'exit': [None, None, None]}.get(via) if via != 'exit_exc' else [c.ext('exc_type'), c.ext('exc_value'), c.ext('exc_tb')]
    c.require('v > 0')
    c.call((self, 'land' if via.startswith('land') else '__exit__'), *args)
    # KNOWN FINDING (kept visible): fails for z0 < l - negative duration, time.sleep raises ValueError before hl.stop()
    c.ensure('no-exception', 'raised is None')
    c.ensure('no-exception-at-or-above-landing-height', 'implies(z0 >= l, raised is None)')
    if c.get('raised') is None:
        c.ensure('land-sleep-stop-and-nothing-else', "calls() == ('cf.high_level_commander.land', 'time.sleep', 'cf.high_level_commander.stop')")
        if called(c) == ('cf.high_level_commander.land', 'time.sleep', 'cf.high_level_commander.stop'):
            c.snapshot('g', 'trace[0][1]')
            c.ensure('land-height-and-duration', 'len(g) == 2 and len(trace[0][2]) == 0 and g[0] == l and g[1] * v == z0 - l')
            c.ensure('sleeps-for-the-duration', 'trace[1][1] == (g[1],)')
            c.ensure('stop-command-plain', 'len(trace[2][1]) == 0 and len(trace[2][2]) == 0')
        c.ensure('on-ground-at-landing-height', 'self._is_flying is False and self.get_position() == (x0, y0, l)')
        if via.startswith('exit'):
            c.ensure('exception-not-swallowed', 'not result')
        c.snapshot('n0', 'len(trace)')
        c.call((self, 'land'))
        c.ensure('second-land-sends-nothing', 'raised is None and len(trace) == n0')


PROG = {'forward': (1, 0, 0), 'left': (0, 1, 0), 'down': (0, 0, -1)}


@contract('C17', 'phlc.session', [PHC + '.__enter__', PHC + '.take_off', PHC + '.__exit__', PHC + '.land', PHC + '.go_to', PHC + '.move_distance',
                                  PHC + '.get_position'] + [PHC + '.' + p for p in PROG],
          clause=CL_POS + '; ' + CL_END + ' [PositionHlCommander: __enter__, a bounded program, __exit__]', float_mode='R',
          bounded='programs of 0..2 primitives drawn from forward/left/down/go_to with the default velocity')
def phlc_session(c):
    self = phlc(c, flying=False)
    c.require('connected and dv > 0 and dh >= 0')
    c.call((self, '__enter__'))
    c.require('raised is None')
    n = c.choice('n', [0, 1, 2])
    c.snapshot('px', 'x0'), c.snapshot('py', 'y0'), c.snapshot('pz', 'dh')
    for i in range(n):
        p = c.choice('p%d' % i, sorted(PROG) + ['go_to'])
        if p == 'go_to':
            a = [c.float('gx%d' % i), c.float('gy%d' % i), c.float('gz%d' % i)]
            c.snapshot('px', 'gx%d' % i), c.snapshot('py', 'gy%d' % i), c.snapshot('pz', 'gz%d' % i)
        else:
            a = [c.float('a%d' % i)]
            sx, sy, sz = PROG[p]
            c.let('s', (sx, sy, sz)), c.let('i', i)
            c.snapshot('px', 'px + s[0] * a%d' % i), c.snapshot('py', 'py + s[1] * a%d' % i), c.snapshot('pz', 'pz + s[2] * a%d' % i)
        c.call((self, p), *a)
        c.ensure('step%d-no-exception' % i, 'raised is None')
        c.ensure('step%d-position-is-start-plus-sum-of-displacements' % i, 'self.get_position() == (px, py, pz)')
        c.ensure('step%d-last-go-to-targets-reported-position' % i, "implies(len(sent('%s')) > 0, sent('%s')[-1][1][:3] == (px, py, pz))" % (GOTO, GOTO))
    c.require('pz >= lh')
    c.reset_trace()
    c.call((self, '__exit__'), None, None, None)
    c.ensure('no-exception', 'raised is None')
    c.ensure('ends-with-land-sleep-stop', "calls() == ('cf.high_level_commander.land', 'time.sleep', 'cf.high_level_commander.stop')")
    if called(c)[:2] == ('cf.high_level_commander.land', 'time.sleep'):
        c.ensure('landing-from-tracked-height', 'len(trace[0][1]) == 2 and trace[0][1][0] == lh and trace[0][1][1] * dv == pz - lh and trace[1][1] == (trace[0][1][1],)')
    c.ensure('final-position', 'self.get_position() == (px, py, lh) and self._is_flying is False')


@contract('C17', 'phlc.take_off.interrupted', [PHC + '.take_off', PHC + '.land', PHC + '.__exit__'],
          clause=CL_END + ' [PositionHlCommander: an exception (e.g. KeyboardInterrupt) that leaves take_off() after the take-off command was '
                          'sent; the land() of the application\'s finally block must still send land and stop]', float_mode='R',
          bounded='the exception comes out of the climb wait of take_off(); default landing velocity and height')
def phlc_take_off_interrupted(c):
    self = phlc(c, flying=False)
    c.require('connected and dv > 0 and dh >= 0 and dh >= lh')
    boom = c.raiser('KeyboardInterrupt')
    state = {'armed': False}

    def sleep(_i, args, _k):
        if state['armed']:
            state['armed'] = False
            return boom()
        return None

    def takeoff(_i, args, _k):
        state['armed'] = True           # the next wait (the climb) is interrupted
        return None
    c.set(c.getfield(self, '_hl_commander'), 'takeoff', c.ext('cf.high_level_commander.takeoff', returns={'()': takeoff}))
    c.patch(PHL + ':time', c.ext('time', returns={'sleep': sleep, 'time': 2000.0}))
    c.call((self, 'take_off'))
    c.require("raised == 'KeyboardInterrupt' and len(sent('cf.high_level_commander.takeoff')) == 1")
    c.reset_trace()
    c.call((self, 'land'))
    c.ensure('land-returns', 'raised is None')
    c.ensure('land-and-stop-sent', "calls('cf.high_level_commander') == ('cf.high_level_commander.land', 'cf.high_level_commander.stop')")
    c.ensure('on-ground-afterwards', 'self._is_flying is False')


CMDR = 'cflib.crazyflie.commander:Commander'


@contract('C17', 'thread.run.on-the-wire', [SPT + '.run', SPT + '._new_setpoint', CMDR + '.send_hover_setpoint', CMDR + '.set_client_xmode'],
          clause=CL_HOVER + ' - and the streamed hover set-point reaches the link with the commanded velocities in the requested direction: through '
                            'the real Commander the packet carries vx, vy, yaw rate and height unchanged, whatever client X-mode the application '
                            'selected for manual attitude set-points',
          bounded='one queued set-point; clock readings all equal (the height arithmetic is the subject of thread.run.events*)')
def thread_on_the_wire(c):
    c.virtual_time([0.0, 0.0, 0.0])
    ver = c.int('ver', -1, 255)
    cf = c.ext('cf', returns={'platform.get_protocol_version': ver})
    cmd = c.new(CMDR, cf)
    c.call((cmd, 'set_client_xmode'), c.bool('x_mode'))
    c.set(cf, 'commander', cmd)
    t = c.new(SPT, cf)
    c.let('t', t)
    for a in ('vx', 'vy', 'yaw'):
        c.float(a)
    c.require('-1e30 < vx < 1e30 and -1e30 < vy < 1e30 and -1e30 < yaw < 1e30')
    c.call((t, 'set_vel_setpoint'), c.get('vx'), c.get('vy'), 0.0, c.get('yaw'))
    c.call((t, 'stop'))
    c.reset_trace()
    c.call((t, 'run'))
    c.ensure('returns-at-terminate', 'raised is None')
    c.ensure('one-packet', "len(sent('cf.send_packet')) == 1")
    c.snapshot('pk', "sent('cf.send_packet')[0][1][0]")
    c.ensure('generic-setpoint-port', 'pk.port == 7 and pk.channel == 0')
    c.ensure('velocities-in-the-requested-direction',
             "bytes(pk.data) == (pack('<Bffff', 5, vx, vy, -yaw, 0.0) if ver <= 8 else pack('<Bffff', 10, vx, vy, yaw, 0.0))")
