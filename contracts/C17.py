"""C17 - flight helpers (draft)."""
from pyvc.api import contract

MC = 'cflib.positioning.motion_commander'
PHL = 'cflib.positioning.position_hl_commander'


def phlc(c):
    """a PositionHlCommander built by its real constructor, in the air through the real take_off"""
    c.virtual_time()
    cf = c.ext('cf', returns={'is_connected': True})
    for n in ('x0', 'y0', 'zi', 'dv', 'dh', 'lh', 'z0'):
        c.float(n)
    c.require('dv > 0')
    self = c.new(PHL + ':PositionHlCommander', cf, c.get('x0'), c.get('y0'), c.get('zi'), c.get('dv'), c.get('dh'), None, c.get('lh'))
    c.let('self', self)
    c.require('z0 >= 0')
    c.call((self, 'take_off'), c.get('z0'))
    c.require('raised is None')
    c.reset_trace()
    return self


@contract('C17', 'phlc.go_to', [PHL + ':PositionHlCommander.go_to'], clause='go-to targets position, duration distance/velocity', float_mode='R')
def phlc_go_to(c):
    self = phlc(c)
    for n in ('x', 'y', 'z', 'v'):
        c.float(n)
    c.require('v > 0')
    c.call((self, 'go_to'), c.get('x'), c.get('y'), c.get('z'), c.get('v'))
    c.ensure('no-exception', 'raised is None')
    c.ensure('position', 'self.get_position() == (x, y, z)')
    c.ensure('trace-names', "implies((x, y, z) != (x0, y0, z0), calls() == ('cf.high_level_commander.go_to', 'time.sleep'))")
