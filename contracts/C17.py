"""C17 - flight helpers always end on the ground command and track motion faithfully.

Sequential (virtual time) fragment of the property, real arithmetic (float_mode='R': machine floats are treated as
mathematical reals, so rounding in distance/velocity is not modelled).

How the clauses are decomposed
------------------------------
* MotionCommander against the *contract of its set-point thread*: in `mc.*` contracts the commander is built by its real
  constructor, put in the air and given a recording stub as `_thread` (`c.set`), so that the order of
  `thread.set_vel_setpoint / thread.get_height / thread.stop`, `time.sleep` and the commander packets
  (`cf.commander.send_stop_setpoint`, `cf.commander.send_notify_setpoint_stop`) is one observable trace.
  "Whatever sequence of motion primitives came before" is by induction over the program: every primitive (blocking,
  start_*, stop; returning or raising) preserves the representation invariant INV = (`_is_flying`, `_thread` is the same
  thread, `_cf` is the same Crazyflie) and the landing contract assumes nothing but INV (height and thread state are
  arbitrary).  `mc.session` additionally runs real bounded programs (`__enter__`, primitives, `__exit__`) with the real
  `_SetPointThread` object (thread body not running), and `mc.flight` one virtual-time interleaving in which the real
  thread body run() is executed after take-off and inside join() (Thread.join replaced by its contract "returns after
  run() returned"), so that hover set-points and the stop command appear in one trace.
* `_SetPointThread` itself (`thread.*` contracts): `set_vel_setpoint/stop/get_height`, and the real `run()` loop executed
  sequentially on a scripted queue and a scripted clock (every `time.time()` reading is a contract input): one hover
  set-point per loop iteration, height = base + vertical velocity * elapsed time, nothing sent once the terminate event is
  read.  "No set-points streamed after the stop command" then follows from: land() calls thread.stop() *before*
  send_stop_setpoint (mc.land), stop() = put(terminate) + join() (thread.stop), run() returns at the terminate event
  without sending (thread.run.events*), and the assumed contract of threading.Thread.join (returns after run() returned).
* PositionHlCommander (`phlc.*`): real object, recording stub for the Crazyflie (`cf.high_level_commander.*`).
  position == start + sum of displacements is by induction: one contract per public method states the new stored
  position; `phlc.session` runs bounded real programs (`__enter__`, primitives, `__exit__`) end to end.

Pre-conditions (misuse outside the property): velocities/rates > 0, turn/circle angles >= 0, circle radius > 0 for the
"no exception" conclusions (the frame/invariant conclusions are proved without them).

Assumptions: float mode R; time.sleep(d) raises ValueError for d < 0 and otherwise only passes time; time.time() is
non-decreasing; Thread.start/join and the Crazyflie (`cf`) are recording stubs (sequential model, `c.virtual_time()`);
Queue is a FIFO; the default velocity 0.2 and math.pi are the doubles the code uses - the engine folds products of two
concrete floats (360.0 * 0.2) in machine arithmetic, so for circles flown with the *default* velocity the identity
"rate * duration == angle" is stated with a relative tolerance of 1e-12 (exact for every explicit velocity).

Known finding kept visible: `phlc.land`/`no-exception` - PositionHlCommander.land() with the current z below the landing
height computes a negative duration; time.sleep raises ValueError after hl.land was sent and before hl.stop.

Extension round (second half of this file)
------------------------------------------
* Wire level: `phlc.on-the-wire` (PositionHlCommander through the REAL HighLevelCommander: absolute go-to packets to the
  tracked position, land packet then stop packet), `mc.on-the-wire` (MotionCommander + real set-point thread body + REAL
  Commander, mode R, symbolic arguments, client X-mode and protocol version symbolic), `mc.on-the-wire.grid` (the same in
  machine arithmetic with exact struct.pack on a concrete grid; no solver involved, so it is a deterministic witness for
  changes of the packet contents).  Only the fields C17 speaks about are compared (command, group mask, absolute flag,
  target, duration / velocities, yaw rate, height); yaw of take-off/land, the `linear` flag and the validity time of the
  priority release are left free.
* Virtual time (`class CoSim`, `mc.flight.timed*`): "hover set-points at least every update period" and "height integrates
  the commanded vertical velocity" are now end-to-end statements about the real MotionCommander and the real run() loop in
  the punctual schedule: Queue.get(timeout) and time.sleep are given virtual-time semantics by stubs, the number of periodic
  wake-ups inside each sleep of the commanding thread is explored (bound K per sleep), gaps between consecutive hover
  set-points are measured on the virtual clock against the DOCUMENTED period 0.2 s (tolerance 1 ns for the rounding of clock
  sums in native runs), heights against the integral of the commanded vertical velocity kept as ghost state.
* Induction over the run() loop: `thread.run.step` (one iteration from any reachable thread state).
* Histories: `mc.second-flight`, `phlc.second-flight` (land, take off again on the same object), `construct.from-sync`,
  `phlc.defaults.take_off`; `still-flying` in every phlc.* move contract (induction step for "whatever primitives came before",
  including the error exits); `get_position` is called as a function under contract (`reported_position`).
* Thorough tier: programs of 3 primitives (`*.session.thorough.*`), two-primitive timed flights with up to 2 and one-primitive
  flights with up to 3 periodic wake-ups per sleep, every blocking primitive through the wire, 3/4 queued events, 6 idle periods.

Not covered (outside the technique)
-----------------------------------
* pre-emption of one thread between two statements of the other and scheduling delays: the virtual-time contracts explore the
  punctual schedules (each thread runs as soon as it is runnable; the set-point thread handles a queued set-point at the
  virtual instant it is posted) plus the two extremes of mc.flight (thread runs only after take-off and inside join).  Under
  a late schedule the streamed height lags by (delay * vertical velocity); the race on `_hover_setpoint` between
  get_height() (commanding thread) and run() is not modelled.  Observation (not a clause of C17): land() descends by
  get_height() = the height of the last STREAMED set-point; directly after a vertical motion that value is up to one update
  period of vertical travel old (the pending stop set-point has not been handled yet when land() reads it).
* "no set-points streamed afterwards" under the real thread: relies on the assumed contract of Thread.join (above).
* time.time() is read twice inside _new_setpoint; the height formula is stated exactly in terms of both readings (the
  height integrates the velocity exactly when the two readings coincide, see thread.run.events/height-continuity and
  thread.run.step); in the virtual-time contracts both readings are the same virtual instant.
* floating-point rounding (mode R; machine arithmetic only on the concrete grid of mc.on-the-wire.grid and in
  thread.run.on-the-wire), NaN/inf arguments.  In mode R struct.pack of a real is an uninterpreted function: a counterexample of
  a wire obligation whose difference vanishes in float32 rounding does not replay (reported as ENGINE-MISMATCH, never green).
* programs longer than the stated bound in the session / timed contracts (the inductive per-primitive contracts are unbounded).
* the optional controller parameter of PositionHlCommander, Commander.send_full_state_setpoint (not used by the flight helpers).
"""
from pyvc.api import contract

MC = 'cflib.positioning.motion_commander'
PHL = 'cflib.positioning.position_hl_commander'
MCC = MC + ':MotionCommander'
SPT = MC + ':_SetPointThread'
PHC = PHL + ':PositionHlCommander'

CL_END = ('leaving the context (normally or through an exception) or calling land always ends with the stop command sent '
          '(MotionCommander: followed by the setpoint-priority release) and no setpoints streamed afterwards, whatever '
          'sequence of motion primitives came before')
CL_MOVE = ('each blocking primitive commands velocity and duration whose product is the requested displacement in the '
           'requested direction')
CL_HOVER = ('while flying, hover setpoints are streamed at least every update period with a height that integrates the '
            'commanded vertical velocity')
CL_POS = ('the position reported by the PositionHlCommander equals the start position plus the sum of commanded '
          'displacements, and every go-to it issues targets that position with duration distance/velocity')

DIRS = {'left': (0, 1, 0), 'right': (0, -1, 0), 'forward': (1, 0, 0), 'back': (-1, 0, 0), 'up': (0, 0, 1), 'down': (0, 0, -1)}
MC_VELOCITY = 0.2       # documented default velocity of the MotionCommander primitives (m/s)
MC_RATE = 72.0          # documented default yaw rate (360 degrees in 5 s)
PI = 3.141592653589793

INV = 'self._is_flying is True and is_same(self._thread, thread) and is_same(self._cf, cf)'


# =========================================================================== MotionCommander (thread = its contract)

def mc_flying(c):
    """a MotionCommander from its real constructor, in the air, with a recording stub for the set-point thread whose
    height is arbitrary"""
    c.virtual_time()
    cf = c.ext('cf', returns={'is_connected': True})
    c.float('dh')
    self = c.new(MCC, cf, c.get('dh'))
    h = c.float('h')
    thread = c.ext('thread', returns={'get_height': h})
    c.set(self, '_is_flying', True)
    c.set(self, '_thread', thread)
    c.let('self', self)
    c.reset_trace()
    return self


def called(c, prefix=''):
    """names of the recorded external calls (concrete on every path), for choosing which post-conditions apply"""
    return tuple(e[0] for e in c.get('trace') if e[0].startswith(prefix))


SET = 'thread.set_vel_setpoint'


def velocity_arg(c, name='v', default=MC_VELOCITY):
    """the optional velocity argument: explicit (symbolic) or left out (documented default)"""
    if c.choice(name + '_given', [True, False]):
        return [c.float(name)]
    c.let(name, default)
    return []


def check_blocking(c, sp, T, ok_when):
    """post-conditions shared by the blocking primitives: set-point `sp`, sleep `T`, zero set-point - or nothing"""
    c.ensure('invariant-preserved', INV)
    c.ensure('no-exception-when-valid', 'implies(%s, raised is None)' % ok_when)
    c.ensure('only-thread-and-sleep', "all(n in ('thread.set_vel_setpoint', 'time.sleep') for n in calls())")
    if c.get('raised') is None:
        c.ensure('nothing-or-start-sleep-stop', "calls() in ((), ('thread.set_vel_setpoint', 'time.sleep', 'thread.set_vel_setpoint'))")
        if called(c) == (SET, 'time.sleep', SET):
            c.snapshot('sp', 'trace[0][1]')
            c.snapshot('T', 'trace[1][1][0]')
            c.ensure('plain-positional-calls', 'len(trace[0][1]) == 4 and len(trace[0][2]) == 0 and len(trace[1][1]) == 1 and len(trace[2][2]) == 0')
            c.ensure('setpoint', sp)
            c.ensure('duration', T)
            c.ensure('ends-hovering', 'trace[2][1] == (0.0, 0.0, 0.0, 0.0)')


def _mc_move(prim):
    @contract('C17', 'mc.' + prim, [MCC + '.' + prim, MCC + '.move_distance', MCC + '.start_linear_motion', MCC + '.stop',
                                    MCC + '._set_vel_setpoint'], clause=CL_MOVE, float_mode='R')
    def k(c):
        self = mc_flying(c)
        if prim == 'move_distance':
            args = [c.float('dx'), c.float('dy'), c.float('dz')]
        else:
            d = c.float('d')
            sx, sy, sz = DIRS[prim]
            c.let('sx', sx), c.let('sy', sy), c.let('sz', sz)
            c.snapshot('dx', 'sx * d'), c.snapshot('dy', 'sy * d'), c.snapshot('dz', 'sz * d')
            args = [d]
        args += velocity_arg(c)
        c.call((self, prim), *args)
        c.snapshot('dist2', 'dx * dx + dy * dy + dz * dz')
        check_blocking(c, 'sp[0] * T == dx and sp[1] * T == dy and sp[2] * T == dz and sp[3] == 0',
                       'T >= 0 and (T * v) * (T * v) == dist2', ok_when='v > 0')
        if c.get('raised') is None:
            c.ensure('moves-iff-displacement-nonzero', 'iff(len(trace) == 3, dist2 > 0)')
    return k


for _p in list(DIRS) + ['move_distance']:
    _mc_move(_p)


def _mc_turn(prim, sign):
    @contract('C17', 'mc.' + prim, [MCC + '.' + prim, MCC + '.start_' + prim, MCC + '.stop', MCC + '._set_vel_setpoint'],
              clause=CL_MOVE + ' (turns: yaw rate * duration == requested angle, left positive)', float_mode='R')
    def k(c):
        self = mc_flying(c)
        c.float('angle')
        args = [c.get('angle')] + velocity_arg(c, 'rate', MC_RATE)
        c.call((self, prim), *args)
        c.let('sign', sign)
        check_blocking(c, 'sp == (0.0, 0.0, 0.0, sign * rate) and sp[3] * T == sign * angle', 'T >= 0',
                       ok_when='rate > 0 and angle >= 0')
        if c.get('raised') is None:
            c.ensure('always-commanded', 'len(trace) == 3')
    return k


_mc_turn('turn_left', 1)
_mc_turn('turn_right', -1)


def _mc_circle(prim, sign):
    @contract('C17', 'mc.' + prim, [MCC + '.' + prim, MCC + '.start_' + prim, MCC + '.stop', MCC + '._set_vel_setpoint'],
              clause=CL_MOVE + ' (circles: forward velocity v with yaw rate 360*v/(2*pi*r); rate * duration == requested '
              'angle, v * duration == arc length)', float_mode='R')
    def k(c):
        self = mc_flying(c)
        c.float('r')
        args = [c.get('r')] + velocity_arg(c)
        if c.choice('angle_given', [True, False]):
            if not args[1:]:
                args.append(MC_VELOCITY)
            args.append(c.float('angle'))
        else:
            c.let('angle', 360.0)
        c.let('sign', sign), c.let('PI', PI)
        c.call((self, prim), *args)
        # with the concrete default velocity the engine folds 360.0 * 0.2 in machine arithmetic (72.0, not the real product
        # of the two doubles), so the angle identity holds up to that rounding there; it is exact for a symbolic velocity
        turned = ('sign * sp[3] * T == angle' if c.get('v_given') else
                  'abs(sign * sp[3] * T - angle) <= 1e-12 * abs(angle)')
        check_blocking(c, 'sp[0] == v and sp[1] == 0 and sp[2] == 0 and sign * sp[3] * (2 * r * PI) == 360.0 * v and ' + turned,
                       'T >= 0 and v * T * 360.0 == 2 * r * PI * angle', ok_when='r > 0 and v > 0 and angle >= 0')
        if c.get('raised') is None:
            c.ensure('always-commanded', 'len(trace) == 3')
    return k


_mc_circle('circle_left', 1)
_mc_circle('circle_right', -1)


START = {   # primitive -> (argument names, expected set-point)
    'start_left': (['v'], '(0.0, v, 0.0, 0.0)'), 'start_right': (['v'], '(0.0, -v, 0.0, 0.0)'),
    'start_forward': (['v'], '(v, 0.0, 0.0, 0.0)'), 'start_back': (['v'], '(-v, 0.0, 0.0, 0.0)'),
    'start_up': (['v'], '(0.0, 0.0, v, 0.0)'), 'start_down': (['v'], '(0.0, 0.0, -v, 0.0)'),
    'stop': ([], '(0.0, 0.0, 0.0, 0.0)'),
    'start_turn_left': (['rate'], '(0.0, 0.0, 0.0, rate)'), 'start_turn_right': (['rate'], '(0.0, 0.0, 0.0, -rate)'),
    'start_linear_motion': (['vx', 'vy', 'vz', 'yaw'], '(vx, vy, vz, yaw)'),
}


@contract('C17', 'mc.start', [MCC + '.' + p for p in START] + [MCC + '._set_vel_setpoint'],
          clause='non-blocking primitives post exactly one velocity set-point in the documented direction to the set-point '
          'thread and keep the commander flying with the same thread (induction step of: ' + CL_END + ')', float_mode='R')
def mc_start(c):
    self = mc_flying(c)
    prim = c.choice('prim', sorted(START))
    names, expect = START[prim]
    args = []
    if names == ['v']:
        args = velocity_arg(c)
    elif names == ['rate']:
        args = velocity_arg(c, 'rate', MC_RATE)
    else:
        args = [c.float(n) for n in names]
        if prim == 'start_linear_motion' and not c.choice('yaw_given', [True, False]):
            args = args[:3]
            c.let('yaw', 0.0)
    c.call((self, prim), *args)
    c.ensure('no-exception', 'raised is None')
    c.ensure('invariant-preserved', INV)
    c.ensure('exactly-one-setpoint', "calls() == ('thread.set_vel_setpoint',) and all(len(e[2]) == 0 for e in trace)")
    if called(c) == (SET,):
        c.ensure('setpoint', 'trace[0][1] == ' + expect)


@contract('C17', 'mc.start_circle', [MCC + '.start_circle_left', MCC + '.start_circle_right', MCC + '._set_vel_setpoint'],
          clause='circles: forward velocity v with yaw rate 360*v/(2*pi*r), left positive; the commander keeps flying with the '
          'same thread whether or not the call raises', float_mode='R')
def mc_start_circle(c):
    self = mc_flying(c)
    prim = c.choice('prim', ['start_circle_left', 'start_circle_right'])
    c.let('sign', 1 if prim == 'start_circle_left' else -1), c.let('PI', PI)
    c.float('r')
    c.call((self, prim), c.get('r'), *velocity_arg(c))
    c.ensure('no-exception-when-valid', 'implies(r != 0, raised is None)')
    c.ensure('invariant-preserved', INV)
    if c.get('raised') is None:
        c.ensure('exactly-one-setpoint', "calls() == ('thread.set_vel_setpoint',) and all(len(e[2]) == 0 for e in trace)")
        if called(c) == (SET,):
            c.snapshot('sp', 'trace[0][1]')
            c.ensure('setpoint', 'len(sp) == 4 and sp[0] == v and sp[1] == 0 and sp[2] == 0 and sign * sp[3] * (2 * r * PI) == 360.0 * v')
    else:
        c.ensure('nothing-sent-when-raising', 'calls() == ()')


@contract('C17', 'mc.on_ground', [MCC + '.' + p for p in ('forward', 'turn_left', 'circle_left', 'start_up', 'stop', 'land', '__exit__')]
          + [MCC + '._set_vel_setpoint'],
          clause='on the ground (before take-off / after landing) no primitive streams anything: the motion primitives raise and '
          'land/__exit__ do nothing', float_mode='R')
def mc_on_ground(c):
    c.virtual_time()
    cf = c.ext('cf', returns={'is_connected': True})
    self = c.new(MCC, cf)
    c.let('self', self)
    c.reset_trace()
    prim = c.choice('prim', ['forward', 'turn_left', 'circle_left', 'start_up', 'stop', 'land', '__exit__'])
    args = {'forward': [c.float('d')], 'turn_left': [c.get('d')], 'circle_left': [c.get('d')], '__exit__': [None, None, None]}.get(prim, [])
    c.call((self, prim), *args)
    c.let('lands', prim in ('land', '__exit__'))
    c.ensure('nothing-sent', 'all(n == "time.sleep" for n in calls()) and len(calls("cf.")) == 0')
    c.ensure('still-on-ground', 'self._is_flying is False and self._thread is None')
    c.ensure('motion-refused', "iff(raised is None, lands or (d == 0 and %r))" % (prim == 'forward'))
    c.ensure('declared-error', "raised in (None, 'Exception') or (raised == 'ZeroDivisionError' and d == 0 and %r)" % (prim == 'circle_left'))


def _mc_land(via):
    @contract('C17', 'mc.land' + ('' if via == 'land' else '.' + via), [MCC + '.land', MCC + '.__exit__', MCC + '.down', MCC + '.move_distance'],
              clause=CL_END + ' [MotionCommander, from any flying state satisfying the invariant, ' + via + ']', float_mode='R')
    def k(c):
        self = mc_flying(c)
        if via == 'land':
            args = velocity_arg(c)
        else:
            c.let('v', MC_VELOCITY)
            args = [None, None, None] if via == 'exit' else [c.ext('exc_type'), c.ext('exc_value'), c.ext('exc_tb')]
        c.require('v > 0')
        c.call((self, 'land' if via == 'land' else '__exit__'), *args)
        c.ensure('no-exception', 'raised is None')
        END = "('thread.stop', 'cf.commander.send_stop_setpoint', 'cf.commander.send_notify_setpoint_stop')"
        c.ensure('ends-with-thread-stopped-then-stop-then-priority-release', 'calls()[-3:] == ' + END)
        c.ensure('stop-commands-without-arguments', 'all(len(e[1]) == 0 and len(e[2]) == 0 for e in trace[-3:])')
        c.ensure('descent-before', "calls()[:-3] in (('thread.get_height',), ('thread.get_height', 'thread.set_vel_setpoint', 'time.sleep', 'thread.set_vel_setpoint'))")
        c.ensure('descends-iff-above-or-below-ground', 'iff(len(trace) == 7, h != 0)')
        if called(c)[:4] == ('thread.get_height', SET, 'time.sleep', SET):
            c.snapshot('sp', 'trace[1][1]')
            c.snapshot('T', 'trace[2][1][0]')
            c.ensure('descent-setpoint', 'len(sp) == 4 and sp[0] == 0 and sp[1] == 0 and sp[3] == 0 and sp[2] * T == -h and len(trace[2][1]) == 1')
            c.ensure('descent-duration', 'T >= 0 and T * v == (h if h >= 0 else -h)')
            c.ensure('descent-ends-hovering', 'trace[3][1] == (0.0, 0.0, 0.0, 0.0)')
        c.ensure('on-ground-afterwards', 'self._is_flying is False and self._thread is None')
        if via != 'land':
            c.ensure('exception-not-swallowed', 'not result')
        # afterwards: landing again and any motion primitive stream nothing
        c.snapshot('n0', 'len(trace)')
        c.call((self, 'land'))
        c.ensure('second-land-sends-nothing', 'raised is None and len(trace) == n0')
        c.call((self, 'start_forward'))
        c.ensure('no-setpoints-afterwards', "raised == 'Exception' and len(trace) == n0")
    return k


for _v in ('land', 'exit', 'exit_exc'):
    _mc_land(_v)


@contract('C17', 'mc.take_off', [MCC + '.take_off', MCC + '.__enter__', MCC + '.up', MCC + '.move_distance', MCC + '._reset_position_estimator',
                                 SPT + '.__init__', SPT + '.set_vel_setpoint'],
          clause='take-off starts exactly one set-point thread for this Crazyflie and climbs: vertical velocity * duration == '
          'requested height; refused (nothing started or sent) when already flying or not connected', float_mode='R')
def mc_take_off(c):
    c.virtual_time()
    connected = c.bool('connected')
    cf = c.ext('cf', returns={'is_connected': connected})
    c.float('dh')
    self = c.new(MCC, cf, c.get('dh'))
    c.let('self', self)
    was_flying = c.choice('was_flying', [False, True])
    if was_flying:
        old = c.ext('thread')
        c.set(self, '_is_flying', True)
        c.set(self, '_thread', old)
    c.reset_trace()
    via = c.choice('via', ['take_off', 'take_off_height', '__enter__'])
    if via == 'take_off_height':
        args = [c.float('ht')] + velocity_arg(c)
    else:
        args = []
        c.let('ht', c.get('dh')), c.let('v', MC_VELOCITY)
    c.call((self, '__enter__' if via == '__enter__' else 'take_off'), *args)
    c.let('was_flying', was_flying)
    c.ensure('refused-iff-flying-or-not-connected', "iff(raised == 'Exception', was_flying or not connected)")
    c.ensure('no-exception-when-valid', "implies(not was_flying and connected and v > 0, raised is None)")
    c.ensure('declared-errors-only', "raised in (None, 'Exception') or (raised in ('ZeroDivisionError', 'ValueError') and not v > 0)")
    c.ensure('nothing-sent-to-the-commander', "len(calls('cf.commander')) == 0")
    if was_flying:
        c.ensure('refused', "calls() == () and self._is_flying is True and is_same(self._thread, thread)")
        return
    if c.get('raised') == 'Exception':
        c.ensure('refused-not-connected', "calls() == ('cf.is_connected',) and self._is_flying is False and self._thread is None")
        return
    c.snapshot('t', 'self._thread')
    c.ensure('flying-with-a-setpoint-thread', "self._is_flying is True and typename(t) == '_SetPointThread' and is_same(t._cf, cf) and t.update_period == 0.2")
    c.ensure('estimator-reset-then-thread-started-once',
             "calls()[:6] == ('cf.is_connected', 'cf.param.set_value', 'time.sleep', 'cf.param.set_value', 'time.sleep', 'thread:_SetPointThread.start') "
             "and len(sent('thread:_SetPointThread.start')) == 1 and all(is_same(e[1][0], t) for e in sent('thread:_SetPointThread.start'))")
    c.ensure('estimator-reset-values', "tuple(e[1] for e in sent('cf.param.set_value')) == (('kalman.resetEstimation', '1'), ('kalman.resetEstimation', '0'))")
    if c.get('t') is None:
        return
    c.snapshot('q', 'tuple(t._queue.queue)')
    c.snapshot('sleeps', "sent('time.sleep')[2:]")
    if c.get('raised') is None:
        c.ensure('climb-commanded-iff-height-nonzero', 'iff(ht != 0, len(q) == 2) and iff(ht == 0, len(q) == 0) and len(sleeps) == len(q) // 2')
        if via == '__enter__':
            c.ensure('enter-returns-self', 'is_same(result, self)')
        if len(c.get('q')) == 2 and len(c.get('sleeps')) == 1:
            c.snapshot('T', 'sleeps[0][1][0]')
            c.ensure('climb-setpoint', 'len(q[0]) == 4 and q[0][0] == 0 and q[0][1] == 0 and q[0][3] == 0 and q[0][2] * T == ht')
            c.ensure('climb-duration', 'T >= 0 and T * v == (ht if ht >= 0 else -ht)')
            c.ensure('then-hover', 'q[1] == (0.0, 0.0, 0.0, 0.0)')


# =========================================================================== _SetPointThread

def spt(c, clock=None):
    c.virtual_time(clock)
    cf = c.ext('cf')
    t = c.new(SPT, cf)
    c.let('t', t)
    c.reset_trace()
    return t


@contract('C17', 'thread.api', [SPT + '.__init__', SPT + '.set_vel_setpoint', SPT + '.stop', SPT + '.get_height'],
          clause='contract of the set-point thread used by the MotionCommander contracts: set_vel_setpoint queues exactly that '
          'set-point, stop queues the terminate event and joins the thread, get_height is the height of the last hover set-point',
          float_mode='R')
def thread_api(c):
    t = spt(c)
    c.ensure('initial-state', 'tuple(t._queue.queue) == () and t.get_height() == 0.0 and t.update_period == 0.2')
    sp = [c.float(n) for n in ('vx', 'vy', 'vz', 'yaw')]
    c.call((t, 'set_vel_setpoint'), *sp)
    c.ensure('set-no-exception', 'raised is None')
    c.ensure('setpoint-queued', 'tuple(t._queue.queue) == ((vx, vy, vz, yaw),)')
    c.ensure('nothing-sent-by-caller', "len(calls('cf.')) == 0 and len(calls('thread:')) == 0")
    c.call((t, 'get_height'))
    c.ensure('height-is-last-hover-height', 'raised is None and result == t._hover_setpoint[3]')
    c.call((t, 'stop'))
    c.ensure('stop-no-exception', 'raised is None')
    c.ensure('terminate-queued-last', "tuple(t._queue.queue) == ((vx, vy, vz, yaw), 'terminate')")
    c.ensure('joined-after-terminate', "calls('thread:') == ('thread:_SetPointThread.join',) and all(is_same(e[1][0], t) for e in sent('thread:_SetPointThread.join')) and len(calls('cf.')) == 0")
    # "no setpoints streamed afterwards": stop() may only return once the thread has ended, however long its current transmission takes -
    # a join with a time limit returns while a thread that is held up in send_hover_setpoint is still going to send
    c.ensure('stop-waits-for-the-thread-without-a-time-limit',
             "all(len(e[1]) == 1 and e[2].get('timeout') is None for e in sent('thread:_SetPointThread.join'))")


def _thread_run_events(n, thorough=False):
    @contract('C17', 'thread.run.events%d' % n, [SPT + '.run', SPT + '._new_setpoint', SPT + '._update_z_in_setpoint', SPT + '._current_z', SPT + '.get_height'],
              clause=CL_HOVER + ' - one hover set-point per queued velocity set-point carrying its vx, vy, yaw rate and the height '
              'base + vertical velocity * elapsed time; run() returns at the terminate event and sends nothing after it',
              float_mode='R', bounded='%d queued set-points before the terminate event (1 and 2 enumerated, 3 and 4 in the thorough tier; every '
              'length by induction: thread.run.step); further events after terminate' % n, thorough_only=thorough)
    def k(c):
        clk = c.floats('clk', 3 * n)
        t = spt(c, clk)
        ev = [[c.float('%s%d' % (a, i)) for a in ('vx', 'vy', 'vz', 'yaw')] for i in range(n)]
        for e in ev:
            c.call((t, 'set_vel_setpoint'), *e)
        c.call((t, 'stop'))
        c.call((t, 'set_vel_setpoint'), 1.0, 1.0, 1.0, 1.0)        # posted after the terminate event: must never be streamed
        c.reset_trace()
        c.call((t, 'run'))
        c.ensure('returns-at-terminate', 'raised is None and result is None')
        c.snapshot('hov', "sent('cf.commander.send_hover_setpoint')")
        c.ensure('one-hover-setpoint-per-event-none-after-terminate', "len(hov) == %d and calls('cf.') == ('cf.commander.send_hover_setpoint',) * %d" % (n, n))
        c.ensure('later-events-left-unread', 'tuple(t._queue.queue) == ((1.0, 1.0, 1.0, 1.0),)')
        # heights: z_k sent at clock reading c3 of event k; base b_k taken at reading c1, base time at reading c2
        c.let('b', 0.0), c.let('zv', 0.0), c.let('bt', 0.0)
        for i in range(n if len(c.get('hov')) == n else 0):
            c.let('i', i)
            c.snapshot('b', 'b + zv * (clk[3 * i] - bt)')
            c.snapshot('zv', 'vz%d' % i)
            c.snapshot('bt', 'clk[3 * i + 1]')
            c.snapshot('z', 'b + zv * (clk[3 * i + 2] - bt)')
            c.ensure('hover%d-velocity-and-yawrate' % i, 'len(hov[i][1]) == 4 and len(hov[i][2]) == 0 and hov[i][1][:3] == (vx%d, vy%d, yaw%d)' % (i, i, i))
            c.ensure('hover%d-height-integrates-vertical-velocity' % i, 'hov[i][1][3] == z')
            if i > 0:
                c.ensure('height-continuity%d' % i, 'implies(clk[3 * i] == clk[3 * i + 1], b == hov[i - 1][1][3] + vz%d * (clk[3 * i + 1] - clk[3 * i - 1]))' % (i - 1))
        if len(c.get('hov')) == n:
            c.ensure('reported-height', 't.get_height() == z')
    return k


_thread_run_events(1)
_thread_run_events(2)


@contract('C17', 'thread.run.ticks', [SPT + '.run', SPT + '._new_setpoint', SPT + '._update_z_in_setpoint', SPT + '._current_z'],
          clause=CL_HOVER + ' - with no new command every iteration of run() waits at most the update period (Queue.get with '
          'timeout=update_period) and then repeats the hover set-point with the height advanced by vertical velocity * elapsed time',
          float_mode='R', bounded='one velocity set-point followed by two idle periods (loop left by a scripted stub exception)')
def thread_run_ticks(c):
    clk = c.floats('clk', 5)
    c.virtual_time(clk)
    n = {'k': 0}
    stop = c.raiser('StopLoop')

    def hover(*_a):
        n['k'] += 1
        if n['k'] == 3:
            stop()
    cf = c.ext('cf', returns={'commander.send_hover_setpoint': hover})
    period = c.float('period')
    c.require('period > 0')
    t = c.new(SPT, cf, c.get('period'))
    c.let('t', t)
    # the queue is scripted: one velocity set-point, then nothing (queue.Empty after the timeout) for ever
    items = [tuple(c.float(a) for a in ('vx', 'vy', 'vz', 'yaw'))]
    empty = c.raiser('queue.Empty')

    def get(*_a):
        if items:
            return items.pop(0)
        empty()
    c.set(t, '_queue', c.ext('q', returns={'get': get}))
    c.reset_trace()
    c.call((t, 'run'))
    c.ensure('left-by-scripted-stop-only', "raised == 'StopLoop'")
    c.ensure('get-then-one-hover-setpoint-each-period', "tuple(x for x in calls() if x != 'time.time') == ('q.get', 'cf.commander.send_hover_setpoint') * 3")
    c.snapshot('hov', "sent('cf.commander.send_hover_setpoint')")
    c.snapshot('bt', 'clk[1]')
    c.ensure('hover-setpoints', 'all(len(e[1]) == 4 and len(e[2]) == 0 and e[1][:3] == (vx, vy, yaw) for e in hov)')
    if len(c.get('hov')) == 3:
        c.ensure('heights-integrate-vertical-velocity',
                 'hov[0][1][3] == vz * (clk[2] - bt) and hov[1][1][3] == vz * (clk[3] - bt) and hov[2][1][3] == vz * (clk[4] - bt)')
    c.ensure('waits-at-most-update-period', "all(e[2]['block'] is True and e[2]['timeout'] == period and len(e[1]) == 0 for e in sent('q.get'))")


# =========================================================================== MotionCommander + real _SetPointThread

@contract('C17', 'mc.session', [MCC + '.__enter__', MCC + '.take_off', MCC + '.__exit__', MCC + '.land', SPT + '.stop', SPT + '.set_vel_setpoint',
                                SPT + '.get_height'] + [MCC + '.' + p for p in ('forward', 'start_up', 'turn_left', 'stop')],
          clause=CL_END + ' [MotionCommander with its real set-point thread object: __enter__, a bounded program, __exit__]', float_mode='R',
          bounded='programs of 0..2 primitives drawn from forward/start_up/turn_left/stop, optionally ending in an exception')
def mc_session(c):
    c.virtual_time()
    cf = c.ext('cf', returns={'is_connected': True})
    self = c.new(MCC, cf)
    c.let('self', self)
    c.call((self, '__enter__'))
    c.require('raised is None')
    t = c.getfield(self, '_thread')
    c.let('t', t)
    c.float('h')
    c.set(t, '_hover_setpoint', [0.0, 0.0, 0.0, c.get('h')])      # the thread has streamed up to some height
    n = c.choice('n', [0, 1, 2])
    failed = False
    for i in range(n):
        p = c.choice('p%d' % i, ['forward', 'start_up', 'turn_left', 'stop'])
        a = [c.float('a%d' % i)] if p != 'stop' else []
        c.call((self, p), *a)
        if c.get('raised') is not None:       # the with statement leaves the body at the first exception
            failed = True
            break
    c.snapshot('n0', 'len(tuple(t._queue.queue))')
    c.reset_trace()
    c.call((self, '__exit__'), *([c.ext('exc_type'), c.ext('exc_value'), c.ext('exc_tb')] if failed else [None, None, None]))
    c.ensure('no-exception', 'raised is None')
    c.ensure('thread-terminated-and-joined-then-stop-then-priority-release',
             "tuple(x for x in calls() if x != 'time.sleep') == ('thread:_SetPointThread.join', 'cf.commander.send_stop_setpoint', 'cf.commander.send_notify_setpoint_stop')")
    c.ensure('joined-own-thread', "all(is_same(e[1][0], t) for e in sent('thread:_SetPointThread.join'))")
    c.ensure('terminate-is-the-last-event', "tuple(t._queue.queue)[-1:] == ('terminate',) and all(e != 'terminate' for e in tuple(t._queue.queue)[:-1])")
    c.ensure('descent-queued-iff-height-nonzero', 'len(tuple(t._queue.queue)) == n0 + (3 if h != 0 else 1)')
    c.ensure('on-ground-afterwards', 'self._is_flying is False and self._thread is None')


@contract('C17', 'mc.flight', [MCC + '.__enter__', MCC + '.take_off', MCC + '.__exit__', MCC + '.land', MCC + '.forward', MCC + '.start_up',
                               SPT + '.run', SPT + '.stop', SPT + '.set_vel_setpoint', SPT + '.get_height', SPT + '._new_setpoint'],
          clause=CL_END + ' [one virtual-time interleaving with the real thread body: the set-point thread runs (a) after take-off until it '
          'has read the two take-off set-points and (b) otherwise only when the commander blocks in join(); every hover set-point '
          'precedes the stop command]', float_mode='R',
          bounded='one interleaving; programs of 0..1 primitives drawn from forward/start_up, optionally ending in an exception')
def mc_flight(c):
    c.virtual_time()
    n = {'k': 0}
    stop_loop = c.raiser('StopLoop')

    def hover(*_a):
        n['k'] += 1
        if n['k'] == 2:
            stop_loop()         # scheduler: the thread is descheduled right after streaming the second set-point
    cf = c.ext('cf', returns={'is_connected': True, 'commander.send_hover_setpoint': hover})
    self = c.new(MCC, cf)
    c.let('self', self)
    c.call((self, '__enter__'))
    c.require('raised is None')
    t = c.getfield(self, '_thread')
    c.let('t', t)
    # Thread.join modelled by its contract "returns after run() has returned": run the real thread body to completion there
    c.set(t, 'join', c.ext('join', returns={'()': lambda *_a: c.invoke((t, 'run'))}))
    c.call((t, 'run'))
    c.require("raised == 'StopLoop'")
    c.snapshot('h', 't.get_height()')
    failed = False
    if c.choice('n', [0, 1]):
        p = c.choice('p', ['forward', 'start_up'])
        c.call((self, p), c.float('a'))
        failed = c.get('raised') is not None
    c.let('queued', len(tuple(c.getfield(c.getfield(t, '_queue'), 'queue'))))
    c.reset_trace()
    c.call((self, '__exit__'), *([c.ext('exc_type'), c.ext('exc_value'), c.ext('exc_tb')] if failed else [None, None, None]))
    c.ensure('no-exception', 'raised is None')
    c.snapshot('cmd', "calls('cf.commander')")
    c.ensure('every-hover-setpoint-precedes-stop-then-priority-release-last',
             "cmd[-2:] == ('cf.commander.send_stop_setpoint', 'cf.commander.send_notify_setpoint_stop') and "
             "all(x == 'cf.commander.send_hover_setpoint' for x in cmd[:-2])")
    c.ensure('queued-setpoints-all-streamed-before-stop', 'len(cmd) - 2 == queued + (2 if h != 0 else 0)')
    c.ensure('thread-body-finished-in-join', "len(sent('join')) == 1 and tuple(t._queue.queue) == ()")
    c.ensure('on-ground-afterwards', 'self._is_flying is False and self._thread is None')


# =========================================================================== PositionHlCommander

def phlc(c, flying=True, clock=None):
    """a PositionHlCommander from its real constructor at an arbitrary position with arbitrary defaults"""
    c.virtual_time(clock)
    connected = c.bool('connected') if not flying else True
    cf = c.ext('cf', returns={'is_connected': connected})
    for n in ('x0', 'y0', 'z0', 'dv', 'dh', 'lh'):
        c.float(n)
    self = c.new(PHC, cf, c.get('x0'), c.get('y0'), c.get('z0'), c.get('dv'), c.get('dh'), None, c.get('lh'))
    c.let('self', self)
    if flying:
        c.set(self, '_is_flying', True)
    c.reset_trace()
    return self


def opt_arg(c, name, default_name):
    """optional argument: explicit symbolic value, or left out / None (then the commander's default applies)"""
    how = c.choice(name + '_how', ['given', 'none'])
    if how == 'given':
        c.float(name + '_arg')
        c.snapshot(name, name + '_arg')
        return c.get(name + '_arg')
    c.snapshot(name, default_name)
    return None


GOTO = 'cf.high_level_commander.go_to'


def check_go_to(c, target):
    """shared post-conditions of everything that moves the PositionHlCommander: target = (tx, ty, tz) expressions"""
    c.snapshot('tgt', target)
    c.snapshot('dist2', '(tgt[0] - x0) * (tgt[0] - x0) + (tgt[1] - y0) * (tgt[1] - y0) + (tgt[2] - z0) * (tgt[2] - z0)')
    c.ensure('no-exception-when-valid', 'implies(v > 0, raised is None)')
    # induction step of "whatever sequence of primitives came before": moving (or failing to) never ends the flight, so that land() /
    # __exit__ (phlc.land: from ANY flying state) still send land + stop
    c.ensure('still-flying', 'self._is_flying is True')
    if c.get('raised') is None:
        c.ensure('position-is-start-plus-displacement', 'self.get_position() == tgt')
        c.ensure('go-to-then-sleep-or-nothing', "calls() in ((), ('%s', 'time.sleep'))" % GOTO)
        c.ensure('go-to-iff-distance-positive', 'iff(len(trace) == 2, dist2 > 0)')
        if called(c) == (GOTO, 'time.sleep'):
            c.snapshot('g', 'trace[0][1]')
            c.ensure('go-to-targets-position-absolute-yaw0', 'len(g) == 5 and g[:3] == tgt and g[3] == 0 and len(trace[0][2]) == 0')
            c.ensure('duration-is-distance-over-velocity', 'g[4] >= 0 and (g[4] * v) * (g[4] * v) == dist2')
            c.ensure('sleeps-for-the-duration', 'trace[1][1] == (g[4],)')
    else:
        c.ensure('position-unchanged-when-raising', 'self.get_position() == (x0, y0, z0)')
        c.ensure('declared-errors-only', "raised in ('ZeroDivisionError', 'ValueError')")


@contract('C17', 'phlc.go_to', [PHC + '.go_to', PHC + '.get_position', PHC + '._height', PHC + '._velocity'], clause=CL_POS, float_mode='R')
def phlc_go_to(c):
    self = phlc(c)
    c.float('x'), c.float('y')
    if c.choice('z_positional', [True, False]):
        z = opt_arg(c, 'z', 'dh')
        vel = opt_arg(c, 'v', 'dv')
        c.call((self, 'go_to'), c.get('x'), c.get('y'), z, vel)
    else:
        c.snapshot('z', 'dh'), c.snapshot('v', 'dv')
        c.call((self, 'go_to'), c.get('x'), c.get('y'))
    check_go_to(c, '(x, y, z)')
    reported_position(c)


def reported_position(c):
    """get_position() itself (the specifications above use it as an observer): the tracked position, nothing sent"""
    moved = c.get('raised') is None
    c.reset_trace()
    c.call((c.get('self'), 'get_position'))
    c.ensure('get-position-reports-the-tracked-position', 'raised is None and calls() == () and result == (%s)' % ('tgt' if moved else '(x0, y0, z0)'))


def _phlc_move(prim):
    @contract('C17', 'phlc.' + prim, [PHC + '.' + prim, PHC + '.move_distance', PHC + '.go_to', PHC + '.get_position'], clause=CL_POS, float_mode='R')
    def k(c):
        self = phlc(c)
        if prim == 'move_distance':
            args = [c.float('dx'), c.float('dy'), c.float('dz')]
        else:
            d = c.float('d')
            sx, sy, sz = DIRS[prim]
            c.let('sx', sx), c.let('sy', sy), c.let('sz', sz)
            c.snapshot('dx', 'sx * d'), c.snapshot('dy', 'sy * d'), c.snapshot('dz', 'sz * d')
            args = [d]
        if c.choice('v_positional', [True, False]):
            args.append(opt_arg(c, 'v', 'dv'))
        else:
            c.snapshot('v', 'dv')
        c.call((self, prim), *args)
        check_go_to(c, '(x0 + dx, y0 + dy, z0 + dz)')
        reported_position(c)
    return k


for _p in list(DIRS) + ['move_distance']:
    _phlc_move(_p)


@contract('C17', 'phlc.defaults', [PHC + '.set_default_velocity', PHC + '.set_default_height', PHC + '.set_landing_height', PHC + '.go_to', PHC + '.land'],
          clause=CL_POS + ' - default changes: the new defaults apply to the following commands and change nothing else', float_mode='R')
def phlc_defaults(c):
    self = phlc(c)
    for n in ('ndv', 'ndh', 'nlh'):
        c.float(n)
    which = c.choice('which', ['set_default_velocity', 'set_default_height', 'set_landing_height'])
    c.call((self, which), c.get({'set_default_velocity': 'ndv', 'set_default_height': 'ndh', 'set_landing_height': 'nlh'}[which]))
    c.ensure('setter-sends-nothing', 'raised is None and calls() == () and self.get_position() == (x0, y0, z0) and self._is_flying is True')
    c.snapshot('v', 'ndv' if which == 'set_default_velocity' else 'dv')
    c.snapshot('z', 'ndh' if which == 'set_default_height' else 'dh')
    c.snapshot('l', 'nlh' if which == 'set_landing_height' else 'lh')
    c.float('x'), c.float('y')
    c.call((self, 'go_to'), c.get('x'), c.get('y'))
    check_go_to(c, '(x, y, z)')
    if c.get('raised') is None:
        c.reset_trace()
        c.require('z >= l and v > 0')
        c.call((self, 'land'))
        c.ensure('lands-on-new-landing-height', "raised is None and calls('cf.') == ('cf.high_level_commander.land', 'cf.high_level_commander.stop') "
                 "and all(e[1][:1] == (l,) for e in sent('cf.high_level_commander.land')) and self.get_position() == (x, y, l)")
        c.ensure('landing-duration-uses-the-current-default-velocity', "all(len(e[1]) == 2 and e[1][1] * v == z - l for e in sent('cf.high_level_commander.land'))")


@contract('C17', 'phlc.take_off', [PHC + '.take_off', PHC + '.__enter__', PHC + '.__init__', PHC + '._height', PHC + '._velocity'],
          clause='take-off climbs to the requested (or default) height with duration height/velocity and the reported position '
          'becomes (x, y, height); refused with nothing sent when already flying or not connected', float_mode='R')
def phlc_take_off(c):
    clk = c.floats('clk', 2)
    self = phlc(c, flying=False, clock=clk)
    was_flying = c.choice('was_flying', [False, True])
    if was_flying:
        c.set(self, '_is_flying', True)
    c.let('was_flying', was_flying)
    via = c.choice('via', ['take_off', '__enter__'])
    if via == 'take_off':
        ht = opt_arg(c, 'ht', 'dh')
        vel = opt_arg(c, 'v', 'dv')
        c.call((self, 'take_off'), ht, vel)
    else:
        c.snapshot('ht', 'dh'), c.snapshot('v', 'dv')
        c.call((self, '__enter__'))
    HL = "calls('cf.high_level_commander')"
    c.ensure('refused-iff-flying-or-not-connected', "iff(raised == 'Exception', was_flying or not connected)")
    c.ensure('no-exception-when-valid', 'implies(not was_flying and connected and v > 0 and ht >= 0, raised is None)')
    if c.get('raised') == 'Exception':
        c.ensure('nothing-sent-when-refused', HL + " == () and len(sent('time.sleep')) == 0 and self.get_position() == (x0, y0, z0) and self._is_flying is was_flying")
    elif c.get('raised') is None:
        c.ensure('one-takeoff-command', HL + " == ('cf.high_level_commander.takeoff',) and calls('cf.') == ('cf.is_connected', 'cf.high_level_commander.takeoff')")
        if called(c)[-2:] == ('cf.high_level_commander.takeoff', 'time.sleep'):
            c.snapshot('g', 'trace[-2]')
            c.ensure('takeoff-height-and-duration', 'len(g[1]) == 2 and len(g[2]) == 0 and g[1][0] == ht and g[1][1] * v == ht and g[1][1] >= 0')
            c.ensure('sleeps-for-the-duration', 'trace[-1][1] == (g[1][1],)')
        c.ensure('takeoff-then-sleep-last', "calls()[-2:] == ('cf.high_level_commander.takeoff', 'time.sleep')")
        c.ensure('holds-back-one-second-after-construction', "iff(len(sent('time.sleep')) == 2, clk[0] + 1.0 - clk[1] > 0) and len(sent('time.sleep')) in (1, 2) "
                 "and implies(len(sent('time.sleep')) == 2, sent('time.sleep')[0][1] == (clk[0] + 1.0 - clk[1],))")
        c.ensure('position-and-state', 'self.get_position() == (x0, y0, ht) and self._is_flying is True')
        if via == '__enter__':
            c.ensure('enter-returns-self', 'is_same(result, self)')
    else:
        c.ensure('declared-errors-only', "raised in ('ZeroDivisionError', 'ValueError')")


@contract('C17', 'phlc.land', [PHC + '.land', PHC + '.__exit__', PHC + '._landing_height', PHC + '._velocity', PHC + '.get_position'],
          clause=CL_END + ' [PositionHlCommander, from any flying state; land, __exit__ without and with a pending exception]', float_mode='R')
def phlc_land(c):
    self = phlc(c)
    via = c.choice('via', ['land', 'land_args', 'exit', 'exit_exc'])
    if via == 'land_args':
        args = [opt_arg(c, 'v', 'dv'), opt_arg(c, 'l', 'lh')]
    else:
        c.snapshot('v', 'dv'), c.snapshot('l', 'lh')
        args = {'land': [], 'exit': [None, None, None]}.get(via) if via != 'exit_exc' else [c.ext('exc_type'), c.ext('exc_value'), c.ext('exc_tb')]
    c.require('v > 0')
    c.call((self, 'land' if via.startswith('land') else '__exit__'), *args)
    # KNOWN FINDING (kept visible): fails for z0 < l - negative duration, time.sleep raises ValueError before hl.stop()
    c.ensure('no-exception', 'raised is None')
    c.ensure('no-exception-at-or-above-landing-height', 'implies(z0 >= l, raised is None)')
    if c.get('raised') is None:
        c.ensure('land-sleep-stop-and-nothing-else', "calls() == ('cf.high_level_commander.land', 'time.sleep', 'cf.high_level_commander.stop')")
        if called(c) == ('cf.high_level_commander.land', 'time.sleep', 'cf.high_level_commander.stop'):
            c.snapshot('g', 'trace[0][1]')
            c.ensure('land-height-and-duration', 'len(g) == 2 and len(trace[0][2]) == 0 and g[0] == l and g[1] * v == z0 - l')
            c.ensure('sleeps-for-the-duration', 'trace[1][1] == (g[1],)')
            c.ensure('stop-command-plain', 'len(trace[2][1]) == 0 and len(trace[2][2]) == 0')
        c.ensure('on-ground-at-landing-height', 'self._is_flying is False and self.get_position() == (x0, y0, l)')
        if via.startswith('exit'):
            c.ensure('exception-not-swallowed', 'not result')
        c.snapshot('n0', 'len(trace)')
        c.call((self, 'land'))
        c.ensure('second-land-sends-nothing', 'raised is None and len(trace) == n0')


PROG = {'forward': (1, 0, 0), 'left': (0, 1, 0), 'down': (0, 0, -1)}


@contract('C17', 'phlc.session', [PHC + '.__enter__', PHC + '.take_off', PHC + '.__exit__', PHC + '.land', PHC + '.go_to', PHC + '.move_distance',
                                  PHC + '.get_position'] + [PHC + '.' + p for p in PROG],
          clause=CL_POS + '; ' + CL_END + ' [PositionHlCommander: __enter__, a bounded program, __exit__]', float_mode='R',
          bounded='programs of 0..2 primitives drawn from forward/left/down/go_to with the default velocity')
def phlc_session(c):
    self = phlc(c, flying=False)
    c.require('connected and dv > 0 and dh >= 0')
    c.call((self, '__enter__'))
    c.require('raised is None')
    n = c.choice('n', [0, 1, 2])
    c.snapshot('px', 'x0'), c.snapshot('py', 'y0'), c.snapshot('pz', 'dh')
    for i in range(n):
        p = c.choice('p%d' % i, sorted(PROG) + ['go_to'])
        if p == 'go_to':
            a = [c.float('gx%d' % i), c.float('gy%d' % i), c.float('gz%d' % i)]
            c.snapshot('px', 'gx%d' % i), c.snapshot('py', 'gy%d' % i), c.snapshot('pz', 'gz%d' % i)
        else:
            a = [c.float('a%d' % i)]
            sx, sy, sz = PROG[p]
            c.let('s', (sx, sy, sz)), c.let('i', i)
            c.snapshot('px', 'px + s[0] * a%d' % i), c.snapshot('py', 'py + s[1] * a%d' % i), c.snapshot('pz', 'pz + s[2] * a%d' % i)
        c.call((self, p), *a)
        c.ensure('step%d-no-exception' % i, 'raised is None')
        c.ensure('step%d-position-is-start-plus-sum-of-displacements' % i, 'self.get_position() == (px, py, pz) and self._is_flying is True')
        c.ensure('step%d-last-go-to-targets-reported-position' % i, "implies(len(sent('%s')) > 0, sent('%s')[-1][1][:3] == (px, py, pz))" % (GOTO, GOTO))
    c.require('pz >= lh')
    c.reset_trace()
    c.call((self, '__exit__'), None, None, None)
    c.ensure('no-exception', 'raised is None')
    c.ensure('ends-with-land-sleep-stop', "calls() == ('cf.high_level_commander.land', 'time.sleep', 'cf.high_level_commander.stop')")
    if called(c)[:2] == ('cf.high_level_commander.land', 'time.sleep'):
        c.ensure('landing-from-tracked-height', 'len(trace[0][1]) == 2 and trace[0][1][0] == lh and trace[0][1][1] * dv == pz - lh and trace[1][1] == (trace[0][1][1],)')
    c.ensure('final-position', 'self.get_position() == (px, py, lh) and self._is_flying is False')


@contract('C17', 'phlc.take_off.interrupted', [PHC + '.take_off', PHC + '.land', PHC + '.__exit__'],
          clause=CL_END + ' [PositionHlCommander: an exception (e.g. KeyboardInterrupt) that leaves take_off() after the take-off command was '
                          'sent; the land() of the application\'s finally block must still send land and stop]', float_mode='R',
          bounded='the exception comes out of the climb wait of take_off(); default landing velocity and height')
def phlc_take_off_interrupted(c):
    self = phlc(c, flying=False)
    c.require('connected and dv > 0 and dh >= 0 and dh >= lh')
    boom = c.raiser('KeyboardInterrupt')
    state = {'armed': False}

    def sleep(_i, args, _k):
        if state['armed']:
            state['armed'] = False
            return boom()
        return None

    def takeoff(_i, args, _k):
        state['armed'] = True           # the next wait (the climb) is interrupted
        return None
    c.set(c.getfield(self, '_hl_commander'), 'takeoff', c.ext('cf.high_level_commander.takeoff', returns={'()': takeoff}))
    c.patch(PHL + ':time', c.ext('time', returns={'sleep': sleep, 'time': 2000.0}))
    c.call((self, 'take_off'))
    c.require("raised == 'KeyboardInterrupt' and len(sent('cf.high_level_commander.takeoff')) == 1")
    c.reset_trace()
    c.call((self, 'land'))
    c.ensure('land-returns', 'raised is None')
    c.ensure('land-and-stop-sent', "calls('cf.high_level_commander') == ('cf.high_level_commander.land', 'cf.high_level_commander.stop')")
    c.ensure('on-ground-afterwards', 'self._is_flying is False')


CMDR = 'cflib.crazyflie.commander:Commander'


@contract('C17', 'thread.run.on-the-wire', [SPT + '.run', SPT + '._new_setpoint', CMDR + '.send_hover_setpoint', CMDR + '.set_client_xmode'],
          clause=CL_HOVER + ' - and the streamed hover set-point reaches the link with the commanded velocities in the requested direction: through '
                            'the real Commander the packet carries vx, vy, yaw rate and height unchanged, whatever client X-mode the application '
                            'selected for manual attitude set-points',
          bounded='one queued set-point; clock readings all equal (the height arithmetic is the subject of thread.run.events*)')
def thread_on_the_wire(c):
    c.virtual_time([0.0, 0.0, 0.0])
    ver = c.int('ver', -1, 255)
    cf = c.ext('cf', returns={'platform.get_protocol_version': ver})
    cmd = c.new(CMDR, cf)
    c.call((cmd, 'set_client_xmode'), c.bool('x_mode'))
    c.set(cf, 'commander', cmd)
    t = c.new(SPT, cf)
    c.let('t', t)
    for a in ('vx', 'vy', 'yaw'):
        c.float(a)
    c.require('-1e30 < vx < 1e30 and -1e30 < vy < 1e30 and -1e30 < yaw < 1e30')
    c.call((t, 'set_vel_setpoint'), c.get('vx'), c.get('vy'), 0.0, c.get('yaw'))
    c.call((t, 'stop'))
    c.reset_trace()
    c.call((t, 'run'))
    c.ensure('returns-at-terminate', 'raised is None')
    c.ensure('one-packet', "len(sent('cf.send_packet')) == 1")
    c.snapshot('pk', "sent('cf.send_packet')[0][1][0]")
    c.ensure('generic-setpoint-port', 'pk.port == 7 and pk.channel == 0')
    c.ensure('velocities-in-the-requested-direction',
             "bytes(pk.data) == (pack('<Bffff', 5, vx, vy, -yaw, 0.0) if ver <= 8 else pack('<Bffff', 10, vx, vy, yaw, 0.0))")


# =========================================================================== extension round: wire level, histories, schedules
#
# What the contracts below add (see also the end of the module docstring):
#  * phlc.on-the-wire / mc.on-the-wire: the commanders run against the REAL HighLevelCommander / Commander objects, so that
#    "targets that position", "the stop command" and "the requested direction" are statements about the packets that leave.
#  * *.second-flight, construct.from-sync: histories on one object (land, take off again) and the SyncCrazyflie constructor path.
#  * thread.run.step: one iteration of the set-point loop from ANY reachable thread state (induction step, unbounded).
#  * mc.flight.timed*: virtual-time co-simulation of the commanding thread with the real set-point thread body (class CoSim).

HLCM = 'cflib.crazyflie.high_level_commander:HighLevelCommander'
SCF = 'cflib.crazyflie.syncCrazyflie:SyncCrazyflie'
UPDATE_PERIOD = 0.2     # documented update period of the hover set-points (s)


@contract('C17', 'phlc.on-the-wire', [PHC + '.take_off', PHC + '.__enter__', PHC + '.go_to', PHC + '.move_distance', PHC + '.land', PHC + '.__exit__',
                                      HLCM + '.takeoff', HLCM + '.go_to', HLCM + '.land', HLCM + '.stop', HLCM + '._send_packet'],
          clause=CL_POS + '; ' + CL_END + ' [PositionHlCommander through the REAL HighLevelCommander: the take-off, go-to, land and stop packets that '
          'reach the link - every go-to is an ABSOLUTE go-to (not relative, polynomial) to the tracked position for all groups with yaw 0 and the '
          'slept duration; the context ends with the land packet followed by the stop packet]', float_mode='R')
def phlc_on_the_wire(c):
    c.virtual_time([0.0, 5.0])          # constructed at 0.0, take-off at 5.0: no hold-back wait
    legacy = c.choice('legacy_go_to', [False, True])
    ver = c.int('ver', 0, 255)
    c.require('ver < 8' if legacy else 'ver >= 8')
    cf = c.ext('cf', returns={'is_connected': True, 'platform.get_protocol_version': ver})
    c.set(cf, 'high_level_commander', c.new(HLCM, cf))
    for n in ('x0', 'y0', 'dv', 'dh', 'lh'):
        c.float(n)
    c.require('dv > 0 and dh > 0 and dh >= lh')
    self = c.new(PHC, cf, c.get('x0'), c.get('y0'), 0.0, c.get('dv'), c.get('dh'), None, c.get('lh'))
    c.let('self', self)
    c.reset_trace()
    PK = "tuple(e[1][0] for e in sent('cf.send_packet'))"
    c.call((self, '__enter__'))
    c.ensure('take-off-no-exception', 'raised is None')
    c.snapshot('pk', PK)
    c.snapshot('sl', "sent('time.sleep')")
    c.ensure('one-take-off-packet-then-wait', "len(pk) == 1 and len(sl) == 1 and calls()[-2:] == ('cf.send_packet', 'time.sleep')")
    if len(c.get('pk')) == 1 and len(c.get('sl')) == 1:
        c.snapshot('T', 'sl[0][1][0]')
        c.snapshot('d', 'bytes(pk[0].data)')       # '<BBff?f': command, group mask, height, yaw, use-current-yaw, duration (yaw is not C17's)
        c.ensure('take-off-packet', "pk[0].port == 8 and pk[0].channel == 0 and len(d) == 15 and d[:6] == pack('<BBf', 7, 0, dh) and d[11:] == pack('<f', T) and T * dv == dh")
    # one move: absolute target or displacement, explicit or default velocity
    prim = c.choice('prim', ['go_to', 'move_distance'])
    a = [c.float('a0'), c.float('a1'), c.float('a2')]
    if c.choice('v_given', [True, False]):
        a.append(c.float('v'))
        c.require('v > 0')
    else:
        c.snapshot('v', 'dv')
    c.snapshot('tgt', '(a0, a1, a2)' if prim == 'go_to' else '(x0 + a0, y0 + a1, dh + a2)')
    c.snapshot('dist2', '(tgt[0] - x0) * (tgt[0] - x0) + (tgt[1] - y0) * (tgt[1] - y0) + (tgt[2] - dh) * (tgt[2] - dh)')
    c.reset_trace()
    c.call((self, prim), *a)
    c.ensure('move-no-exception', 'raised is None')
    c.snapshot('pk', PK)
    c.snapshot('sl', "sent('time.sleep')")
    c.ensure('one-go-to-packet-iff-displacement-nonzero', 'len(pk) == (1 if dist2 > 0 else 0) and len(sl) == len(pk)')
    if len(c.get('pk')) == 1 and len(c.get('sl')) == 1:
        c.snapshot('T', 'sl[0][1][0]')
        c.snapshot('d', 'bytes(pk[0].data)')
        # '<BBBfffff' (protocol < 8) / '<BBBBfffff': command, group mask, relative, [linear,] x, y, z, yaw, duration
        c.let('o', 3 if legacy else 4)
        c.ensure('go-to-packet-is-absolute-to-the-tracked-position',
                 "pk[0].port == 8 and pk[0].channel == 0 and len(d) == o + 20 and d[:3] == pack('<BB?', %d, 0, False) and "
                 "d[o:o + 12] == pack('<fff', tgt[0], tgt[1], tgt[2]) and d[o + 12:] == pack('<ff', 0.0, T)" % (4 if legacy else 12))
        c.ensure('go-to-duration-is-distance-over-velocity', 'T >= 0 and (T * v) * (T * v) == dist2')
    c.call((self, 'get_position'))
    c.ensure('reported-position-is-the-go-to-target', 'raised is None and result == tgt')
    c.require('tgt[2] >= lh')
    failed = c.choice('exception_in_body', [False, True])
    c.reset_trace()
    c.call((self, '__exit__'), *([c.ext('exc_type'), c.ext('exc_value'), c.ext('exc_tb')] if failed else [None, None, None]))
    c.ensure('exit-no-exception', 'raised is None and not result')
    c.snapshot('pk', PK)
    c.snapshot('sl', "sent('time.sleep')")
    c.ensure('land-packet-wait-stop-packet', "len(pk) == 2 and len(sl) == 1 and calls() == ('cf.send_packet', 'time.sleep', 'cf.send_packet')")
    if len(c.get('pk')) == 2 and len(c.get('sl')) == 1:
        c.snapshot('T', 'sl[0][1][0]')
        c.snapshot('d', 'bytes(pk[0].data)')
        c.ensure('land-packet', "pk[0].port == 8 and pk[0].channel == 0 and len(d) == 15 and d[:6] == pack('<BBf', 8, 0, lh) and d[11:] == pack('<f', T) and T * dv == tgt[2] - lh")
        c.ensure('ends-with-the-stop-packet', "pk[1].port == 8 and pk[1].channel == 0 and bytes(pk[1].data) == pack('<BB', 3, 0)")


class CoSim:
    """Virtual-time co-simulation of the commanding thread with the REAL body of the set-point thread (explicit schedules
    through effectful stubs; nothing of the MotionCommander or of _SetPointThread.run is replaced).

    * the module `time` of motion_commander and the `Queue` of the set-point thread are stubs that implement virtual time:
      `time.time()` is the virtual clock `now`; `time.sleep(d)` (the commanding thread blocks) runs the real `run()` of the
      set-point thread until that thread blocks beyond the end of the sleep, then sets now += d; `Queue.get(timeout=p)` returns a
      queued item at once, otherwise the caller wakes up with queue.Empty at (time of the call) + p - or, if the commanding
      thread wakes up first, the set-point thread is descheduled inside get() (pseudo exception StopLoop leaves run(); all state
      of the loop is in the thread object, so calling run() again continues it; the deadline of the interrupted get() is kept);
      `Queue.put` appends (and a blocked get() then returns the item at the same virtual instant: the "punctual" schedule,
      in which neither thread is ever delayed by the scheduler);
    * `Thread.join` of the set-point thread runs run() until it returns (contract of join); a get() on an empty queue then is
      the pseudo exception Deadlock;
    * a hover set-point streamed by the thread (stub `cf.commander.send_hover_setpoint`, or - wire mode - the hover packet the
      REAL Commander hands to `cf.send_packet`) is checked when it is sent, against ghost state kept by the stubs:
      gH, gT, gv = the integral of the commanded vertical velocity up to gT, and the vertical velocity commanded since then.

    The number of periodic wake-ups per sleep is not chosen by the contract: the exploration forks on `deadline <= end of sleep`;
    symbolic paths with more than `max_ticks` wake-ups in one sleep are cut (stated as bound); native runs are not cut."""

    def __init__(self, c, max_ticks, wire=False, concrete=False):
        self.c, self.K, self.wire, self.concrete = c, max_ticks, wire, concrete
        self.items, self.popped, self.cmd_packets = [], [], []
        self.cur = (0.0, 0.0, 0.0, 0.0)
        self.waiting = self.draining = self.in_thread = self.finished = False
        self.ticks = self.n_hover = self.n_threads = 0
        self.t = self.mc = self.crashed = None
        self.stop_loop, self.empty = c.raiser('StopLoop'), c.raiser('queue.Empty')
        self.deadlock, self.negative = c.raiser('Deadlock'), c.raiser('ValueError', 'sleep length must be non-negative')
        if concrete:
            c.let('t_start', 0.0)
        else:
            c.float('t_start')              # the virtual clock starts at an arbitrary time (and all clock arithmetic is symbolic, exact)
        c.snapshot('now', 't_start')
        for n in ('gH', 'gT', 'gv', 'last'):
            c.let(n, 0.0)
        for n in ('heights_ok', 'velocities_ok', 'gaps_ok', 'timeouts_ok', 'wire_ok'):
            c.let(n, True)
        c.let('PERIOD', UPDATE_PERIOD)
        c.virtual_time()
        self.q = c.ext('q', returns={'get': self.q_get, 'put': self.q_put})
        c.patch(MC + ':Queue', c.ext('Queue', returns={'()': self.new_queue}))
        c.patch(MC + ':time', c.ext('time', returns={'sleep': self.sleep, 'time': lambda *_a: c.get('now')}))

    # ---- the Crazyflie
    def crazyflie(self):
        c = self.c
        if not self.wire:
            return c.ext('cf', returns={'is_connected': True, 'commander.send_hover_setpoint': self.hover})
        self.legacy = c.choice('legacy_hover', [False, True])
        if self.concrete:
            ver = c.let('ver', 8 if self.legacy else 9)
        else:
            ver = c.int('ver', -1, 255)
            c.require('ver <= 8' if self.legacy else 'ver > 8')
        cf = c.ext('cf', returns={'is_connected': True, 'platform.get_protocol_version': ver, 'send_packet': self.packet})
        cmd = c.new(CMDR, cf)
        # whatever the application selected for manual attitude set-points
        c.call((cmd, 'set_client_xmode'), c.choice('x_mode', [False, True]) if self.concrete else c.bool('x_mode'))
        c.set(cf, 'commander', cmd)
        return cf

    # ---- Queue
    def new_queue(self, *_a):
        self.items, self.waiting = [], False
        return self.q

    def q_put(self, _i, args, _k):
        c = self.c
        item = args[0]
        self.items.append(item)
        if not isinstance(item, str):       # a velocity set-point is commanded now: the integral continues with its vertical velocity
            c.let('it', item)
            c.snapshot('gH', 'gH + gv * (now - gT)'), c.snapshot('gT', 'now'), c.snapshot('gv', 'it[2]')
        return None

    def q_get(self, _i, args, kw):
        c = self.c
        if self.items:
            self.waiting = False
            item = self.items.pop(0)
            if not isinstance(item, str):
                self.cur = item
                self.popped.append(item)
            return item
        if self.draining:
            return self.deadlock()          # join() waits for a thread that waits for an event nobody will post
        tmo = kw.get('timeout', args[1] if len(args) > 1 else None)
        if tmo is None:
            return self.stop_loop()         # blocks until the next put
        if not self.waiting:
            self.waiting = True
            c.let('tmo', tmo)
            c.snapshot('wake', 'now + tmo')
            c.snapshot('timeouts_ok', 'timeouts_ok and 0 < tmo <= PERIOD')
        if c.backend == 'sym' and self.ticks >= self.K:
            c.require('wake > slice_end')   # bound of the exploration: at most K periodic wake-ups in one sleep
            return self.stop_loop()
        if c.concretize('wake <= slice_end'):
            self.ticks += 1
            self.waiting = False
            c.snapshot('now', 'wake')
            return self.empty()
        return self.stop_loop()             # the commanding thread wakes up first

    # ---- time
    def sleep(self, _i, args, _k):
        c = self.c
        c.let('slp', args[0])
        if c.concretize('slp < 0'):
            return self.negative()
        c.snapshot('slice_end', 'now + slp')
        self.run_thread()
        c.snapshot('now', 'slice_end')
        return None

    def pump(self):
        """the commanding thread yields without letting time pass: the set-point thread handles what is queued"""
        self.c.snapshot('slice_end', 'now')
        self.run_thread()

    def run_thread(self):
        c = self.c
        t = c.getfield(self.mc, '_thread') if self.mc is not None else None
        if t is None:
            return
        if t is not self.t:                 # a new set-point thread (started in the same virtual instant)
            self.t, self.finished = t, False
            self.n_threads += 1
            self.cur = (0.0, 0.0, 0.0, 0.0)
            c.set(t, 'join', c.ext('join', returns={'()': self.join}))
            c.let('gH', 0.0), c.let('gv', 0.0), c.snapshot('gT', 'now'), c.snapshot('last', 'now')
            for it in self.items:           # posted between the creation of the thread and this first yield
                if not isinstance(it, str):
                    c.let('it', it)
                    c.snapshot('gv', 'it[2]')
        if self.finished or self.crashed:
            return
        self.ticks = 0
        self.in_thread = True
        r = c.invoke_catch((t, 'run'))
        self.in_thread = False
        if r is None:
            self.finished = True            # run() returned outside join(): only after a terminate event
        elif r != 'StopLoop':
            self.crashed = r                # an exception ends the thread: nothing is streamed any more

    def join(self, *_a):
        c = self.c
        if self.finished or self.crashed:
            return None
        c.snapshot('slice_end', 'now')
        self.draining = self.in_thread = True
        r = c.invoke_catch((self.t, 'run'))
        self.draining = self.in_thread = False
        if r is None:
            self.finished = True
            return None
        self.crashed = r
        return self.deadlock()

    # ---- what the set-point thread streams
    def expect(self):
        c = self.c
        c.let('ev', self.cur)
        c.snapshot('zexp', 'gH + gv * (now - gT)')
        c.snapshot('gaps_ok', 'gaps_ok and now - last <= PERIOD + 1e-9')     # 1 ns: rounding of the clock arithmetic in native runs
        c.snapshot('last', 'now')
        self.n_hover += 1

    def hover(self, _i, args, kw):
        c = self.c
        self.expect()
        c.let('hv', tuple(args))
        c.let('plain', len(args) == 4 and not kw)
        c.snapshot('velocities_ok', 'velocities_ok and plain and hv[:3] == (ev[0], ev[1], ev[3])')
        c.snapshot('heights_ok', 'heights_ok and plain and hv[3] == zexp')
        return None

    def packet(self, _i, args, _k):
        c = self.c
        if not self.in_thread:
            self.cmd_packets.append((args[0], self.n_hover))
            return None
        self.expect()
        c.let('pkt', args[0])
        c.let('kind', 5 if self.legacy else 10), c.let('ysign', -1.0 if self.legacy else 1.0)
        if self.concrete:       # machine arithmetic: the float32 values in the packet (the sign of a zero does not matter)
            c.snapshot('u', "unpack('<Bffff', bytes(pkt.data))")
            c.snapshot('wire_ok', "wire_ok and pkt.port == 7 and pkt.channel == 0 and u == (kind, f32(ev[0]), f32(ev[1]), ysign * f32(ev[3]), f32(zexp))")
            return None
        # mode R: struct.pack of a real is an uninterpreted function, so the bytes are compared; a concrete zero yaw rate may be packed with either sign
        yaws = ['ysign * ev[3]'] + (['0.0', '-0.0'] if isinstance(self.cur[3], float) and self.cur[3] == 0 else [])
        c.snapshot('wire_ok', "wire_ok and pkt.port == 7 and pkt.channel == 0 and (" +
                   ' or '.join("bytes(pkt.data) == pack('<Bffff', kind, ev[0], ev[1], %s, zexp)" % y for y in yaws) + ')')
        return None

    def verdicts(self):
        c = self.c
        c.let('crashed', self.crashed), c.let('n_hover', self.n_hover), c.let('n_threads', self.n_threads)
        c.let('events', tuple(self.popped)), c.let('unread', tuple(self.items))
        c.ensure('set-point-thread-never-ends-with-an-exception', 'crashed is None')
        c.ensure('hover-setpoints-at-least-every-update-period', 'gaps_ok and timeouts_ok')
        if self.wire:
            c.ensure('every-hover-packet-carries-the-commanded-velocities-and-the-integrated-height', 'wire_ok')
        else:
            c.ensure('every-hover-setpoint-carries-the-commanded-velocities-and-yaw-rate', 'velocities_ok')
            c.ensure('every-hover-height-is-the-integral-of-the-commanded-vertical-velocity', 'heights_ok')


def _mc_wire(PRIMS, K, thorough):
    @contract('C17', 'mc.on-the-wire' + ('.thorough.' + PRIMS[0] if thorough else ''),
              [MCC + '.__enter__', MCC + '.take_off', MCC + '.__exit__', MCC + '.land', MCC + '.move_distance', MCC + '._set_vel_setpoint']
              + [MCC + '.' + p for p in PRIMS] + [SPT + '.run', SPT + '._new_setpoint', SPT + '._update_z_in_setpoint', SPT + '.stop',
                                                  CMDR + '.send_hover_setpoint', CMDR + '.send_stop_setpoint', CMDR + '.send_notify_setpoint_stop', CMDR + '.set_client_xmode'],
              clause=CL_MOVE + '; ' + CL_END + ' [MotionCommander with its real set-point thread through the REAL Commander, punctual virtual-time '
              'schedule: every hover packet on the link carries the velocities and yaw rate the primitive commanded (unchanged by the client X-mode '
              'selected for manual attitude set-points; yaw rate negated for the legacy set-point type) and the integrated height; the last two '
              'packets are the stop set-point and the set-point priority release, after every hover packet]', float_mode='R',
              bounded='__enter__, one blocking primitive of %s, __exit__%s; at most %d periodic wake-ups of the set-point thread within one sleep of '
              'the commanding thread (0: every motion, the climb and the descent are shorter than one update period)'
              % ('/'.join(PRIMS), ' with or without an exception pending' if thorough else '', K), thorough_only=thorough)
    def k(c):
        sim = CoSim(c, K, wire=True)
        cf = sim.crazyflie()
        c.float('dh')
        c.require('dh > 0')
        self = c.new(MCC, cf, c.get('dh'))
        sim.mc = self
        c.let('self', self)
        c.call((self, '__enter__'))
        c.ensure('take-off-no-exception', 'raised is None')
        sim.pump()
        prim = c.choice('prim', PRIMS)
        c.float('a'), c.float('v')
        c.require('a > 0 and v > 0')
        c.let('PI', PI)
        if prim == 'move_distance':
            c.float('b')
            args = [c.get('a'), c.get('b'), 0.0, c.get('v')]
            c.snapshot('n2', 'a * a + b * b')
            # commanded: velocity v along (a, b, 0)
            moving = 'mv[2] == 0 and mv[3] == 0 and mv[0] * b == mv[1] * a and mv[0] > 0 and mv[0] * mv[0] + mv[1] * mv[1] == v * v'
        elif prim in DIRS:
            sx, sy, sz = DIRS[prim]
            args = [c.get('a'), c.get('v')]
            moving = 'mv == (%d * v, %d * v, %d * v, 0.0)' % (sx, sy, sz)
        elif prim.startswith('turn'):
            args = [c.get('a'), c.get('v')]
            moving = 'mv == (0.0, 0.0, 0.0, %d * v)' % (1 if prim == 'turn_left' else -1)
        else:
            args = [c.get('a'), c.get('v')]
            moving = 'mv[:3] == (v, 0.0, 0.0) and %d * mv[3] * (2 * a * PI) == 360.0 * v' % (1 if prim == 'circle_left' else -1)
        n0 = len(sim.popped)
        c.call((self, prim), *args)
        c.ensure('primitive-no-exception', 'raised is None')
        sim.pump()
        c.let('mine', tuple(sim.popped[n0:]))
        c.ensure('commands-the-motion-then-hover', 'len(mine) == 2 and mine[1] == (0.0, 0.0, 0.0, 0.0)')
        if len(c.get('mine')) == 2:
            c.snapshot('mv', 'mine[0]')
            c.ensure('streamed-velocity-is-the-requested-one', moving)
        failed = c.choice('exception_in_body', [False, True]) if thorough else False
        c.call((self, '__exit__'), *([c.ext('exc_type'), c.ext('exc_value'), c.ext('exc_tb')] if failed else [None, None, None]))
        c.ensure('exit-no-exception', 'raised is None and not result')
        sim.verdicts()
        c.ensure('all-events-streamed', "unread == () and n_hover >= len(events)")
        c.let('tail', tuple(p for p, _n in sim.cmd_packets))
        c.let('after', tuple(n for _p, n in sim.cmd_packets))
        c.ensure('stop-setpoint-then-priority-release-are-the-last-packets',
                 "len(tail) == 2 and tail[0].port == 7 and tail[0].channel == 0 and bytes(tail[0].data) == pack('<B', 0) and "
                 "tail[1].port == 7 and tail[1].channel == 1 and bytes(tail[1].data)[:1] == pack('<B', 0) and after == (n_hover, n_hover)")
        c.ensure('on-ground-afterwards', 'self._is_flying is False')
    return k


_mc_wire(['forward', 'left', 'move_distance', 'turn_right', 'circle_left'], 0, False)
for _p in ('forward', 'back', 'left', 'right', 'up', 'move_distance', 'turn_left', 'turn_right', 'circle_left', 'circle_right'):
    _mc_wire([_p], 1, True)         # one contract per primitive: the thorough tier runs them in parallel


TIMED_PRIMS = ['up', 'down', 'forward', 'start_up+wait+stop', 'start_linear_motion+wait', 'wait']


def _mc_timed(suffix, FIRST, NS, K, thorough, SECOND=tuple(TIMED_PRIMS), exc=True):
    PRIMS = TIMED_PRIMS

    @contract('C17', 'mc.flight.timed' + suffix,
              [MCC + '.__enter__', MCC + '.take_off', MCC + '.__exit__', MCC + '.land', MCC + '.move_distance', MCC + '._set_vel_setpoint',
               MCC + '.up', MCC + '.down', MCC + '.forward', MCC + '.start_up', MCC + '.start_linear_motion', MCC + '.stop',
               SPT + '.run', SPT + '._new_setpoint', SPT + '._update_z_in_setpoint', SPT + '._current_z', SPT + '.get_height', SPT + '.stop', SPT + '.set_vel_setpoint'],
              clause=CL_HOVER + '; ' + CL_END + ' [MotionCommander with the REAL body of its set-point thread in virtual time, punctual schedule (class '
              'CoSim): from the start of the thread to the stop command two consecutive hover set-points are never more than the update period apart; '
              'each carries the velocities and yaw rate commanded last and the height = integral of the commanded vertical velocity over virtual '
              'time; after a blocking vertical move of d the streamed height has changed by exactly d; every hover set-point precedes the stop command '
              'and the priority release, and nothing is streamed after them]', float_mode='R',
              bounded='__enter__, %s primitives: first %s%s (symbolic distances, velocities and waiting times), __exit__ %s; '
              'at most %d periodic wake-ups of the set-point thread within one sleep of the commanding thread'
              % (' or '.join(str(n) for n in NS), '/'.join(FIRST), ', then ' + '/'.join(SECOND) if max(NS) > 1 else '',
                 'with or without an exception pending' if exc else 'without an exception pending', K),
              thorough_only=thorough)
    def k(c):
        sim = CoSim(c, K)
        cf = sim.crazyflie()
        c.float('dh')
        c.require('dh >= 0')        # 0: no climb is commanded - until the first primitive the thread streams its initial set-point
        self = c.new(MCC, cf, c.get('dh'))
        sim.mc = self
        c.let('self', self)
        c.call((self, '__enter__'))
        c.ensure('take-off-no-exception', 'raised is None')
        sim.pump()
        c.snapshot('t', 'self._thread')
        c.snapshot('H', 'dh')
        c.ensure('height-after-take-off', 't.get_height() == H')
        n = c.choice('n', NS)
        for i in range(n):
            prim = c.choice('p%d' % i, SECOND if i else FIRST)
            a, v = c.float('a%d' % i), c.float('v%d' % i)
            c.require('a%d > 0 and v%d > 0' % (i, i))
            if prim in ('up', 'down', 'forward'):
                c.call((self, prim), a, v)
                c.snapshot('H', 'H + %d * a%d' % (DIRS[prim][2], i))
            elif prim == 'wait':
                sim.sleep(None, (a,), {})                   # the application just waits: the last commanded set-point keeps being streamed
            elif prim == 'start_up+wait+stop':
                c.call((self, 'start_up'), v)
                sim.sleep(None, (a,), {})                   # the application waits a seconds
                c.call((self, 'stop'))
                c.snapshot('H', 'H + v%d * a%d' % (i, i))
            else:
                w = c.float('w%d' % i)
                c.call((self, 'start_linear_motion'), v, 0.0, w)
                sim.sleep(None, (a,), {})                   # ... and leaves the motion running (next primitive or landing replaces it)
                c.snapshot('H', 'H + w%d * a%d' % (i, i))
            c.ensure('step%d-no-exception' % i, 'raised is None')
            sim.pump()
            if prim not in ('start_linear_motion+wait', 'wait'):        # (there the next hover set-point comes with the next periodic wake-up)
                c.ensure('step%d-streamed-height-has-changed-by-the-vertical-displacement' % i, 't.get_height() == H')
        failed = c.choice('exception_in_body', [False, True]) if exc else False
        c.reset_trace()
        c.call((self, '__exit__'), *([c.ext('exc_type'), c.ext('exc_value'), c.ext('exc_tb')] if failed else [None, None, None]))
        c.ensure('exit-no-exception', 'raised is None and not result')
        sim.verdicts()
        c.ensure('all-events-streamed', "unread == () and n_hover >= len(events)")
        c.snapshot('cmd', "calls('cf.commander')")
        c.ensure('every-hover-setpoint-precedes-stop-then-priority-release-last',
                 "cmd[-2:] == ('cf.commander.send_stop_setpoint', 'cf.commander.send_notify_setpoint_stop') and "
                 "all(x == 'cf.commander.send_hover_setpoint' for x in cmd[:-2])")
        c.ensure('on-ground-afterwards', 'self._is_flying is False')
        n0 = sim.n_hover
        sim.sleep(None, (1.0,), {})                         # a second later: the thread is gone, nothing is streamed
        c.let('n_later', sim.n_hover - n0)
        c.ensure('nothing-streamed-after-the-stop-command', "n_later == 0 and calls('cf.commander')[-1:] == ('cf.commander.send_notify_setpoint_stop',)")
    return k


_mc_timed('', TIMED_PRIMS, [0, 1], 1, False)
_mc_timed('.thorough.ticks3', TIMED_PRIMS, [0, 1], 3, True)
for _p in TIMED_PRIMS:
    if _p != 'wait':
        _mc_timed('.thorough.' + _p.split('+')[0], [_p], [2], 2, True)      # two primitives; one contract per first primitive (run in parallel)


@contract('C17', 'thread.run.step', [SPT + '.run', SPT + '._new_setpoint', SPT + '._update_z_in_setpoint', SPT + '._current_z', SPT + '.get_height',
                                     SPT + '.set_vel_setpoint', SPT + '.stop'],
          clause=CL_HOVER + ' - induction step over the iterations of run(), from ANY reachable state of the thread (reached here through two '
          'arbitrary velocity set-points at arbitrary clock readings, after which base height, base time, vertical velocity and the last streamed '
          'set-point are unconstrained): an idle period or a new velocity set-point produces exactly one hover set-point whose height is the last '
          'streamed height + (vertical velocity commanded before) * (time since the last streamed set-point) [+ new vertical velocity * time '
          'since the command was read]; the terminate event produces none and ends run().  With thread.run.events1 (first iteration) this covers '
          'event sequences of every length.', float_mode='R')
def thread_run_step(c):
    kind = c.choice('kind', ['idle', 'event', 'terminate'])
    clk = c.floats('clk', 6 + {'idle': 1, 'event': 3, 'terminate': 0}[kind])
    c.virtual_time(clk)
    count = {'k': 0}
    stop_loop = c.raiser('StopLoop')

    def hover(*_a):
        count['k'] += 1
        if count['k'] == 3:
            stop_loop()         # the loop is observed up to and including the iteration under proof
    cf = c.ext('cf', returns={'commander.send_hover_setpoint': hover})
    t = c.new(SPT, cf)
    c.let('t', t)
    c.set(t, '_queue', c.queue('q'))        # sequential FIFO model: get(timeout=...) on an empty queue is queue.Empty (after the time-out)
    ev = [[c.float('%s%d' % (a, i)) for a in ('vx', 'vy', 'vz', 'yaw')] for i in range(3)]
    c.call((t, 'set_vel_setpoint'), *ev[0])
    c.call((t, 'set_vel_setpoint'), *ev[1])
    if kind == 'event':
        c.call((t, 'set_vel_setpoint'), *ev[2])
    elif kind == 'terminate':
        c.call((t, 'stop'))
        c.call((t, 'set_vel_setpoint'), *ev[2])         # posted after the terminate event: never streamed
    c.reset_trace()
    c.call((t, 'run'))
    c.snapshot('hov', "sent('cf.commander.send_hover_setpoint')")
    c.ensure('only-hover-setpoints-are-sent', "len(calls('cf.')) == len(hov)")
    if kind == 'terminate':
        c.ensure('returns-at-terminate', 'raised is None and result is None')
        c.ensure('nothing-streamed-at-or-after-terminate', 'len(hov) == 2 and tuple(t._queue.queue) == ((vx2, vy2, vz2, yaw2),)')
        return
    c.ensure('keeps-running', "raised == 'StopLoop'")
    c.ensure('exactly-one-hover-setpoint-per-iteration', 'len(hov) == 3')
    if len(c.get('hov')) != 3:
        return
    c.snapshot('prev', 'hov[1][1]'), c.snapshot('new', 'hov[2][1]')
    c.ensure('plain-call', 'len(new) == 4 and len(hov[2][2]) == 0')
    if kind == 'idle':
        c.ensure('repeats-velocities-and-yaw-rate', 'new[:3] == (vx1, vy1, yaw1)')
        c.ensure('height-advances-by-vertical-velocity-times-elapsed-time', 'new[3] == prev[3] + vz1 * (clk[6] - clk[5])')
    else:
        c.ensure('new-velocities-and-yaw-rate', 'new[:3] == (vx2, vy2, yaw2)')
        c.ensure('height-continues-the-integral', 'new[3] == prev[3] + vz1 * (clk[6] - clk[5]) + vz2 * (clk[8] - clk[7])')
    c.ensure('reported-height-is-the-streamed-one', 't.get_height() == new[3]')


def _thread_run_ticks(n, thorough):
    @contract('C17', 'thread.run.ticks%d' % n, [SPT + '.run', SPT + '._new_setpoint', SPT + '._update_z_in_setpoint', SPT + '._current_z'],
              clause=CL_HOVER + ' - with no new command every iteration of run() waits at most the update period and then repeats the hover '
              'set-point with the height advanced by vertical velocity * elapsed time', float_mode='R',
              bounded='one velocity set-point followed by %d idle periods' % n, thorough_only=thorough)
    def k(c):
        clk = c.floats('clk', 3 + n)
        c.virtual_time(clk)
        count = {'k': 0}
        stop_loop = c.raiser('StopLoop')

        def hover(*_a):
            count['k'] += 1
            if count['k'] == n + 1:
                stop_loop()
        cf = c.ext('cf', returns={'commander.send_hover_setpoint': hover})
        c.float('period')
        c.require('period > 0')
        t = c.new(SPT, cf, c.get('period'))
        c.let('t', t)
        items = [tuple(c.float(a) for a in ('vx', 'vy', 'vz', 'yaw'))]
        empty = c.raiser('queue.Empty')

        def get(*_a):
            if items:
                return items.pop(0)
            empty()
        c.set(t, '_queue', c.ext('q', returns={'get': get}))
        c.reset_trace()
        c.call((t, 'run'))
        c.let('n', n)
        c.ensure('left-by-scripted-stop-only', "raised == 'StopLoop'")
        c.ensure('get-then-one-hover-setpoint-each-period', "tuple(x for x in calls() if x != 'time.time') == ('q.get', 'cf.commander.send_hover_setpoint') * (n + 1)")
        c.snapshot('hov', "sent('cf.commander.send_hover_setpoint')")
        c.ensure('hover-setpoints', 'all(len(e[1]) == 4 and len(e[2]) == 0 and e[1][:3] == (vx, vy, yaw) for e in hov)')
        if len(c.get('hov')) == n + 1:
            c.ensure('heights-integrate-vertical-velocity', 'all(hov[i][1][3] == vz * (clk[2 + i] - clk[1]) for i in range(n + 1))')
        c.ensure('waits-at-most-update-period', "all(e[2]['block'] is True and e[2]['timeout'] == period and len(e[1]) == 0 for e in sent('q.get'))")
    return k


_thread_run_ticks(6, True)
_thread_run_events(3, True)
_thread_run_events(4, True)


# =========================================================================== histories on one object, construction

@contract('C17', 'mc.second-flight', [MCC + '.__enter__', MCC + '.take_off', MCC + '.__exit__', MCC + '.land', MCC + '.start_forward', SPT + '.__init__',
                                      SPT + '.stop', SPT + '.get_height', SPT + '.set_vel_setpoint'],
          clause=CL_END + ' [history on ONE MotionCommander: fly, land, take off again, land again - the second flight has its own, freshly started '
          'set-point thread whose height starts on the ground and whose queue holds nothing of the first flight, and it ends like the first: '
          'own thread terminated and joined, stop command, priority release]', float_mode='R',
          bounded='two flights; the first one optionally leaves a motion running when the context is left')
def mc_second_flight(c):
    c.virtual_time()
    cf = c.ext('cf', returns={'is_connected': True})
    self = c.new(MCC, cf)
    c.let('self', self)
    c.call((self, '__enter__'))
    c.require('raised is None')
    t1 = c.getfield(self, '_thread')
    c.let('t1', t1)
    c.float('h')
    c.set(t1, '_hover_setpoint', [0.0, 0.0, 0.0, c.get('h')])       # the first thread has streamed up to some height
    if c.choice('motion_left_running', [False, True]):
        c.call((self, 'start_forward'))
    c.call((self, '__exit__'), None, None, None)
    c.require('raised is None')
    c.reset_trace()
    via = c.choice('via', ['__enter__', 'take_off'])
    c.call((self, via))
    c.ensure('second-take-off-no-exception', 'raised is None')
    c.snapshot('t2', 'self._thread')
    STARTS = "sent('thread:_SetPointThread.start')"
    c.ensure('fresh-thread-started-once', "typename(t2) == '_SetPointThread' and not is_same(t2, t1) and len(%s) == 1 and is_same(%s[0][1][0], t2)" % (STARTS, STARTS))
    c.ensure('estimator-reset-before-the-thread-starts', "calls()[:6] == ('cf.is_connected', 'cf.param.set_value', 'time.sleep', 'cf.param.set_value', 'time.sleep', "
             "'thread:_SetPointThread.start')")
    if c.get('t2') is None or c.get('t2') is t1:
        return
    c.ensure('second-flight-starts-on-the-ground', 't2.get_height() == 0.0')
    c.snapshot('q2', 'tuple(t2._queue.queue)')
    c.ensure('queue-holds-the-climb-only', "len(q2) == 2 and q2[0][:2] == (0.0, 0.0) and q2[0][3] == 0.0 and q2[0][2] > 0 and q2[1] == (0.0, 0.0, 0.0, 0.0)")
    c.ensure('first-thread-stays-terminated', "tuple(t1._queue.queue)[-1:] == ('terminate',)")
    c.float('h2')
    c.set(c.get('t2'), '_hover_setpoint', [0.0, 0.0, 0.0, c.get('h2')])
    c.reset_trace()
    c.call((self, '__exit__'), None, None, None)
    c.ensure('second-exit-no-exception', 'raised is None')
    c.ensure('own-thread-terminated-and-joined-then-stop-then-priority-release',
             "tuple(x for x in calls() if x != 'time.sleep') == ('thread:_SetPointThread.join', 'cf.commander.send_stop_setpoint', 'cf.commander.send_notify_setpoint_stop') "
             "and all(is_same(e[1][0], t2) for e in sent('thread:_SetPointThread.join')) and tuple(t2._queue.queue)[-1:] == ('terminate',)")
    c.ensure('on-ground-afterwards', 'self._is_flying is False')


@contract('C17', 'phlc.second-flight', [PHC + '.take_off', PHC + '.land', PHC + '.go_to', PHC + '.forward', PHC + '.move_distance', PHC + '.get_position'],
          clause=CL_POS + '; ' + CL_END + ' [history on ONE PositionHlCommander: take off, move, land, take off again, move, land again - the position '
          'keeps tracking (x, y kept over the landing, z = landing height, then the new take-off height) and the second flight ends with land + stop '
          'like the first]', float_mode='R', bounded='two flights with one primitive each (go_to, then forward); default velocity')
def phlc_second_flight(c):
    self = phlc(c, flying=False)
    c.require('connected and dv > 0 and dh >= 0 and dh >= lh')
    c.call((self, 'take_off'))
    c.require('raised is None')
    for n in ('gx', 'gy', 'gz', 'ht2', 'd'):
        c.float(n)
    c.require('gz >= lh and ht2 >= 0 and ht2 >= lh')
    c.call((self, 'go_to'), c.get('gx'), c.get('gy'), c.get('gz'))
    c.require('raised is None')
    c.call((self, 'land'))
    c.ensure('first-landing', 'raised is None and self.get_position() == (gx, gy, lh) and self._is_flying is False')
    c.reset_trace()
    c.call((self, 'take_off'), c.get('ht2'))
    c.ensure('second-take-off-no-exception', 'raised is None')
    HL = "calls('cf.high_level_commander')"
    c.ensure('second-take-off-command', HL + " == ('cf.high_level_commander.takeoff',) and calls()[-2:] == ('cf.high_level_commander.takeoff', 'time.sleep')")
    if called(c, 'cf.high_level_commander') == ('cf.high_level_commander.takeoff',):
        c.snapshot('g', "sent('cf.high_level_commander.takeoff')[0][1]")
        c.ensure('second-take-off-height-and-duration', 'len(g) == 2 and g[0] == ht2 and g[1] * dv == ht2 and g[1] >= 0')
    c.ensure('position-after-second-take-off', 'self.get_position() == (gx, gy, ht2) and self._is_flying is True')
    c.reset_trace()
    c.call((self, 'forward'), c.get('d'))
    c.ensure('move-no-exception', 'raised is None')
    c.ensure('position-is-start-plus-sum-of-displacements', 'self.get_position() == (gx + d, gy, ht2)')
    c.ensure('go-to-targets-reported-position', "implies(d != 0, len(sent('%s')) == 1) and all(e[1][:4] == (gx + d, gy, ht2, 0) for e in sent('%s'))" % (GOTO, GOTO))
    c.reset_trace()
    c.call((self, 'land'))
    c.ensure('second-landing-no-exception', 'raised is None')
    c.ensure('ends-with-land-sleep-stop', "calls() == ('cf.high_level_commander.land', 'time.sleep', 'cf.high_level_commander.stop')")
    if called(c)[:1] == ('cf.high_level_commander.land',):
        c.ensure('landing-from-tracked-height', 'trace[0][1][0] == lh and trace[0][1][1] * dv == ht2 - lh')
    c.ensure('final-position', 'self.get_position() == (gx + d, gy, lh) and self._is_flying is False')


@contract('C17', 'construct.from-sync', [MCC + '.__init__', PHC + '.__init__', MCC + '.take_off', MCC + '.land', PHC + '.take_off', PHC + '.land'],
          clause=CL_END + ' [the commanders constructed from a SyncCrazyflie (the way every example uses them) command the wrapped Crazyflie: '
          'the take-off and the final stop command go to it]', float_mode='R', bounded='one take-off and landing with default arguments')
def construct_from_sync(c):
    c.virtual_time([0.0, 5.0])
    cf = c.ext('cf', returns={'is_connected': True})
    scf = c.new(SCF, 'radio://0/80/2M', cf)
    which = c.choice('which', ['MotionCommander', 'PositionHlCommander'])
    self = c.call(MCC if which == 'MotionCommander' else PHC, scf)
    c.ensure('constructed', 'raised is None')
    if c.get('raised') is not None:
        return
    c.let('self', self)
    c.reset_trace()
    c.call((self, '__enter__'))
    c.ensure('take-off-no-exception', 'raised is None and is_same(result, self)')
    if which == 'PositionHlCommander':
        c.ensure('take-off-command-to-the-wrapped-crazyflie', "calls('cf.') == ('cf.is_connected', 'cf.high_level_commander.takeoff')")
    else:
        c.ensure('set-point-thread-for-the-wrapped-crazyflie', "calls('cf.')[:1] == ('cf.is_connected',) and is_same(self._thread._cf, cf)")
    c.reset_trace()
    c.call((self, '__exit__'), None, None, None)
    c.ensure('exit-no-exception', 'raised is None')
    if which == 'PositionHlCommander':
        c.ensure('ends-with-land-then-stop', "calls('cf.') == ('cf.high_level_commander.land', 'cf.high_level_commander.stop')")
    else:
        c.ensure('ends-with-stop-then-priority-release', "calls('cf.') == ('cf.commander.send_stop_setpoint', 'cf.commander.send_notify_setpoint_stop')")


@contract('C17', 'phlc.defaults.take_off', [PHC + '.set_default_velocity', PHC + '.set_default_height', PHC + '.take_off', PHC + '.__enter__', PHC + '._height', PHC + '._velocity'],
          clause=CL_POS + ' - default changes made before the flight: take-off climbs to the NEW default height with duration height / NEW default '
          'velocity, and the reported position becomes (x, y, new default height)', float_mode='R')
def phlc_defaults_take_off(c):
    self = phlc(c, flying=False, clock=[0.0, 5.0])
    c.float('ndv'), c.float('ndh')
    c.require('connected and ndv > 0 and ndh >= 0')
    c.call((self, 'set_default_velocity'), c.get('ndv'))
    c.call((self, 'set_default_height'), c.get('ndh'))
    c.ensure('setters-send-nothing', "raised is None and calls() == () and self.get_position() == (x0, y0, z0) and self._is_flying is False")
    c.call((self, c.choice('via', ['take_off', '__enter__'])))
    c.ensure('no-exception', 'raised is None')
    c.snapshot('g', "sent('cf.high_level_commander.takeoff')")
    c.ensure('take-off-to-the-new-default-height-with-the-new-default-velocity',
             "len(g) == 1 and len(g[0][1]) == 2 and g[0][1][0] == ndh and g[0][1][1] * ndv == ndh and sent('time.sleep')[-1][1] == (g[0][1][1],)")
    c.ensure('position-and-state', 'self.get_position() == (x0, y0, ndh) and self._is_flying is True')


# =========================================================================== thorough tier: longer programs

MC_PROG = ['forward', 'start_up', 'turn_left', 'stop', 'circle_right', 'down', 'start_circle_left', 'start_turn_right']


def _mc_session_thorough(first):
    @contract('C17', 'mc.session.thorough.' + first, [MCC + '.__enter__', MCC + '.take_off', MCC + '.__exit__', MCC + '.land', SPT + '.stop', SPT + '.set_vel_setpoint',
                                                      SPT + '.get_height'] + [MCC + '.' + p for p in MC_PROG],
              clause=CL_END + ' [MotionCommander with its real set-point thread object: __enter__, a bounded program, __exit__]', float_mode='R',
              bounded='programs of exactly 3 primitives, the first one %s, the others drawn from %s (symbolic arguments), ending at the first exception'
              % (first, '/'.join(MC_PROG)), thorough_only=True)
    def k(c):
        c.virtual_time()
        cf = c.ext('cf', returns={'is_connected': True})
        self = c.new(MCC, cf)
        c.let('self', self)
        c.call((self, '__enter__'))
        c.require('raised is None')
        t = c.getfield(self, '_thread')
        c.let('t', t)
        c.float('h')
        c.set(t, '_hover_setpoint', [0.0, 0.0, 0.0, c.get('h')])
        failed = False
        for i in range(3):
            p = c.choice('p%d' % i, MC_PROG) if i else first
            a = [c.float('a%d' % i)] if p != 'stop' else []
            c.call((self, p), *a)
            c.ensure('step%d-still-flying-with-the-same-thread' % i, 'self._is_flying is True and is_same(self._thread, t)')
            if c.get('raised') is not None:
                failed = True
                break
        c.snapshot('n0', 'len(tuple(t._queue.queue))')
        c.reset_trace()
        c.call((self, '__exit__'), *([c.ext('exc_type'), c.ext('exc_value'), c.ext('exc_tb')] if failed else [None, None, None]))
        c.ensure('no-exception', 'raised is None and not result')
        c.ensure('thread-terminated-and-joined-then-stop-then-priority-release',
                 "tuple(x for x in calls() if x != 'time.sleep') == ('thread:_SetPointThread.join', 'cf.commander.send_stop_setpoint', 'cf.commander.send_notify_setpoint_stop')")
        c.ensure('joined-own-thread', "all(is_same(e[1][0], t) for e in sent('thread:_SetPointThread.join'))")
        c.ensure('terminate-is-the-last-event', "tuple(t._queue.queue)[-1:] == ('terminate',) and all(e != 'terminate' for e in tuple(t._queue.queue)[:-1])")
        c.ensure('descent-queued-iff-height-nonzero', 'len(tuple(t._queue.queue)) == n0 + (3 if h != 0 else 1)')
        c.ensure('on-ground-afterwards', 'self._is_flying is False and self._thread is None')
    return k


for _p in MC_PROG:
    _mc_session_thorough(_p)


PHLC_PROG = dict(DIRS)


def _phlc_session_thorough(first):
    ALL = ['forward', 'left', 'down', 'go_to', 'move_distance']

    @contract('C17', 'phlc.session.thorough.' + first, [PHC + '.__enter__', PHC + '.take_off', PHC + '.__exit__', PHC + '.land', PHC + '.go_to', PHC + '.move_distance',
                                                        PHC + '.get_position'] + [PHC + '.' + p for p in PHLC_PROG],
              clause=CL_POS + '; ' + CL_END + ' [PositionHlCommander: __enter__, a bounded program, __exit__ without or with an exception pending]', float_mode='R',
              bounded='programs of exactly 3 primitives, the first one %s, the others drawn from %s (symbolic arguments) with the default velocity'
              % (first, '/'.join(ALL)), thorough_only=True)
    def k(c):
        self = phlc(c, flying=False)
        c.require('connected and dv > 0 and dh >= 0')
        c.call((self, '__enter__'))
        c.require('raised is None')
        c.snapshot('px', 'x0'), c.snapshot('py', 'y0'), c.snapshot('pz', 'dh')
        for i in range(3):
            p = c.choice('p%d' % i, ALL) if i else first
            if p == 'go_to':
                a = [c.float('gx%d' % i), c.float('gy%d' % i), c.float('gz%d' % i)]
                c.snapshot('px', 'gx%d' % i), c.snapshot('py', 'gy%d' % i), c.snapshot('pz', 'gz%d' % i)
            elif p == 'move_distance':
                a = [c.float('gx%d' % i), c.float('gy%d' % i), c.float('gz%d' % i)]
                c.snapshot('px', 'px + gx%d' % i), c.snapshot('py', 'py + gy%d' % i), c.snapshot('pz', 'pz + gz%d' % i)
            else:
                a = [c.float('a%d' % i)]
                c.let('s', PHLC_PROG[p])
                c.snapshot('px', 'px + s[0] * a%d' % i), c.snapshot('py', 'py + s[1] * a%d' % i), c.snapshot('pz', 'pz + s[2] * a%d' % i)
            c.reset_trace()
            c.call((self, p), *a)
            c.ensure('step%d-no-exception' % i, 'raised is None')
            c.ensure('step%d-position-is-start-plus-sum-of-displacements' % i, 'self.get_position() == (px, py, pz) and self._is_flying is True')
            c.ensure('step%d-every-go-to-targets-the-reported-position' % i, "len(sent('%s')) <= 1 and all(e[1][:4] == (px, py, pz, 0) for e in sent('%s'))" % (GOTO, GOTO))
        c.require('pz >= lh')
        failed = c.choice('exception_in_body', [False, True])
        c.reset_trace()
        c.call((self, '__exit__'), *([c.ext('exc_type'), c.ext('exc_value'), c.ext('exc_tb')] if failed else [None, None, None]))
        c.ensure('no-exception', 'raised is None and not result')
        c.ensure('ends-with-land-sleep-stop', "calls() == ('cf.high_level_commander.land', 'time.sleep', 'cf.high_level_commander.stop')")
        if called(c)[:2] == ('cf.high_level_commander.land', 'time.sleep'):
            c.ensure('landing-from-tracked-height', 'len(trace[0][1]) == 2 and trace[0][1][0] == lh and trace[0][1][1] * dv == pz - lh and trace[1][1] == (trace[0][1][1],)')
        c.ensure('final-position', 'self.get_position() == (px, py, lh) and self._is_flying is False')
    return k


for _p in sorted(PHLC_PROG) + ['go_to', 'move_distance']:
    _phlc_session_thorough(_p)


GRID = [('forward', (0.15, 0.5), (0.5, 0.0, 0.0, 0.0)), ('back', (0.15, 0.5), (-0.5, 0.0, 0.0, 0.0)), ('left', (0.15, 0.5), (0.0, 0.5, 0.0, 0.0)),
        ('right', (0.15, 0.5), (0.0, -0.5, 0.0, 0.0)), ('move_distance', (0.12, 0.09, 0.0, 0.5), (0.4, 0.3, 0.0, 0.0)),
        ('move_distance', (-0.3, 0.4, 0.0, 0.25), (-0.15, 0.2, 0.0, 0.0)), ('turn_left', (90.0, 45.0), (0.0, 0.0, 0.0, 45.0)),
        ('circle_right', (0.5, 0.25, 90.0), (0.25, 0.0, 0.0, None))]


@contract('C17', 'mc.on-the-wire.grid', [MCC + '.__enter__', MCC + '.__exit__', MCC + '.move_distance', MCC + '._set_vel_setpoint', SPT + '.run', SPT + '._new_setpoint',
                                         CMDR + '.send_hover_setpoint', CMDR + '.send_stop_setpoint', CMDR + '.send_notify_setpoint_stop', CMDR + '.set_client_xmode']
          + sorted(set(MCC + '.' + g[0] for g in GRID)),
          clause=CL_MOVE + ' [the same end-to-end statement as mc.on-the-wire in MACHINE arithmetic (no real-number abstraction, struct.pack exact) on a '
          'grid of concrete flights: while the primitive runs, every hover packet on the link carries exactly the requested velocity vector '
          '(float32 of it) whatever the client X-mode, the flight ends with the stop packet and the priority release]',
          bounded='concrete grid: %d primitives with fixed arguments x protocol version 8 / 9 x client X-mode off / on; default take-off height; '
          'punctual schedule' % len(GRID))
def mc_on_the_wire_grid(c):
    sim = CoSim(c, 10 ** 6, wire=True, concrete=True)
    cf = sim.crazyflie()
    self = c.new(MCC, cf)
    sim.mc = self
    c.let('self', self)
    c.call((self, '__enter__'))
    c.ensure('take-off-no-exception', 'raised is None')
    sim.pump()
    name, args, want = c.choice('flight', GRID)
    h0, e0 = sim.n_hover, len(sim.popped)
    c.reset_trace()
    c.call((self, name), *args)
    c.ensure('primitive-no-exception', 'raised is None')
    c.let('want', want)
    c.let('moving', tuple(sim.popped[e0:e0 + 1]))
    c.let('n_during', sim.n_hover - h0)
    c.ensure('hover-packets-are-streamed-during-the-motion', 'n_during >= 1 and len(moving) == 1')
    c.snapshot('pks', "tuple(e[1][0] for e in sent('cf.send_packet'))")
    c.let('kind', 5 if sim.legacy else 10)
    c.let('ysign', -1.0 if sim.legacy else 1.0)
    c.snapshot('us', "tuple(unpack('<Bffff', bytes(p.data)) for p in pks)")
    c.ensure('every-hover-packet-of-the-motion-carries-the-requested-velocity-vector',
             "len(pks) == n_during and all(p.port == 7 and p.channel == 0 for p in pks) and "
             "all(u[:3] == (kind, f32(want[0]), f32(want[1])) and (want[3] is None or u[3] == ysign * f32(want[3])) for u in us)")
    sim.pump()
    c.call((self, '__exit__'), None, None, None)
    c.ensure('exit-no-exception', 'raised is None')
    sim.verdicts()
    c.let('tail', tuple(p for p, _n in sim.cmd_packets))
    c.let('after', tuple(n for _p, n in sim.cmd_packets))
    c.ensure('stop-setpoint-then-priority-release-are-the-last-packets',
             "len(tail) == 2 and tail[0].port == 7 and tail[0].channel == 0 and bytes(tail[0].data) == pack('<B', 0) and "
             "tail[1].port == 7 and tail[1].channel == 1 and bytes(tail[1].data)[:1] == pack('<B', 0) and after == (n_hover, n_hover)")


@contract('C17', 'thread.run.initial', [SPT + '.__init__', SPT + '.run', SPT + '._update_z_in_setpoint', SPT + '._current_z', SPT + '.get_height'],
          clause=CL_HOVER + ' - base case: before the first velocity set-point arrives the thread streams zero velocities, zero yaw rate and height 0 '
          '(nothing that was not commanded), once per update period', float_mode='R', bounded='two idle periods on a fresh thread')
def thread_run_initial(c):
    clk = c.floats('clk', 2)
    c.virtual_time(clk)
    count = {'k': 0}
    stop_loop = c.raiser('StopLoop')

    def hover(*_a):
        count['k'] += 1
        if count['k'] == 2:
            stop_loop()
    cf = c.ext('cf', returns={'commander.send_hover_setpoint': hover})
    t = c.new(SPT, cf)
    c.let('t', t)
    c.set(t, '_queue', c.queue('q'))
    c.reset_trace()
    c.call((t, 'run'))
    c.ensure('keeps-running', "raised == 'StopLoop'")
    c.snapshot('hov', "sent('cf.commander.send_hover_setpoint')")
    c.ensure('streams-the-zero-setpoint', 'len(hov) == 2 and all(e[1] == (0.0, 0.0, 0.0, 0.0) and len(e[2]) == 0 for e in hov)')
    c.ensure('height-on-the-ground', 't.get_height() == 0.0')
