"""C20 - link URIs select the right driver and parse to the right radio settings (work in progress)."""
from pyvc.api import contract

RAD = 'cflib.crtp.radiodriver'
PARSE = RAD + ':RadioDriver.parse_uri'

# data-rate codes of the Crazyradio dongle (SET_DATA_RATE vendor request): the radio's numbering, stated here
# independently of cflib.drivers.crazyradio
RATE_CODE = {'250K': 0, '1M': 1, '2M': 2}
E7 = (0xE7,) * 5


def hv(ch):
    """spec text: value of the hex digit character expression `ch` (either case)"""
    return '(ord({0}) - 48 if ord({0}) <= 57 else (ord({0}) - 55 if ord({0}) <= 70 else ord({0}) - 87))'.format(ch)


def address_spec(name, n):
    """spec text: the 5 address bytes, most significant first, of the n-digit hex string `name` left-padded with zeros"""
    digs = ['0'] * (10 - n) + [hv('%s[%d]' % (name, i)) for i in range(n)]
    return '(' + ', '.join('16 * %s + %s' % (digs[2 * i], digs[2 * i + 1]) for i in range(5)) + ')'


def hexstr(c, name, n):
    s = c.str(name, n, 48, 102)
    if n:
        c.require('all(48 <= ord(ch) <= 57 or 65 <= ord(ch) <= 70 or 97 <= ord(ch) <= 102 for ch in %s)' % name)
    return s


def radio_uri(c, dongle_expr, with_path=True):
    """Declares the inputs of one shape of radio URI after the dongle id and returns (uri spec text, expectations)."""
    exp = {'channel': '2', 'rate': '2', 'address': repr(E7), 'limit': None}
    uri = "'radio://' + " + dongle_expr
    if with_path:
        nch = c.choice('channel_digits', [1, 2, 3])
        c.str('chan', nch, 48, 57)
        uri += " + '/' + chan"
        exp['channel'] = 'int(chan)'
        rate = c.choice('rate', [None, '250K', '1M', '2M'])
        if rate is not None:
            uri += " + '/%s'" % rate
            exp['rate'] = str(RATE_CODE[rate])
            na = c.choice('address_digits', list(range(0, 11)))
            if na:
                hexstr(c, 'addr', na)
                uri += " + '/' + addr"
                exp['address'] = address_spec('addr', na)
    if c.choice('trailing_slash', [False, True]):
        uri += " + '/'"
    nq = c.choice('rate_limit_digits', [0, 1, 2, 6])
    if nq:
        c.str('rl', nq, 48, 57)
        uri += " + '?rate_limit=' + rl"
        exp['limit'] = 'int(rl)'
    return uri, exp


def check_parse(c, devid_expr, exp):
    c.ensure('no-exception', 'raised is None')
    if c.get('raised') is None:
        c.ensure('five-fields', 'len(result) == 5')
        c.ensure('dongle', 'result[0] == ' + devid_expr)
        c.ensure('channel', 'result[1] == ' + exp['channel'])
        c.ensure('data-rate', 'result[2] == ' + exp['rate'])
        c.ensure('address-bytes-in-written-order-left-zero-padded', 'tuple(result[3]) == ' + exp['address'])
        c.ensure('rate-limit', 'result[4] is None' if exp['limit'] is None else 'result[4] == ' + exp['limit'])


def _numeric(nd):
    @contract('C20', 'parse_uri.index-dongle.%d' % nd, [PARSE],
              clause='parse_uri returns (dongle, channel, rate, address, rate limit) of every well-formed radio URI with a '
                     '%d-digit dongle index' % nd,
              bounded='rate_limit value of 1, 2 or 6 digits', max_paths=6000)
    def k(c):
        c.str('dongle', nd, 48, 57)
        uri, exp = radio_uri(c, 'dongle')
        c.snapshot('uri', uri)
        c.call(PARSE, c.get('uri'))
        check_parse(c, 'int(dongle)', exp)
    return k


for _nd in (1,):
    _numeric(_nd)
