"""C20 - link URIs select the right driver and parse to the right radio settings.

Specification sources (independent of the code): the property statement; the documented radio URI grammar
radio://<dongle>/<channel>/[250K,1M,2M]/<address>[?rate_limit=<n>] with defaults channel 2, 2M, address E7E7E7E7E7; the
Crazyradio numbering of the data rates (0 = 250K, 1 = 1M, 2 = 2M, RATE_CODE below); the address is sent to the radio most
significant byte first, i.e. in the order the hex digits are written, a short address being the low-order digits.

Covered (design section C20, clause -> contracts)
  1 parse_uri on shaped strings ........ parse_uri.index-dongle.<d>.<c> (27 contracts = dongle digits 1..9 x channel digits 1..3,
                                         inside: rate absent / 250K / 1M / 2M, address absent / 1..10 hex digits of either case,
                                         rate_limit absent / 1 / 3 digits [thorough: 2 / 6 digits]; every character of every
                                         field is symbolic), parse_uri.trailing-slash.<c>, parse_uri.serial-dongle.10/.16
                                         (serial-number dongle ids through the stubbed crazyradio.get_serials),
                                         parse_uri.omitted-channel (FINDING, see below)
    settings applied to the radio ...... radio.connect
  2 scan round trip .................... radio.scan-roundtrip (real scan_interface, every reported URI is parsed back),
                                         radio.scan-selected-roundtrip
  3 one driver per scheme .............. drivers.foreign-uri.<Driver> (for all URIs not starting with the driver's own prefix:
                                         WrongUriType before any side effect; this replaces the design's "extract the regex
                                         literals and show them pairwise disjoint" by the stronger statement about the code),
                                         drivers.first-accepting-driver (the get_link_driver loop over symbolic driver behaviour),
                                         drivers.init_drivers, drivers.selection (real list, real drivers, 18 URIs x serial on/off),
                                         drivers.malformed-claimed, drivers.malformed-radio-uri-accepted (FINDING, see below)
  4 open_link .......................... open_link.driver-lookup-fails (any lookup outcome), open_link.unknown-or-malformed
                                         (real lookup)

Findings on the unchanged tree (contracts kept; `thorough_only` so that the quick tier stays green until they are triaged as a
fix or a known_findings.json entry - `./vcheck C20 thorough` reports them as VIOLATION with a native replay):
  * parse_uri.omitted-channel/no-exception: radio://<dongle>, radio://<dongle>/ and radio://<dongle>?rate_limit=<n> raise
    ValueError("invalid literal for int() with base 10: ''") instead of defaulting to channel 2 / 2M / E7E7E7E7E7.
  * drivers.malformed-radio-uri-accepted: radio://0/80/3M, radio://0/80/2M/E7E7E7E7E7/extra, radio://0/+80, radio://0/8_0 are
    accepted (2M resp. channel 80) and dongle 0 is opened, where the property wants "no driver" for a malformed URI.

Assumptions / stubs
  * urllib.parse.urlparse / parse_qs, re.search, binascii.unhexlify, str.strip(chars), str.format fill/align are partial models
    of CPython 3.12 in pyvc/models_uri.py (anything outside them is OutOfSubset = undecided); every proved path is re-run
    natively on a witness (concordance).
  * crazyradio.get_serials(), RadioManager, _RadioDriverThread, CfUsb, the CPX / socket / UART transports, the receive threads
    and SerialDriver.get_devices are recording stubs (c.patch) in both back ends; the prrt python binding is absent
    (prrt_installed False, as in the sandbox); os.getenv('USE_CFLINK') is None.
  * Crazyflie objects for open_link are assembled with c.obj (constructor starts threads), callers are recording stubs.

Not covered
  * USE_CFLINK=cpp (CfLinkCppDriver: native C++ binding, not in the sandbox); cflib.utils.uri_helper (environment look-up only,
    no clause of the property); the connection set-up that follows a successful open_link (C02).
  * URI lengths: strings have concrete lengths in this engine, so every "for all URIs" is a for-all over characters for each of
    an enumerated set of shapes (complete for dongle / channel / address digit counts; bounded for rate_limit digits and for
    the lengths of foreign URIs - said in `bounded=`); channel values are all 1..3 digit numbers (a superset of 0..125).
  * PrrtDriver accepting a URI with the binding installed; debug driver (no longer exists).
"""
from pyvc.api import contract

RAD = 'cflib.crtp.radiodriver'
PARSE = RAD + ':RadioDriver.parse_uri'

# data-rate codes of the Crazyradio dongle (SET_DATA_RATE vendor request): the radio's numbering, stated here
# independently of cflib.drivers.crazyradio
RATE_CODE = {'250K': 0, '1M': 1, '2M': 2}
E7 = (0xE7,) * 5


def hv(ch):
    """spec text: value of the hex digit character expression `ch` (either case)"""
    return '(ord({0}) - 48 if ord({0}) <= 57 else (ord({0}) - 55 if ord({0}) <= 70 else ord({0}) - 87))'.format(ch)


def address_spec(name, n):
    """spec text: the 5 address bytes, most significant first, of the n-digit hex string `name` left-padded with zeros"""
    digs = ['0'] * (10 - n) + [hv('%s[%d]' % (name, i)) for i in range(n)]
    return '(' + ', '.join('16 * %s + %s' % (digs[2 * i], digs[2 * i + 1]) for i in range(5)) + ')'


def hexstr(c, name, n):
    s = c.str(name, n, 48, 102)
    if n:
        c.require('all(48 <= ord(ch) <= 57 or 65 <= ord(ch) <= 70 or 97 <= ord(ch) <= 102 for ch in %s)' % name)
    return s


def radio_uri(c, dongle_expr, nch, slash=(False,), limits=(0, 1, 3)):
    """Declares the inputs of one shape of radio URI after the dongle id and returns (uri spec text, expectations).
    nch = number of channel digits (0: no path at all)"""
    exp = {'channel': '2', 'rate': '2', 'address': repr(E7), 'limit': None}
    uri = "'radio://' + " + dongle_expr
    if nch:
        c.str('chan', nch, 48, 57)
        uri += " + '/' + chan"
        exp['channel'] = 'int(chan)'
        rate = c.choice('rate', [None, '250K', '1M', '2M'])
        if rate is not None:
            uri += " + '/%s'" % rate
            exp['rate'] = str(RATE_CODE[rate])
            na = c.choice('address_digits', list(range(0, 11)))
            if na:
                hexstr(c, 'addr', na)
                uri += " + '/' + addr"
                exp['address'] = address_spec('addr', na)
    if c.choice('trailing_slash', list(slash)):
        uri += " + '/'"
    nq = c.choice('rate_limit_digits', list(limits))
    if nq:
        c.str('rl', nq, 48, 57)
        uri += " + '?rate_limit=' + rl"
        exp['limit'] = 'int(rl)'
    return uri, exp


def check_parse(c, devid_expr, exp):
    c.ensure('no-exception', 'raised is None')
    if c.get('raised') is None:
        c.ensure('five-fields', 'len(result) == 5')
        c.ensure('dongle', 'result[0] == ' + devid_expr)
        c.ensure('channel', 'result[1] == ' + exp['channel'])
        c.ensure('data-rate', 'result[2] == ' + exp['rate'])
        c.ensure('address-bytes-in-written-order-left-zero-padded', 'tuple(result[3]) == ' + exp['address'])
        c.ensure('rate-limit', 'result[4] is None' if exp['limit'] is None else 'result[4] == ' + exp['limit'])


def _numeric(nd, nch, limits=(0, 1, 3), suffix='', **opts):
    @contract('C20', 'parse_uri.index-dongle.%d.%d%s' % (nd, nch, suffix), [PARSE],
              clause='parse_uri returns (dongle, channel, rate, address, rate limit) of every well-formed radio URI with a '
                     '%d-digit dongle index and a %d-digit channel; rate and address present or omitted, address of 1..10 hex '
                     'digits of either case, rate_limit option absent or present' % (nd, nch),
              bounded='rate_limit value of %s digits' % ' or '.join(str(x) for x in limits if x), max_paths=6000, **opts)
    def k(c):
        c.str('dongle', nd, 48, 57)
        uri, exp = radio_uri(c, 'dongle', nch, limits=limits)
        c.snapshot('uri', uri)
        c.call(PARSE, c.get('uri'))
        check_parse(c, 'int(dongle)', exp)
    return k


for _nd in range(1, 10):            # the code's own split between index and serial number is len(dongle) < 10
    for _nch in (1, 2, 3):
        _numeric(_nd, _nch)
        _numeric(_nd, _nch, limits=(2, 6), suffix='.long-rate-limit', thorough_only=True)


def _trailing_slash(nch):
    @contract('C20', 'parse_uri.trailing-slash.%d' % nch, [PARSE],
              clause='a trailing slash after the last field changes nothing (%d-digit channel)' % nch,
              bounded='1-digit dongle; rate_limit value of 1 or 3 digits', max_paths=6000)
    def k(c):
        c.str('dongle', 1, 48, 57)
        uri, exp = radio_uri(c, 'dongle', nch, slash=(True,))
        c.snapshot('uri', uri)
        c.call(PARSE, c.get('uri'))
        check_parse(c, 'int(dongle)', exp)
    return k


for _nch in (1, 2, 3):
    _trailing_slash(_nch)


@contract('C20', 'parse_uri.omitted-channel', [PARSE],
          clause='omitted trailing fields take their defaults: a URI that names only the dongle (radio://<dongle>, with or '
                 'without trailing slash / rate_limit option) parses to channel 2, 2M, address E7E7E7E7E7',
          bounded='dongle index of 1, 2 or 9 digits; rate_limit value of 1 or 3 digits')
def omitted_channel(c):
    # FINDING on the unchanged tree (kept, thorough tier only until triaged): every one of these URIs raises ValueError
    # (int('') in parse_uri: ''.split('/') == ['']), e.g. radio://0, radio://0/, radio://0?rate_limit=5
    c.str('dongle', c.choice('dongle_digits', [1, 2, 9]), 48, 57)
    uri, exp = radio_uri(c, 'dongle', 0, slash=(False, True))
    c.snapshot('uri', uri)
    c.call(PARSE, c.get('uri'))
    check_parse(c, 'int(dongle)', exp)


# ------------------------------------------------------------------------- serial-number dongle ids

SERIALS = ('E7E7E7E7E7', 'ABCDEF0123', '0123456789', '4000000012', '00000000000000A1', 'E7E7E7E7E7')
CRZ = 'cflib.drivers.crazyradio'


def plugged_in(c, serials=SERIALS):
    """the dongles that are plugged in (USB enumeration is hardware: stubbed)"""
    c.let('SERIALS', tuple(serials))
    c.patch(CRZ + ':get_serials', c.ext('get_serials', returns={'()': lambda *_a: tuple(serials)}))


def _serial(n):
    @contract('C20', 'parse_uri.serial-dongle.%d' % n, [PARSE],
              clause='a dongle id that is a serial number (10 or more characters) selects the plugged-in dongle with that '
                     'serial number, compared case-insensitively, also when the serial consists of decimal digits only; an '
                     'unknown serial is an error; the other fields parse as usual',
              bounded='serial numbers of %d characters [0-9A-Za-z]; the enumerated dongles are the 6 of SERIALS (one of '
                      'them listed twice: the first one is taken); rest of the URI: /<2 digits>/<rate>/<10 hex digits>' % n)
    def k(c):
        plugged_in(c)
        c.str('dongle', n, 48, 122)
        c.require('all(48 <= ord(ch) <= 57 or 65 <= ord(ch) <= 90 or 97 <= ord(ch) <= 122 for ch in dongle)')
        c.str('chan', 2, 48, 57)
        hexstr(c, 'addr', 10)
        rate = c.choice('rate', ['250K', '1M', '2M'])
        c.snapshot('uri', "'radio://' + dongle + '/' + chan + '/%s/' + addr" % rate)
        c.call(PARSE, c.get('uri'))
        c.snapshot('wanted', 'dongle.upper()')
        c.ensure('found-iff-plugged-in', 'iff(raised is None, any(s == wanted for s in SERIALS))')
        if c.get('raised') is None:
            c.ensure('index-of-first-dongle-with-that-serial',
                     'forall(range(len(SERIALS)), lambda i: implies(SERIALS[i] == wanted and '
                     'all(SERIALS[j] != wanted for j in range(i)), result[0] == i))')
            c.ensure('is-an-index', 'isinstance(result[0], int) and 0 <= result[0] < len(SERIALS)')
            c.ensure('channel', 'result[1] == int(chan)')
            c.ensure('data-rate', 'result[2] == %d' % RATE_CODE[rate])
            c.ensure('address-bytes-in-written-order-left-zero-padded', 'tuple(result[3]) == ' + address_spec('addr', 10))
            c.ensure('rate-limit', 'result[4] is None')
        else:
            c.ensure('error-not-wrong-uri-type', "raised == 'Exception'")
    return k


for _n in (10, 16):
    _serial(_n)


# ------------------------------------------------------------------------- RadioDriver.connect applies the parsed settings

def radio_hardware(c, version=0.53, returns=None):
    """RadioManager (shared USB dongle + its service thread) and the link thread are hardware / threads: recording stubs"""
    radio = c.ext('radio', attrs={'version': version}, returns=returns or {})
    c.patch(RAD + ':RadioManager', c.ext('RadioManager', returns={'open': lambda *_a: radio}))
    thread = c.ext('link_thread')
    c.patch(RAD + ':_RadioDriverThread', c.ext('_RadioDriverThread', returns={'()': lambda *_a: thread}))
    return radio


@contract('C20', 'radio.connect', [RAD + ':RadioDriver.connect', RAD + ':RadioDriver.__init__', PARSE],
          clause='connecting to a radio URI opens exactly the named dongle once and applies exactly the channel, data rate '
                 'and address of the URI to it; the rate limit of the URI is the one handed to the link thread',
          bounded='1-digit dongle index, rate_limit absent or of 2 digits, address absent or of 1 / 10 hex digits '
                  '(all URI shapes are covered for parse_uri itself by the parse_uri.* contracts)', max_paths=3000)
def radio_connect(c):
    radio = radio_hardware(c)
    c.str('dongle', 1, 48, 57)
    nch = c.choice('channel_digits', [1, 2, 3])
    exp = {'channel': '2', 'rate': '2', 'address': repr(E7), 'limit': 'None'}
    uri = "'radio://' + dongle"
    c.str('chan', nch, 48, 57)
    uri += " + '/' + chan"
    exp['channel'] = 'int(chan)'
    rate = c.choice('rate', [None, '250K', '1M', '2M'])
    if rate is not None:
        uri += " + '/%s'" % rate
        exp['rate'] = str(RATE_CODE[rate])
        na = c.choice('address_digits', [0, 1, 10])
        if na:
            hexstr(c, 'addr', na)
            uri += " + '/' + addr"
            exp['address'] = address_spec('addr', na)
    if c.choice('with_rate_limit', [False, True]):
        c.str('rl', 2, 48, 57)
        uri += " + '?rate_limit=' + rl"
        exp['limit'] = 'int(rl)'
    c.snapshot('uri', uri)
    drv = c.new(RAD + ':RadioDriver')
    c.let('drv', drv)
    c.let('stat_cb', c.ext('stat_cb'))
    c.let('err_cb', c.ext('err_cb'))
    c.reset_trace()
    c.call((drv, 'connect'), c.get('uri'), c.get('stat_cb'), c.get('err_cb'))
    c.ensure('no-exception', 'raised is None')
    if c.get('raised') is None:
        c.ensure('exactly-the-named-dongle-opened-once',
                 "len(sent('RadioManager.open')) == 1 and sent('RadioManager.open')[0][1] == (int(dongle),)")
        c.ensure('channel-applied-once', "len(sent('radio.set_channel')) == 1 and sent('radio.set_channel')[0][1] == (%s,)" % exp['channel'])
        c.ensure('data-rate-applied-once', "len(sent('radio.set_data_rate')) == 1 and sent('radio.set_data_rate')[0][1] == (%s,)" % exp['rate'])
        c.ensure('address-applied-once', "len(sent('radio.set_address')) == 1 and tuple(sent('radio.set_address')[0][1][0]) == %s" % exp['address'])
        c.ensure('nothing-else-on-the-radio', "all(n in ('radio.set_channel', 'radio.set_data_rate', 'radio.set_address', 'radio.set_arc') "
                 "for n in calls('radio.'))")
        c.ensure('settings-before-link-thread', "calls('')[-2:] == ('_RadioDriverThread', 'link_thread.start')")
        c.ensure('link-thread-gets-radio-and-rate-limit', "len(sent('_RadioDriverThread')) == 1 and "
                 "is_same(sent('_RadioDriverThread')[0][1][0], radio) and sent('_RadioDriverThread')[0][1][6] == %s and "
                 "is_same(sent('_RadioDriverThread')[0][1][4], err_cb)" % exp['limit'])
        c.ensure('driver-state', "drv.uri == uri and drv.rate_limit == %s" % exp['limit'])


# ------------------------------------------------------------------------- scanning reports URIs that parse back

def be40(x):
    return '(%s)' % ', '.join('%s // %d %% 256' % (x, 256 ** (4 - i)) for i in range(5))


@contract('C20', 'radio.scan-roundtrip', [RAD + ':RadioDriver.scan_interface', RAD + ':RadioDriver._scan_radio_channels', PARSE],
          clause='every URI reported by a scan parses back to dongle 0, the channel that answered, the data rate the radio was '
                 'set to for that scan and the address that was scanned (the address given, most significant byte first, or '
                 'E7E7E7E7E7); the address is applied to the radio before scanning',
          bounded='one answering channel per data rate (the same symbolic channel 0..125 in the three scans)', max_paths=3000)
def scan_roundtrip(c):
    plugged_in(c)
    ch = c.int('ch', 0, 125)
    radio = radio_hardware(c, returns={'scan_channels': lambda *_a: (ch,)})
    given = c.choice('address_given', [False, True])
    address = c.int('address', 0, 2 ** 40 - 1) if given else c.let('address', None)
    drv = c.new(RAD + ':RadioDriver')
    c.reset_trace()
    c.call((drv, 'scan_interface'), address)
    c.ensure('no-exception', 'raised is None')
    if c.get('raised') is not None:
        return
    c.snapshot('found', 'result')
    c.snapshot('scan_trace', 'trace')
    c.snapshot('want_addr', be40('address') if given else repr(E7))
    c.ensure('radio-sequence', "tuple(e[0] for e in scan_trace if e[0].startswith('radio.')) == "
             + repr((('radio.set_address',) if given else ()) + ('radio.set_arc',) + ('radio.set_data_rate', 'radio.scan_channels') * 3
                    + ('radio.close',)))
    c.ensure('rates-scanned-in-order', "tuple(e[1] for e in scan_trace if e[0] == 'radio.set_data_rate') == ((0,), (1,), (2,))")
    if given:
        c.ensure('address-applied-before-scanning', "tuple([e for e in scan_trace if e[0] == 'radio.set_address'][0][1][0]) == want_addr")
    c.ensure('all-channels-scanned', "all(e[1][0] == 0 and e[1][1] == 125 for e in scan_trace if e[0] == 'radio.scan_channels')")
    c.ensure('one-uri-per-answer', 'len(found) == 3')
    for k in range(3):
        c.snapshot('u', 'found[%d][0]' % k)
        c.call(PARSE, c.get('u'))
        c.ensure('scan-%d-parses-back' % k, 'raised is None')
        if c.get('raised') is None:
            c.ensure('scan-%d-dongle-channel-rate' % k, 'result[0] == 0 and result[1] == ch and result[2] == %d and result[4] is None' % k)
            c.ensure('scan-%d-address' % k, 'tuple(result[3]) == want_addr')


# ------------------------------------------------------------------------- one driver per scheme

CRTP = 'cflib.crtp'
USB = 'cflib.crtp.usbdriver'
TCP = 'cflib.crtp.tcpdriver'
UDP = 'cflib.crtp.udpdriver'
SER = 'cflib.crtp.serialdriver'
PRRT = 'cflib.crtp.prrtdriver'

DRIVERS = {            # driver class -> (module, the scheme prefix it owns)
    'RadioDriver': (RAD, 'radio://'),
    'UsbDriver': (USB, 'usb://'),
    'SerialDriver': (SER, 'serial://'),
    'UdpDriver': (UDP, 'udp://'),
    'PrrtDriver': (PRRT, 'prrt://'),
    'TcpDriver': (TCP, 'tcp://'),
}
# recording stubs that stand for the hardware / sockets / threads each driver opens once it has accepted a URI
HARDWARE_OF = {
    'RadioDriver': ('RadioManager', 'radio', '_RadioDriverThread', 'link_thread'),
    'UsbDriver': ('CfUsb', 'cfusb', '_UsbReceiveThread', 'usb_thread'),
    'SerialDriver': ('serial_devices', 'UARTTransport', 'serial_CPX', 'serial_cpx', 'serial_thread_cls', 'serial_thread'),
    'UdpDriver': ('udp_socket_module', 'udp_socket'),
    'PrrtDriver': (),
    'TcpDriver': ('SocketTransport', 'tcp_CPX', 'tcp_cpx', 'tcp_thread_cls', 'tcp_thread'),
}


def hardware(c):
    """every constructor through which a driver reaches hardware, a socket or a thread is a recording stub; the python
    prrt binding is not installed (as in the sandbox)"""
    radio_hardware(c)
    plugged_in(c)
    cfusb = c.ext('cfusb', attrs={'dev': True})
    usb_thread = c.ext('usb_thread')
    c.patch(USB + ':CfUsb', c.ext('CfUsb', returns={'()': lambda *_a: cfusb}))
    c.patch(USB + ':_UsbReceiveThread', c.ext('_UsbReceiveThread', returns={'()': lambda *_a: usb_thread}))
    tcp_cpx, tcp_thread = c.ext('tcp_cpx'), c.ext('tcp_thread')
    c.patch(TCP + ':SocketTransport', c.ext('SocketTransport'))
    c.patch(TCP + ':CPX', c.ext('tcp_CPX', returns={'()': lambda *_a: tcp_cpx}))
    c.patch(TCP + ':_CPXReceiveThread', c.ext('tcp_thread_cls', returns={'()': lambda *_a: tcp_thread}))
    udp_socket = c.ext('udp_socket')
    c.patch(UDP + ':socket', c.ext('udp_socket_module', attrs={'AF_INET': 2, 'SOCK_DGRAM': 2}, returns={'socket': lambda *_a: udp_socket}))
    ser_cpx, ser_thread = c.ext('serial_cpx'), c.ext('serial_thread')
    c.patch(SER + ':SerialDriver.get_devices', c.ext('serial_devices', returns={'()': lambda *_a: c.dict([('ttyUSB0', '/dev/ttyUSB0')])}))
    c.patch(SER + ':UARTTransport', c.ext('UARTTransport'))
    c.patch(SER + ':CPX', c.ext('serial_CPX', returns={'()': lambda *_a: ser_cpx}))
    c.patch(SER + ':_CPXReceiveThread', c.ext('serial_thread_cls', returns={'()': lambda *_a: ser_thread}))
    c.patch(PRRT + ':prrt_installed', False)


FOREIGN_LENGTHS = (0, 1, 3, 5, 6, 7, 8, 9, 10, 12, 16)


def _foreign(driver):
    mod, prefix = DRIVERS[driver]

    @contract('C20', 'drivers.foreign-uri.' + driver, [mod + ':%s.connect' % driver, mod + ':%s.__init__' % driver],
              clause='%s.connect refuses every URI that does not start with its own scheme prefix %r with WrongUriType, before '
                     'any side effect (nothing opened, driver state untouched) - so no URI of another or of an unknown scheme '
                     'is ever claimed by this driver' % (driver, prefix),
              bounded='URIs of length %s over the printable ASCII characters (each character free)' % (FOREIGN_LENGTHS,))
    def k(c):
        hardware(c)
        n = c.choice('length', list(FOREIGN_LENGTHS))
        c.str('uri', n)
        c.require('not uri.startswith(%r)' % prefix)
        drv = c.new(mod + ':' + driver)
        c.let('drv', drv)
        c.snapshot('fields_before', 'dict(drv.__dict__)')
        c.reset_trace()
        c.call((drv, 'connect'), c.get('uri'), c.ext('stat_cb'), c.ext('err_cb'))
        c.ensure('wrong-uri-type', "raised == 'WrongUriType'")
        c.ensure('nothing-opened', 'len(trace) == 0')
        c.ensure('driver-untouched', 'dict(drv.__dict__) == fields_before')
    return k


for _d in DRIVERS:
    _foreign(_d)


def driver_list(c, serial):
    """the driver list as the real init_drivers builds it (USE_CFLINK unset: the python drivers)"""
    c.patch(CRTP + ':os', c.ext('os', returns={'getenv': lambda *_a: None}))
    c.patch(CRTP + ':CLASSES', c.list([]))
    c.call(CRTP + ':init_drivers', enable_serial_driver=serial)
    c.require('raised is None')


@contract('C20', 'drivers.init_drivers', [CRTP + ':init_drivers'],
          clause='the driver list holds each python driver exactly once, with and without the optional serial driver')
def init_drivers(c):
    serial = c.choice('enable_serial_driver', [False, True])
    debug = c.choice('enable_debug_driver', [False, True])
    c.patch(CRTP + ':os', c.ext('os', returns={'getenv': lambda *_a: None}))
    c.let('classes', c.patch(CRTP + ':CLASSES', c.list([])))
    c.call(CRTP + ':init_drivers', debug, serial)
    c.ensure('no-exception', 'raised is None')
    c.ensure('driver-list', '[k.__name__ for k in classes] == %r' % (
        ['RadioDriver', 'UsbDriver'] + (['SerialDriver'] if serial else []) + ['UdpDriver', 'PrrtDriver', 'TcpDriver'],))


# URI -> the driver that must be selected / None (no driver) / the error of the one driver that claims the scheme
SELECTION = [
    ('radio://0/80/2M/E7E7E7E7E7', 'RadioDriver'), ('radio://1/5', 'RadioDriver'),
    ('usb://0', 'UsbDriver'), ('usb://12', 'UsbDriver'),
    ('udp://127.0.0.1:7777', 'UdpDriver'),
    ('tcp://192.168.4.1:5000', 'TcpDriver'),
    ('serial://ttyUSB0', 'SerialDriver'),
    ('prrt://10.0.0.1:5000', 'PrrtDriver'),
    ('bogus://something', None), ('radiox://0/80/2M', None), ('', None), ('RADIO://0/80/2M', None), (' usb://0', None),
    ('xtcp://1.2.3.4:5', None), ('tcp:/1.2.3.4:5', None), ('debug://0/0', None), ('0', None), ('://', None),
]


@contract('C20', 'drivers.selection', [CRTP + ':get_link_driver', CRTP + ':init_drivers'] + [
          '%s:%s.connect' % (DRIVERS[d][0], d) for d in DRIVERS],
          clause='with the real driver list (with and without the serial driver) every scheme is claimed by exactly its own '
                 'driver: get_link_driver returns an instance of that driver and only that driver touches hardware; an unknown '
                 'scheme yields None and nothing is opened',
          bounded='the %d URIs of SELECTION (for all URIs: drivers.foreign-uri.* and drivers.first-accepting-driver)' % len(SELECTION))
def selection(c):
    serial = c.choice('enable_serial_driver', [False, True])
    k = c.choice('uri_index', list(range(len(SELECTION))))
    uri, want = SELECTION[k]
    hardware(c)
    driver_list(c, serial)
    if want == 'SerialDriver' and not serial:
        want = None
    c.let('uri', uri)
    c.reset_trace()
    c.call(CRTP + ':get_link_driver', uri, c.ext('stat_cb'), c.ext('err_cb'))
    if want is None:
        c.ensure('no-driver', 'raised is None and result is None')
        c.ensure('nothing-opened', 'len(trace) == 0')
    elif want == 'PrrtDriver':
        # the binding is not installed: the driver that owns the scheme reports it; no other driver is tried afterwards
        c.ensure('claimed-by-prrt-driver', "raised == 'Exception' and str(exc) == 'PRRT is missing'")
        c.ensure('nothing-opened', 'len(trace) == 0')
    else:
        c.ensure('driver-of-the-scheme', "raised is None and typename(result) == %r" % want)
        c.ensure('only-its-hardware', 'len(trace) > 0 and all(e[0].split(".")[0] in %r for e in trace)' % (HARDWARE_OF[want],))
    if want == 'UsbDriver':
        c.ensure('usb-device-index', "len(sent('CfUsb')) == 1 and sent('CfUsb')[0][2] == {'devid': %d}" % int(uri[6:]))
    if want == 'TcpDriver':
        c.ensure('tcp-endpoint', "len(sent('SocketTransport')) == 1 and sent('SocketTransport')[0][1] == ('192.168.4.1', 5000)")
    if want == 'UdpDriver':
        c.ensure('udp-endpoint', "len(sent('udp_socket.connect')) == 1 and sent('udp_socket.connect')[0][1] == (('127.0.0.1', 7777),)")
    if want == 'SerialDriver':
        c.ensure('serial-device', "len(sent('UARTTransport')) == 1 and sent('UARTTransport')[0][1][0] == '/dev/ttyUSB0'")


MALFORMED = [      # URIs of a known scheme that its driver must reject; the error is the driver's, no other driver takes over
    ('radio://0/abc', 'ValueError'), ('radio://0/80/2M/E7E7E7E7E7E', 'Error'), ('radio://0/80/2M/E7E7E7E7E7E7', 'struct.error'),
    ('radio://0/80/2M/G7', 'Error'), ('radio://E7E7E7E7E8/80', 'Exception'),
    ('serial://tty USB0', 'Exception'), ('serial://nosuchport', 'Exception'), ('prrt://x', 'Exception'),
]


@contract('C20', 'drivers.malformed-claimed', [CRTP + ':get_link_driver'],
          clause='a malformed URI of a known scheme yields no driver: the driver that owns the scheme raises, nothing is opened and '
                 'no other driver takes the URI',
          bounded='the %d URIs of MALFORMED, serial driver enabled' % len(MALFORMED))
def malformed_claimed(c):
    k = c.choice('uri_index', list(range(len(MALFORMED))))
    uri, err = MALFORMED[k]
    hardware(c)
    driver_list(c, True)
    c.reset_trace()
    c.call(CRTP + ':get_link_driver', uri, c.ext('stat_cb'), c.ext('err_cb'))
    c.ensure('error-of-the-owning-driver', 'raised == %r' % err)
    c.ensure('nothing-opened', "all(e[0] in ('get_serials', 'serial_devices') for e in trace)")


def stub_driver(c, i, behaviour, WUT):
    """a driver class whose connect() accepts (behaviour 0), raises WrongUriType (1) or fails with another error (2)"""
    def connect(I, args, kwargs):
        if I is None:                                   # native back end: the real exception classes
            if behaviour == 1:
                raise WUT('not mine')
            if behaviour == 2:
                raise RuntimeError('cannot open')
            return None
        from pyvc.core import PyRaise                   # symbolic back end
        if behaviour == 1:
            raise PyRaise(I.call(WUT, ['not mine'], {}))
        if behaviour == 2:
            I.raise_py('RuntimeError', 'cannot open')
        return None
    inst = c.ext('inst%d' % i, returns={'connect': connect})
    return c.ext('Driver%d' % i, returns={'()': lambda *_a: inst}), inst


@contract('C20', 'drivers.first-accepting-driver', [CRTP + ':get_link_driver'],
          clause='get_link_driver asks the drivers in list order and returns the first instance whose connect does not raise '
                 'WrongUriType, passing the URI and both callbacks through; None if all refuse; another error of a driver ends the '
                 'search with that error; drivers after the selected one are not even instantiated',
          bounded='driver lists of 0..3 drivers, each accepting / refusing / failing')
def first_accepting(c):
    WUT = c.cls('cflib.crtp.exceptions:WrongUriType')
    n = c.choice('drivers', [0, 1, 2, 3])
    beh = [c.choice('behaviour%d' % i, [0, 1, 2]) for i in range(n)]
    stubs = [stub_driver(c, i, beh[i], WUT) for i in range(n)]
    c.patch(CRTP + ':CLASSES', c.list([cls for cls, _ in stubs]))
    c.str('uri', 5)
    c.let('stat_cb', c.ext('stat_cb'))
    c.let('err_cb', c.ext('err_cb'))
    for i, (_, inst) in enumerate(stubs):
        c.let('inst%d' % i, inst)
    c.call(CRTP + ':get_link_driver', c.get('uri'), c.get('stat_cb'), c.get('err_cb'))
    first = [i for i in range(n) if beh[i] != 1]
    tried = n if not first else first[0] + 1
    c.ensure('asked-in-order-up-to-the-first-that-does-not-refuse', 'calls("") == %r' % (
        tuple(x for i in range(tried) for x in ('Driver%d' % i, 'inst%d.connect' % i)),))
    c.ensure('uri-and-callbacks-passed-through', 'all(e[1][0] == uri and is_same(e[1][1], stat_cb) and is_same(e[1][2], err_cb) '
             'for e in trace if e[0].endswith(".connect"))')
    if not first:
        c.ensure('none-when-all-refuse', 'raised is None and result is None')
    elif beh[first[0]] == 0:
        c.ensure('first-accepting-instance', 'raised is None and is_same(result, inst%d)' % first[0])
    else:
        c.ensure('other-error-propagates', "raised == 'RuntimeError'")


# ------------------------------------------------------------------------- open_link: failure is a notification, not an exception

CF = 'cflib.crazyflie'


def crazyflie(c):
    """a Crazyflie with its callers / packet handler / statistics as recording stubs (constructor starts threads and
    builds all sub-systems: out of reach, so the object is assembled field by field)"""
    cf = c.obj(CF + ':Crazyflie', connection_requested=c.ext('connection_requested'), connection_failed=c.ext('connection_failed'),
               link_statistics=c.ext('link_statistics'), incoming=c.ext('incoming'), packet_received=c.ext('packet_received'),
               link=None, link_uri='', state=0)
    c.let('cf', cf)
    return cf


def check_failed_notification(c, prefix):
    c.ensure('no-exception-escapes', 'raised is None')
    c.ensure('connection-failed-exactly-once', "len(sent('connection_failed.call')) == 1")
    if len([e for e in c.get('trace') if e[0] == 'connection_failed.call']) == 1:
        c.snapshot('note', "sent('connection_failed.call')[0][1]")
        c.ensure('notification-names-the-uri', 'len(note) == 2 and note[0] == uri')
        c.ensure('notification-text', 'note[1].startswith(%r)' % prefix)
    c.ensure('requested-then-failed-nothing-else', "calls('connection_') == ('connection_requested.call', 'connection_failed.call')")
    c.ensure('no-link', 'cf.link is None and cf.link_uri == uri')
    c.ensure('connection-not-started', "len(calls('incoming.')) == 0 and len(calls('packet_received.')) == 0")


@contract('C20', 'open_link.driver-lookup-fails', [CF + ':Crazyflie.open_link'],
          clause='whatever the driver lookup does for a URI - no driver (None) or any exception - open_link reports exactly one '
                 'connection_failed(uri, text) and lets nothing escape',
          bounded='URIs of 7 free printable characters; lookup outcomes: None, Exception, ValueError, struct.error, KeyError, OSError')
def open_link_lookup_fails(c):
    outcome = c.choice('lookup', [None, 'Exception', 'ValueError', 'struct.error', 'KeyError', 'OSError'])
    c.patch(CRTP + ':get_link_driver', c.ext('get_link_driver', returns={'()': (lambda *_a: None) if outcome is None else c.raiser(outcome, 'boom')}))
    cf = crazyflie(c)
    c.str('uri', 7)
    c.call((cf, 'open_link'), c.get('uri'))
    c.ensure('lookup-asked-once-for-the-uri', "len(sent('get_link_driver')) == 1 and sent('get_link_driver')[0][1][0] == uri")
    check_failed_notification(c, 'No driver found or malformed URI: ' if outcome is None else "Couldn't load link driver: ")


@contract('C20', 'open_link.unknown-or-malformed', [CF + ':Crazyflie.open_link', CRTP + ':get_link_driver'],
          clause='an unknown scheme or a malformed URI of a known scheme given to open_link (real driver lookup, real drivers, with '
                 'and without the serial driver) yields no link, exactly one connection_failed notification and no exception; '
                 'nothing is opened',
          bounded='the unknown-scheme URIs of SELECTION and the URIs of MALFORMED')
def open_link_unknown(c):
    uris = [u for u, want in SELECTION if want is None] + [u for u, _ in MALFORMED]
    serial = c.choice('enable_serial_driver', [False, True])
    uri = uris[c.choice('uri_index', list(range(len(uris))))]
    claimed = uri in [u for u, _ in MALFORMED] and (serial or not uri.startswith('serial://'))
    hardware(c)
    driver_list(c, serial)
    cf = crazyflie(c)
    c.let('uri', uri)
    c.reset_trace()
    c.call((cf, 'open_link'), uri)
    check_failed_notification(c, "Couldn't load link driver: " if claimed else 'No driver found or malformed URI: ' + uri)
    c.ensure('nothing-opened', "all(e[0] in ('get_serials', 'serial_devices') or e[0].startswith('connection_') for e in trace)")


LENIENT = ['radio://0/80/3M', 'radio://0/80/2M/E7E7E7E7E7/extra', 'radio://0/+80', 'radio://0/8_0']


@contract('C20', 'drivers.malformed-radio-uri-accepted', [CRTP + ':get_link_driver', PARSE],
          clause='a radio URI outside the documented grammar radio://<dongle>/<channel>/[250K,1M,2M]/<address> (unknown data-rate '
                 'token, extra path segment, signed or underscored channel) is malformed: it yields no driver and no dongle is opened',
          bounded='the %d URIs of LENIENT' % len(LENIENT))
def lenient(c):
    # FINDING on the unchanged tree (kept, thorough tier only until triaged): all four are accepted and dongle 0 is opened
    uri = LENIENT[c.choice('uri_index', list(range(len(LENIENT))))]
    hardware(c)
    driver_list(c, False)
    c.reset_trace()
    c.call(CRTP + ':get_link_driver', uri, c.ext('stat_cb'), c.ext('err_cb'))
    c.ensure('no-driver', 'raised is not None or result is None')
    c.ensure('no-dongle-opened', "len(sent('RadioManager.open')) == 0")


@contract('C20', 'radio.scan-selected-roundtrip', [RAD + ':RadioDriver.scan_selected', PARSE],
          clause='scan_selected asks the radio for the channel and data rate of each given URI and every URI it reports parses back '
                 'to dongle 0, the channel and the data rate that answered and the default address',
          bounded='two URIs to scan (one with, one without a data rate), one answer with symbolic channel 0..125 and rate code 0..2')
def scan_selected(c):
    ch, dr = c.int('ch', 0, 125), c.int('dr', 0, 2)
    answer = c.dict([('channel', ch), ('datarate', dr)])
    radio = radio_hardware(c, returns={'scan_selected': lambda *_a: (answer,)})
    drv = c.new(RAD + ':RadioDriver')
    c.call((drv, 'connect'), 'radio://0/80/2M', c.ext('stat_cb'), c.ext('err_cb'))
    c.require('raised is None')
    c.reset_trace()
    c.call((drv, 'scan_selected'), ('radio://0/10/250K', 'radio://0/125'))
    c.ensure('no-exception', 'raised is None')
    if c.get('raised') is not None:
        return
    c.ensure('asked-for-the-given-channels-and-rates', "len(sent('radio.scan_selected')) == 1 and tuple(sent('radio.scan_selected')[0][1][0]) == "
             "({'channel': 10, 'datarate': 0}, {'channel': 125, 'datarate': 2})")
    c.ensure('one-uri-per-answer', 'len(result) == 1')
    c.snapshot('u', 'result[0]')
    c.call(PARSE, c.get('u'))
    c.ensure('parses-back', 'raised is None')
    if c.get('raised') is None:
        c.ensure('dongle-channel-rate-address', 'result[0] == 0 and result[1] == ch and result[2] == dr and tuple(result[3]) == %r '
                 'and result[4] is None' % (E7,))
