"""C20 - link URIs select the right driver and parse to the right radio settings.

Specification sources (independent of the code): the property statement; the documented radio URI grammar
radio://<dongle>/<channel>/[250K,1M,2M]/<address>[?rate_limit=<n>] with defaults channel 2, 2M, address E7E7E7E7E7; the
Crazyradio numbering of the data rates (0 = 250K, 1 = 1M, 2 = 2M, RATE_CODE below); the address is sent to the radio most
significant byte first, i.e. in the order the hex digits are written, a short address being the low-order digits.

Covered (design section C20, clause -> contracts)
  1 parse_uri on shaped strings ........ parse_uri.index-dongle.<d>.<c> (27 contracts = dongle digits 1..9 x channel digits 1..3,
                                         inside: rate absent / 250K / 1M / 2M, address absent / 1..10 hex digits of either case,
                                         rate_limit absent / 1 / 3 digits [thorough: 2 / 6 and 4 / 5 / 9 digits]; every character of
                                         every field is symbolic), parse_uri.trailing-slash.<c>, parse_uri.serial-dongle.10/.16
                                         [thorough: 11..15, 17, 20, 24 characters] (serial-number dongle ids through the stubbed
                                         crazyradio.get_serials), parse_uri.omitted-channel (radio://<dongle> alone; repaired in /repo
                                         by 627c393), parse_uri.other-options (other query options around rate_limit),
                                         parse_uri.second-parse (history: the defaults survive a parse with explicit fields, earlier
                                         results are not changed by later parses)
    settings applied to the radio ...... radio.connect [thorough: 2- and 9-digit dongle index, every address length],
                                         radio.reconnect (history connect / close / connect / pause / restart on ONE driver: nothing
                                         of the first URI survives), radio.uri-to-dongle (real RadioManager / _SharedRadio /
                                         _SharedRadioInstance, only the USB class Crazyradio is a stub: the dongle NUMBER of the URI is
                                         the one opened and re-opened, and a frame leaves through that dongle after it was given the
                                         channel, rate and address of the URI; two links, equal and different dongle numbers)
    the URI of the environment ......... uri_helper.address_from_env.<1..10> (agrees with parse_uri on the same URI),
                                         uri_helper.uri_from_env, uri_helper.unset-variable (the library defaults name the same link),
                                         uri_helper.address_from_env.omitted-or-option (CANDIDATE FINDING, see below)
  2 scan round trip .................... radio.scan-roundtrip (real scan_interface, every reported URI is parsed back, every 40-bit
                                         address), radio.scan-roundtrip.answers-<a>-<b>-<c> (a / b / c Crazyflies answer at 250K / 1M /
                                         2M, each on its own symbolic channel; quick: 1-0-2 and 0-2-1, thorough: every combination of
                                         0..2 answers), scan.scan_interfaces (real scan_interfaces over the real
                                         driver list: nothing lost / twice, every reported URI - radio, usb, serial, prrt - is claimed by
                                         the driver of its scheme and the radio URIs CONNECT to the scanned channel, rate and address),
                                         radio.scan-selected-roundtrip, radio.scan-selected.bootloader-uris.<n> (URIs with an address
                                         field, n answers), radio.scan-selected-roundtrip.address (CANDIDATE FINDING, see below)
  3 one driver per scheme .............. drivers.foreign-uri.<Driver> (for all URIs not starting with the driver's own prefix:
                                         WrongUriType before any side effect; this replaces the design's "extract the regex
                                         literals and show them pairwise disjoint" by the stronger statement about the code)
                                         [thorough: every length 0..40], drivers.first-accepting-driver (the get_link_driver loop over
                                         symbolic driver behaviour, lists of 0..3 [thorough: 4..7] drivers), drivers.init_drivers,
                                         drivers.selection (real list, real drivers, the URIs of SELECTION x serial on/off; incl.
                                         malformed usb URIs and two serial ports), drivers.prrt-binding-installed (the optional binding
                                         as a stub: the prrt scheme is claimed, address / port / delay), drivers.malformed-claimed,
                                         drivers.malformed-radio-uri-accepted (KNOWN FINDING, see below)
  4 open_link .......................... open_link.driver-lookup-fails (any lookup outcome) [thorough: more lengths and exception
                                         types], open_link.unknown-or-malformed (real lookup), open_link.twice (second failed attempt on
                                         the same Crazyflie)

Findings on the unchanged tree (contracts kept; `thorough_only` so that the quick tier stays green until they are triaged as a
fix or a known_findings.json entry - `./vcheck C20 thorough` reports them as VIOLATION with a native replay):
  * drivers.malformed-radio-uri-accepted (listed in known_findings.json, reported by both tiers): radio://0/80/3M,
    radio://0/80/2M/E7E7E7E7E7/extra, radio://0/+80, radio://0/8_0 are accepted (2M resp. channel 80) and dongle 0 is opened, where
    the property wants "no driver" for a malformed URI.
  * CANDIDATE uri_helper.address_from_env.omitted-or-option: address_from_env disagrees with parse_uri on well-formed radio URIs
    whose last path segment is not the address: CFLIB_URI=radio://0/80 -> 0x80 (the channel read as address), radio://0 -> 0,
    radio://0/80/2M -> None, radio://0/80/2M/E7E7E7E701?rate_limit=10 -> None, radio://0/80/2M/E7E7E7E701/ -> None (parse_uri:
    E7E7E7E7E7 resp. E7E7E7E701).
  * CANDIDATE radio.scan-selected-roundtrip.address: scan_selected on a link connected to a non-default address reports URIs
    without address field; they parse back to E7E7E7E7E7, not to the address that was scanned.
  (parse_uri.omitted-channel was a finding of the build round; it is repaired in /repo and the contract is green in both tiers.)

Assumptions / stubs
  * urllib.parse.urlparse / parse_qs, re.search, binascii.unhexlify, str.strip(chars), str.format fill/align are partial models
    of CPython 3.12 in pyvc/models_uri.py (anything outside them is OutOfSubset = undecided); every proved path is re-run
    natively on a witness (concordance).
  * crazyradio.get_serials(), RadioManager, _RadioDriverThread, CfUsb, the CPX / socket / UART transports, the receive threads
    and SerialDriver.get_devices are recording stubs (c.patch) in both back ends; the prrt python binding is absent
    (prrt_installed False, as in the sandbox) except in drivers.prrt-binding-installed / scan.scan_interfaces where it is a
    recording stub; os.getenv('USE_CFLINK') is None; os.environ of uri_helper is a dictionary of the contract.
  * radio.uri-to-dongle: Crazyradio (USB) is a recording stub that keeps the library's DR_* constants; Queue / Semaphore are the
    sequential models, the shared radio thread runs when the contract says so (after each queued command).
  * Crazyflie objects for open_link are assembled with c.obj (constructor starts threads), callers are recording stubs.

Not covered
  * USE_CFLINK=cpp (CfLinkCppDriver: native C++ binding, not in the sandbox); the connection set-up that follows a successful
    open_link (C02); the packet transport of the non-radio drivers (receive_packet / send_packet / close / receive threads of
    usb, tcp, udp, serial, prrt: no clause of this property - C01 covers the radio transport); get_interfaces_status / get_status /
    get_name (status texts), set_retries (auto-retry count, not part of a URI), RadioManager.remove (no caller),
    Crazyflie.link_quality_updated (deprecated alias), SerialDriver.get_devices (pyserial enumeration, hardware).
  * URI lengths: strings have concrete lengths in this engine, so every "for all URIs" is a for-all over characters for each of
    an enumerated set of shapes (complete for dongle / channel / address digit counts; bounded for rate_limit digits and for
    the lengths of foreign URIs - said in `bounded=`); channel values are all 1..3 digit numbers (a superset of 0..125).
  * usb / tcp / udp / serial / prrt URIs are enumerated concrete strings (SELECTION, MALFORMED, PRRT_URIS): the regular
    expressions of those drivers are only modelled for concrete subjects.
  * init_drivers called twice duplicates the driver list (every scan result would be reported twice); get_link_driver still
    returns the first driver of the scheme, so no clause of the property is violated - not put under contract.
"""
from pyvc.api import contract

RAD = 'cflib.crtp.radiodriver'
PARSE = RAD + ':RadioDriver.parse_uri'

# data-rate codes of the Crazyradio dongle (SET_DATA_RATE vendor request): the radio's numbering, stated here
# independently of cflib.drivers.crazyradio
RATE_CODE = {'250K': 0, '1M': 1, '2M': 2}
E7 = (0xE7,) * 5


def hv(ch):
    """spec text: value of the hex digit character expression `ch` (either case)"""
    return '(ord({0}) - 48 if ord({0}) <= 57 else (ord({0}) - 55 if ord({0}) <= 70 else ord({0}) - 87))'.format(ch)


def address_spec(name, n):
    """spec text: the 5 address bytes, most significant first, of the n-digit hex string `name` left-padded with zeros"""
    digs = ['0'] * (10 - n) + [hv('%s[%d]' % (name, i)) for i in range(n)]
    return '(' + ', '.join('16 * %s + %s' % (digs[2 * i], digs[2 * i + 1]) for i in range(5)) + ')'


def hexstr(c, name, n):
    s = c.str(name, n, 48, 102)
    if n:
        c.require('all(48 <= ord(ch) <= 57 or 65 <= ord(ch) <= 70 or 97 <= ord(ch) <= 102 for ch in %s)' % name)
    return s


def radio_uri(c, dongle_expr, nch, slash=(False,), limits=(0, 1, 3)):
    """Declares the inputs of one shape of radio URI after the dongle id and returns (uri spec text, expectations).
    nch = number of channel digits (0: no path at all)"""
    exp = {'channel': '2', 'rate': '2', 'address': repr(E7), 'limit': None}
    uri = "'radio://' + " + dongle_expr
    if nch:
        c.str('chan', nch, 48, 57)
        uri += " + '/' + chan"
        exp['channel'] = 'int(chan)'
        rate = c.choice('rate', [None, '250K', '1M', '2M'])
        if rate is not None:
            uri += " + '/%s'" % rate
            exp['rate'] = str(RATE_CODE[rate])
            na = c.choice('address_digits', list(range(0, 11)))
            if na:
                hexstr(c, 'addr', na)
                uri += " + '/' + addr"
                exp['address'] = address_spec('addr', na)
    if c.choice('trailing_slash', list(slash)):
        uri += " + '/'"
    nq = c.choice('rate_limit_digits', list(limits))
    if nq:
        c.str('rl', nq, 48, 57)
        uri += " + '?rate_limit=' + rl"
        exp['limit'] = 'int(rl)'
    return uri, exp


def check_parse(c, devid_expr, exp):
    c.ensure('no-exception', 'raised is None')
    if c.get('raised') is None:
        c.ensure('five-fields', 'len(result) == 5')
        c.ensure('dongle', 'result[0] == ' + devid_expr)
        c.ensure('channel', 'result[1] == ' + exp['channel'])
        c.ensure('data-rate', 'result[2] == ' + exp['rate'])
        c.ensure('address-bytes-in-written-order-left-zero-padded', 'tuple(result[3]) == ' + exp['address'])
        c.ensure('rate-limit', 'result[4] is None' if exp['limit'] is None else 'result[4] == ' + exp['limit'])


def _numeric(nd, nch, limits=(0, 1, 3), suffix='', **opts):
    @contract('C20', 'parse_uri.index-dongle.%d.%d%s' % (nd, nch, suffix), [PARSE],
              clause='parse_uri returns (dongle, channel, rate, address, rate limit) of every well-formed radio URI with a '
                     '%d-digit dongle index and a %d-digit channel; rate and address present or omitted, address of 1..10 hex '
                     'digits of either case, rate_limit option absent or present' % (nd, nch),
              bounded='rate_limit value of %s digits' % ' or '.join(str(x) for x in limits if x), max_paths=6000, **opts)
    def k(c):
        c.str('dongle', nd, 48, 57)
        uri, exp = radio_uri(c, 'dongle', nch, limits=limits)
        c.snapshot('uri', uri)
        c.call(PARSE, c.get('uri'))
        check_parse(c, 'int(dongle)', exp)
    return k


for _nd in range(1, 10):            # the code's own split between index and serial number is len(dongle) < 10
    for _nch in (1, 2, 3):
        _numeric(_nd, _nch)
        _numeric(_nd, _nch, limits=(2, 6), suffix='.long-rate-limit', thorough_only=True)
        _numeric(_nd, _nch, limits=(4, 5, 9), suffix='.rate-limit-4-5-9', thorough_only=True)


def _trailing_slash(nch):
    @contract('C20', 'parse_uri.trailing-slash.%d' % nch, [PARSE],
              clause='a trailing slash after the last field changes nothing (%d-digit channel)' % nch,
              bounded='1-digit dongle; rate_limit value of 1 or 3 digits', max_paths=6000)
    def k(c):
        c.str('dongle', 1, 48, 57)
        uri, exp = radio_uri(c, 'dongle', nch, slash=(True,))
        c.snapshot('uri', uri)
        c.call(PARSE, c.get('uri'))
        check_parse(c, 'int(dongle)', exp)
    return k


for _nch in (1, 2, 3):
    _trailing_slash(_nch)


@contract('C20', 'parse_uri.omitted-channel', [PARSE],
          clause='omitted trailing fields take their defaults: a URI that names only the dongle (radio://<dongle>, with or '
                 'without trailing slash / rate_limit option) parses to channel 2, 2M, address E7E7E7E7E7',
          bounded='dongle index of 1, 2 or 9 digits; rate_limit value of 1 or 3 digits')
def omitted_channel(c):
    # was a finding of the build round (every one of these URIs raised ValueError: int('') in parse_uri, ''.split('/') == ['']),
    # repaired in /repo by 627c393; e.g. radio://0, radio://0/, radio://0?rate_limit=5
    c.str('dongle', c.choice('dongle_digits', [1, 2, 9]), 48, 57)
    uri, exp = radio_uri(c, 'dongle', 0, slash=(False, True))
    c.snapshot('uri', uri)
    c.call(PARSE, c.get('uri'))
    check_parse(c, 'int(dongle)', exp)


# ------------------------------------------------------------------------- serial-number dongle ids

SERIALS = ('E7E7E7E7E7', 'ABCDEF0123', '0123456789', '4000000012', '00000000000000A1', 'E7E7E7E7E7')
CRZ = 'cflib.drivers.crazyradio'


def plugged_in(c, serials=SERIALS):
    """the dongles that are plugged in (USB enumeration is hardware: stubbed)"""
    c.let('SERIALS', tuple(serials))
    c.patch(CRZ + ':get_serials', c.ext('get_serials', returns={'()': lambda *_a: tuple(serials)}))


def _serial(n, serials=SERIALS, **opts):
    @contract('C20', 'parse_uri.serial-dongle.%d' % n, [PARSE],
              clause='a dongle id that is a serial number (10 or more characters) selects the plugged-in dongle with that '
                     'serial number, compared case-insensitively, also when the serial consists of decimal digits only; an '
                     'unknown serial is an error; the other fields parse as usual',
              bounded='serial numbers of %d characters [0-9A-Za-z]; the enumerated dongles are %r (one of '
                      'them listed twice: the first one is taken); rest of the URI: /<2 digits>/<rate>/<10 hex digits>' % (n, serials), **opts)
    def k(c):
        plugged_in(c, serials)
        c.str('dongle', n, 48, 122)
        c.require('all(48 <= ord(ch) <= 57 or 65 <= ord(ch) <= 90 or 97 <= ord(ch) <= 122 for ch in dongle)')
        c.str('chan', 2, 48, 57)
        hexstr(c, 'addr', 10)
        rate = c.choice('rate', ['250K', '1M', '2M'])
        c.snapshot('uri', "'radio://' + dongle + '/' + chan + '/%s/' + addr" % rate)
        c.call(PARSE, c.get('uri'))
        c.snapshot('wanted', 'dongle.upper()')
        c.ensure('found-iff-plugged-in', 'iff(raised is None, any(s == wanted for s in SERIALS))')
        if c.get('raised') is None:
            c.ensure('index-of-first-dongle-with-that-serial',
                     'forall(range(len(SERIALS)), lambda i: implies(SERIALS[i] == wanted and '
                     'all(SERIALS[j] != wanted for j in range(i)), result[0] == i))')
            c.ensure('is-an-index', 'isinstance(result[0], int) and 0 <= result[0] < len(SERIALS)')
            c.ensure('channel', 'result[1] == int(chan)')
            c.ensure('data-rate', 'result[2] == %d' % RATE_CODE[rate])
            c.ensure('address-bytes-in-written-order-left-zero-padded', 'tuple(result[3]) == ' + address_spec('addr', 10))
            c.ensure('rate-limit', 'result[4] is None')
        else:
            c.ensure('error-not-wrong-uri-type', "raised == 'Exception'")
    return k


for _n in (10, 16):
    _serial(_n)
for _n in (11, 12, 13, 14, 15, 17, 20, 24):       # other lengths: two plugged-in dongles have a serial number of that length
    _serial(_n, serials=SERIALS[:2] + (('9876543210' * 3)[:_n], ('ABCDEFGHIJKLMNOPQRSTUVWXYZ0123456789')[:_n]) + SERIALS[2:], thorough_only=True)


# ------------------------------------------------------------------------- RadioDriver.connect applies the parsed settings

def radio_hardware(c, version=0.53, returns=None):
    """RadioManager (shared USB dongle + its service thread) and the link thread are hardware / threads: recording stubs"""
    radio = c.ext('radio', attrs={'version': version}, returns=returns or {})
    c.patch(RAD + ':RadioManager', c.ext('RadioManager', returns={'open': lambda *_a: radio}))
    thread = c.ext('link_thread')
    c.patch(RAD + ':_RadioDriverThread', c.ext('_RadioDriverThread', returns={'()': lambda *_a: thread}))
    return radio


def _radio_connect(name, nd, addr_digits, rl_digits, **opts):
  @contract('C20', name, [RAD + ':RadioDriver.connect', RAD + ':RadioDriver.__init__', PARSE],
          clause='connecting to a radio URI opens exactly the named dongle once and applies exactly the channel, data rate '
                 'and address of the URI to it; the rate limit of the URI is the one handed to the link thread',
          bounded='%d-digit dongle index, rate_limit absent or of %s digits, address absent or of %s hex digits '
                  '(all URI shapes are covered for parse_uri itself by the parse_uri.* contracts)' % (
                      nd, ' / '.join(map(str, rl_digits)), ' / '.join(map(str, addr_digits))), max_paths=6000, **opts)
  def radio_connect(c):
    radio = radio_hardware(c)
    c.str('dongle', nd, 48, 57)
    nch = c.choice('channel_digits', [1, 2, 3])
    exp = {'channel': '2', 'rate': '2', 'address': repr(E7), 'limit': 'None'}
    uri = "'radio://' + dongle"
    c.str('chan', nch, 48, 57)
    uri += " + '/' + chan"
    exp['channel'] = 'int(chan)'
    rate = c.choice('rate', [None, '250K', '1M', '2M'])
    if rate is not None:
        uri += " + '/%s'" % rate
        exp['rate'] = str(RATE_CODE[rate])
        na = c.choice('address_digits', [0] + list(addr_digits))
        if na:
            hexstr(c, 'addr', na)
            uri += " + '/' + addr"
            exp['address'] = address_spec('addr', na)
    nrl = c.choice('rate_limit_digits', [0] + list(rl_digits))
    if nrl:
        c.str('rl', nrl, 48, 57)
        uri += " + '?rate_limit=' + rl"
        exp['limit'] = 'int(rl)'
    c.snapshot('uri', uri)
    drv = c.new(RAD + ':RadioDriver')
    c.let('drv', drv)
    c.let('stat_cb', c.ext('stat_cb'))
    c.let('err_cb', c.ext('err_cb'))
    c.reset_trace()
    c.call((drv, 'connect'), c.get('uri'), c.get('stat_cb'), c.get('err_cb'))
    c.ensure('no-exception', 'raised is None')
    if c.get('raised') is None:
        c.ensure('exactly-the-named-dongle-opened-once',
                 "len(sent('RadioManager.open')) == 1 and sent('RadioManager.open')[0][1] == (int(dongle),)")
        c.ensure('channel-applied-once', "len(sent('radio.set_channel')) == 1 and sent('radio.set_channel')[0][1] == (%s,)" % exp['channel'])
        c.ensure('data-rate-applied-once', "len(sent('radio.set_data_rate')) == 1 and sent('radio.set_data_rate')[0][1] == (%s,)" % exp['rate'])
        c.ensure('address-applied-once', "len(sent('radio.set_address')) == 1 and tuple(sent('radio.set_address')[0][1][0]) == %s" % exp['address'])
        c.ensure('nothing-else-on-the-radio', "all(n in ('radio.set_channel', 'radio.set_data_rate', 'radio.set_address', 'radio.set_arc') "
                 "for n in calls('radio.'))")
        c.ensure('settings-before-link-thread', "calls('')[-2:] == ('_RadioDriverThread', 'link_thread.start')")
        c.ensure('link-thread-gets-radio-and-rate-limit', "len(sent('_RadioDriverThread')) == 1 and "
                 "is_same(sent('_RadioDriverThread')[0][1][0], radio) and sent('_RadioDriverThread')[0][1][6] == %s and "
                 "is_same(sent('_RadioDriverThread')[0][1][4], err_cb)" % exp['limit'])
        c.ensure('driver-state', "drv.uri == uri and drv.rate_limit == %s" % exp['limit'])
  return radio_connect


_radio_connect('radio.connect', 1, (1, 10), (2,))
_radio_connect('radio.connect.dongle-2-digits', 2, tuple(range(1, 11)), (1, 3, 5), thorough_only=True)
_radio_connect('radio.connect.dongle-9-digits', 9, tuple(range(1, 11)), (1, 3, 5), thorough_only=True)


# ------------------------------------------------------------------------- scanning reports URIs that parse back

def be40(x):
    return '(%s)' % ', '.join('%s // %d %% 256' % (x, 256 ** (4 - i)) for i in range(5))


@contract('C20', 'radio.scan-roundtrip', [RAD + ':RadioDriver.scan_interface', RAD + ':RadioDriver._scan_radio_channels', PARSE],
          clause='every URI reported by a scan parses back to dongle 0, the channel that answered, the data rate the radio was '
                 'set to for that scan and the address that was scanned (the address given, most significant byte first, or '
                 'E7E7E7E7E7); the address is applied to the radio before scanning',
          bounded='one answering channel per data rate (the same symbolic channel 0..125 in the three scans)', max_paths=3000)
def scan_roundtrip(c):
    plugged_in(c)
    ch = c.int('ch', 0, 125)
    radio = radio_hardware(c, returns={'scan_channels': lambda *_a: (ch,)})
    given = c.choice('address_given', [False, True])
    address = c.int('address', 0, 2 ** 40 - 1) if given else c.let('address', None)
    drv = c.new(RAD + ':RadioDriver')
    c.reset_trace()
    c.call((drv, 'scan_interface'), address)
    c.ensure('no-exception', 'raised is None')
    if c.get('raised') is not None:
        return
    c.snapshot('found', 'result')
    c.snapshot('scan_trace', 'trace')
    c.snapshot('want_addr', be40('address') if given else repr(E7))
    c.ensure('radio-sequence', "tuple(e[0] for e in scan_trace if e[0].startswith('radio.')) == "
             + repr((('radio.set_address',) if given else ()) + ('radio.set_arc',) + ('radio.set_data_rate', 'radio.scan_channels') * 3
                    + ('radio.close',)))
    c.ensure('rates-scanned-in-order', "tuple(e[1] for e in scan_trace if e[0] == 'radio.set_data_rate') == ((0,), (1,), (2,))")
    if given:
        c.ensure('address-applied-before-scanning', "tuple([e for e in scan_trace if e[0] == 'radio.set_address'][0][1][0]) == want_addr")
    c.ensure('all-channels-scanned', "all(e[1][0] == 0 and e[1][1] == 125 for e in scan_trace if e[0] == 'radio.scan_channels')")
    c.ensure('one-uri-per-answer', 'len(found) == 3')
    for k in range(3):
        c.snapshot('u', 'found[%d][0]' % k)
        c.call(PARSE, c.get('u'))
        c.ensure('scan-%d-parses-back' % k, 'raised is None')
        if c.get('raised') is None:
            c.ensure('scan-%d-dongle-channel-rate' % k, 'result[0] == 0 and result[1] == ch and result[2] == %d and result[4] is None' % k)
            c.ensure('scan-%d-address' % k, 'tuple(result[3]) == want_addr')


# ------------------------------------------------------------------------- one driver per scheme

CRTP = 'cflib.crtp'
USB = 'cflib.crtp.usbdriver'
TCP = 'cflib.crtp.tcpdriver'
UDP = 'cflib.crtp.udpdriver'
SER = 'cflib.crtp.serialdriver'
PRRT = 'cflib.crtp.prrtdriver'

DRIVERS = {            # driver class -> (module, the scheme prefix it owns)
    'RadioDriver': (RAD, 'radio://'),
    'UsbDriver': (USB, 'usb://'),
    'SerialDriver': (SER, 'serial://'),
    'UdpDriver': (UDP, 'udp://'),
    'PrrtDriver': (PRRT, 'prrt://'),
    'TcpDriver': (TCP, 'tcp://'),
}
# recording stubs that stand for the hardware / sockets / threads each driver opens once it has accepted a URI
HARDWARE_OF = {
    'RadioDriver': ('RadioManager', 'radio', '_RadioDriverThread', 'link_thread'),
    'UsbDriver': ('CfUsb', 'cfusb', '_UsbReceiveThread', 'usb_thread'),
    'SerialDriver': ('serial_devices', 'UARTTransport', 'serial_CPX', 'serial_cpx', 'serial_thread_cls', 'serial_thread'),
    'UdpDriver': ('udp_socket_module', 'udp_socket'),
    'PrrtDriver': ('prrt', 'prrt_socket'),
    'TcpDriver': ('SocketTransport', 'tcp_CPX', 'tcp_cpx', 'tcp_thread_cls', 'tcp_thread'),
}


SERIAL_PORTS = (('ttyACM1', '/dev/ttyACM1'), ('ttyUSB0', '/dev/ttyUSB0'))       # port name -> device, as SerialDriver.get_devices reports them


def hardware(c, radio_returns=None, cfusb_factory=None, prrt=False):
    """every constructor through which a driver reaches hardware, a socket or a thread is a recording stub; the python
    prrt binding is not installed (as in the sandbox) unless prrt=True (then it is a recording stub as well)"""
    radio_hardware(c, returns=radio_returns)
    plugged_in(c)
    cfusb = c.ext('cfusb', attrs={'dev': True})
    usb_thread = c.ext('usb_thread')
    c.patch(USB + ':CfUsb', c.ext('CfUsb', returns={'()': cfusb_factory or (lambda *_a: cfusb)}))
    c.patch(USB + ':_UsbReceiveThread', c.ext('_UsbReceiveThread', returns={'()': lambda *_a: usb_thread}))
    tcp_cpx, tcp_thread = c.ext('tcp_cpx'), c.ext('tcp_thread')
    c.patch(TCP + ':SocketTransport', c.ext('SocketTransport'))
    c.patch(TCP + ':CPX', c.ext('tcp_CPX', returns={'()': lambda *_a: tcp_cpx}))
    c.patch(TCP + ':_CPXReceiveThread', c.ext('tcp_thread_cls', returns={'()': lambda *_a: tcp_thread}))
    udp_socket = c.ext('udp_socket')
    c.patch(UDP + ':socket', c.ext('udp_socket_module', attrs={'AF_INET': 2, 'SOCK_DGRAM': 2}, returns={'socket': lambda *_a: udp_socket}))
    ser_cpx, ser_thread = c.ext('serial_cpx'), c.ext('serial_thread')
    c.patch(SER + ':SerialDriver.get_devices', c.ext('serial_devices', returns={'()': lambda *_a: c.dict(list(SERIAL_PORTS))}))
    c.patch(SER + ':UARTTransport', c.ext('UARTTransport'))
    c.patch(SER + ':CPX', c.ext('serial_CPX', returns={'()': lambda *_a: ser_cpx}))
    c.patch(SER + ':_CPXReceiveThread', c.ext('serial_thread_cls', returns={'()': lambda *_a: ser_thread}))
    if prrt:
        prrt_socket = c.ext('prrt_socket')
        c.patch(PRRT + ':prrt', c.ext('prrt', returns={'PrrtSocket': lambda *_a: prrt_socket}), create=True)
    c.patch(PRRT + ':prrt_installed', bool(prrt))


FOREIGN_LENGTHS = (0, 1, 3, 5, 6, 7, 8, 9, 10, 12, 16)
FOREIGN_LENGTHS_THOROUGH = tuple(n for n in range(0, 41) if n not in FOREIGN_LENGTHS)


def _foreign(driver, FOREIGN_LENGTHS=FOREIGN_LENGTHS, suffix='', **opts):
    mod, prefix = DRIVERS[driver]

    @contract('C20', 'drivers.foreign-uri.' + driver + suffix, [mod + ':%s.connect' % driver, mod + ':%s.__init__' % driver],
              clause='%s.connect refuses every URI that does not start with its own scheme prefix %r with WrongUriType, before '
                     'any side effect (nothing opened, driver state untouched) - so no URI of another or of an unknown scheme '
                     'is ever claimed by this driver' % (driver, prefix),
              bounded='URIs of length %s over the printable ASCII characters (each character free)' % (FOREIGN_LENGTHS,), **opts)
    def k(c):
        hardware(c)
        n = c.choice('length', list(FOREIGN_LENGTHS))
        c.str('uri', n)
        c.require('not uri.startswith(%r)' % prefix)
        drv = c.new(mod + ':' + driver)
        c.let('drv', drv)
        c.snapshot('fields_before', 'dict(drv.__dict__)')
        c.reset_trace()
        c.call((drv, 'connect'), c.get('uri'), c.ext('stat_cb'), c.ext('err_cb'))
        c.ensure('wrong-uri-type', "raised == 'WrongUriType'")
        c.ensure('nothing-opened', 'len(trace) == 0')
        c.ensure('driver-untouched', 'dict(drv.__dict__) == fields_before')
    return k


for _d in DRIVERS:
    _foreign(_d)
    _foreign(_d, FOREIGN_LENGTHS_THOROUGH, suffix='.more-lengths', thorough_only=True)


def driver_list(c, serial):
    """the driver list as the real init_drivers builds it (USE_CFLINK unset: the python drivers)"""
    c.patch(CRTP + ':os', c.ext('os', returns={'getenv': lambda *_a: None}))
    c.patch(CRTP + ':CLASSES', c.list([]))
    c.call(CRTP + ':init_drivers', enable_serial_driver=serial)
    c.require('raised is None')


@contract('C20', 'drivers.init_drivers', [CRTP + ':init_drivers'],
          clause='the driver list holds each python driver exactly once, with and without the optional serial driver')
def init_drivers(c):
    serial = c.choice('enable_serial_driver', [False, True])
    debug = c.choice('enable_debug_driver', [False, True])
    c.patch(CRTP + ':os', c.ext('os', returns={'getenv': lambda *_a: None}))
    c.let('classes', c.patch(CRTP + ':CLASSES', c.list([])))
    c.call(CRTP + ':init_drivers', debug, serial)
    c.ensure('no-exception', 'raised is None')
    c.ensure('driver-list', '[k.__name__ for k in classes] == %r' % (
        ['RadioDriver', 'UsbDriver'] + (['SerialDriver'] if serial else []) + ['UdpDriver', 'PrrtDriver', 'TcpDriver'],))


# URI -> the driver that must be selected / None (no driver) / the error of the one driver that claims the scheme
SELECTION = [
    ('radio://0/80/2M/E7E7E7E7E7', 'RadioDriver'), ('radio://1/5', 'RadioDriver'),
    ('usb://0', 'UsbDriver'), ('usb://12', 'UsbDriver'),
    ('udp://127.0.0.1:7777', 'UdpDriver'),
    ('tcp://192.168.4.1:5000', 'TcpDriver'),
    ('serial://ttyUSB0', 'SerialDriver'), ('serial://ttyACM1', 'SerialDriver'),
    ('prrt://10.0.0.1:5000', 'PrrtDriver'),
    ('bogus://something', None), ('radiox://0/80/2M', None), ('', None), ('RADIO://0/80/2M', None), (' usb://0', None),
    ('xtcp://1.2.3.4:5', None), ('tcp:/1.2.3.4:5', None), ('debug://0/0', None), ('0', None), ('://', None),
    # a usb URI is usb://<decimal index> and nothing else: everything else of that scheme is malformed = no driver
    ('usb://007', 'UsbDriver'), ('usb://', None), ('usb://a', None), ('usb://0/1', None), ('usb://0 ', None), ('usb://-1', None),
    ('usb://0x1', None), ('usb://1?x=2', None), ('usb:/0', None), ('USB://0', None), ('udp:/127.0.0.1:7777', None), ('prrt:/10.0.0.1:5000', None),
    ('serial:/ttyUSB0', None),
]


@contract('C20', 'drivers.selection', [CRTP + ':get_link_driver', CRTP + ':init_drivers'] + [
          '%s:%s.connect' % (DRIVERS[d][0], d) for d in DRIVERS],
          clause='with the real driver list (with and without the serial driver) every scheme is claimed by exactly its own '
                 'driver: get_link_driver returns an instance of that driver and only that driver touches hardware; an unknown '
                 'scheme yields None and nothing is opened',
          bounded='the %d URIs of SELECTION (for all URIs: drivers.foreign-uri.* and drivers.first-accepting-driver)' % len(SELECTION))
def selection(c):
    serial = c.choice('enable_serial_driver', [False, True])
    k = c.choice('uri_index', list(range(len(SELECTION))))
    uri, want = SELECTION[k]
    hardware(c)
    driver_list(c, serial)
    if want == 'SerialDriver' and not serial:
        want = None
    c.let('uri', uri)
    c.reset_trace()
    c.call(CRTP + ':get_link_driver', uri, c.ext('stat_cb'), c.ext('err_cb'))
    if want is None:
        c.ensure('no-driver', 'raised is None and result is None')
        c.ensure('nothing-opened', 'len(trace) == 0')
    elif want == 'PrrtDriver':
        # the binding is not installed: the driver that owns the scheme reports it; no other driver is tried afterwards
        c.ensure('claimed-by-prrt-driver', "raised == 'Exception' and str(exc) == 'PRRT is missing'")
        c.ensure('nothing-opened', 'len(trace) == 0')
    else:
        c.ensure('driver-of-the-scheme', "raised is None and typename(result) == %r" % want)
        c.ensure('only-its-hardware', 'len(trace) > 0 and all(e[0].split(".")[0] in %r for e in trace)' % (HARDWARE_OF[want],))
    if want == 'UsbDriver':
        c.ensure('usb-device-index', "len(sent('CfUsb')) == 1 and sent('CfUsb')[0][2] == {'devid': %d}" % int(uri[6:], 10))
    if want == 'TcpDriver':
        c.ensure('tcp-endpoint', "len(sent('SocketTransport')) == 1 and sent('SocketTransport')[0][1] == ('192.168.4.1', 5000)")
    if want == 'UdpDriver':
        c.ensure('udp-endpoint', "len(sent('udp_socket.connect')) == 1 and sent('udp_socket.connect')[0][1] == (('127.0.0.1', 7777),)")
    if want == 'SerialDriver':
        c.ensure('serial-device', "len(sent('UARTTransport')) == 1 and sent('UARTTransport')[0][1][0] == %r" % dict(SERIAL_PORTS)[uri[9:]])


MALFORMED = [      # URIs of a known scheme that its driver must reject; the error is the driver's, no other driver takes over
    ('radio://0/abc', 'ValueError'), ('radio://0/80/2M/E7E7E7E7E7E', 'Error'), ('radio://0/80/2M/E7E7E7E7E7E7', 'struct.error'),
    ('radio://0/80/2M/G7', 'Error'), ('radio://E7E7E7E7E8/80', 'Exception'),
    ('serial://tty USB0', 'Exception'), ('serial://nosuchport', 'Exception'), ('prrt://x', 'Exception'),
    ('radio://0/80/2M/E7E7E7E7E7?rate_limit=abc', 'ValueError'), ('radio://0/1e2', 'ValueError'), ('radio:///80', 'Exception'),
    ('radio://0/80/2M/0xE7', 'Error'), ('serial://', 'Exception'), ('prrt://10.0.0.1', 'Exception'),
    ('prrt://10.0.0.1:5000/1234567', 'Exception'), ('prrt://10.0.0.1:123456', 'Exception'), ('prrt://1000.0.0.1:5000', 'Exception'),
]


@contract('C20', 'drivers.malformed-claimed', [CRTP + ':get_link_driver'],
          clause='a malformed URI of a known scheme yields no driver: the driver that owns the scheme raises, nothing is opened and '
                 'no other driver takes the URI',
          bounded='the %d URIs of MALFORMED, serial driver enabled' % len(MALFORMED))
def malformed_claimed(c):
    k = c.choice('uri_index', list(range(len(MALFORMED))))
    uri, err = MALFORMED[k]
    hardware(c)
    driver_list(c, True)
    c.reset_trace()
    c.call(CRTP + ':get_link_driver', uri, c.ext('stat_cb'), c.ext('err_cb'))
    c.ensure('error-of-the-owning-driver', 'raised == %r' % err)
    c.ensure('nothing-opened', "all(e[0] in ('get_serials', 'serial_devices') for e in trace)")


def stub_driver(c, i, behaviour, WUT):
    """a driver class whose connect() accepts (behaviour 0), raises WrongUriType (1) or fails with another error (2)"""
    def connect(I, args, kwargs):
        if I is None:                                   # native back end: the real exception classes
            if behaviour == 1:
                raise WUT('not mine')
            if behaviour == 2:
                raise RuntimeError('cannot open')
            return None
        from pyvc.core import PyRaise                   # symbolic back end
        if behaviour == 1:
            raise PyRaise(I.call(WUT, ['not mine'], {}))
        if behaviour == 2:
            I.raise_py('RuntimeError', 'cannot open')
        return None
    inst = c.ext('inst%d' % i, returns={'connect': connect})
    return c.ext('Driver%d' % i, returns={'()': lambda *_a: inst}), inst


def _first_accepting(name, sizes, **opts):
  @contract('C20', name, [CRTP + ':get_link_driver'],
          clause='get_link_driver asks the drivers in list order and returns the first instance whose connect does not raise '
                 'WrongUriType, passing the URI and both callbacks through; None if all refuse; another error of a driver ends the '
                 'search with that error; drivers after the selected one are not even instantiated',
          bounded='driver lists of %s drivers, each accepting / refusing / failing' % ' / '.join(map(str, sizes)), max_paths=6000, **opts)
  def first_accepting(c):
    WUT = c.cls('cflib.crtp.exceptions:WrongUriType')
    n = c.choice('drivers', list(sizes))
    beh = [c.choice('behaviour%d' % i, [0, 1, 2]) for i in range(n)]
    stubs = [stub_driver(c, i, beh[i], WUT) for i in range(n)]
    c.patch(CRTP + ':CLASSES', c.list([cls for cls, _ in stubs]))
    c.str('uri', 5)
    c.let('stat_cb', c.ext('stat_cb'))
    c.let('err_cb', c.ext('err_cb'))
    for i, (_, inst) in enumerate(stubs):
        c.let('inst%d' % i, inst)
    c.call(CRTP + ':get_link_driver', c.get('uri'), c.get('stat_cb'), c.get('err_cb'))
    first = [i for i in range(n) if beh[i] != 1]
    tried = n if not first else first[0] + 1
    c.ensure('asked-in-order-up-to-the-first-that-does-not-refuse', 'calls("") == %r' % (
        tuple(x for i in range(tried) for x in ('Driver%d' % i, 'inst%d.connect' % i)),))
    c.ensure('uri-and-callbacks-passed-through', 'all(e[1][0] == uri and is_same(e[1][1], stat_cb) and is_same(e[1][2], err_cb) '
             'for e in trace if e[0].endswith(".connect"))')
    if not first:
        c.ensure('none-when-all-refuse', 'raised is None and result is None')
    elif beh[first[0]] == 0:
        c.ensure('first-accepting-instance', 'raised is None and is_same(result, inst%d)' % first[0])
    else:
        c.ensure('other-error-propagates', "raised == 'RuntimeError'")
  return first_accepting


_first_accepting('drivers.first-accepting-driver', (0, 1, 2, 3))
_first_accepting('drivers.first-accepting-driver.longer-lists', (4, 5, 6, 7), thorough_only=True)   # 7 = the longest real list + 1


# ------------------------------------------------------------------------- open_link: failure is a notification, not an exception

CF = 'cflib.crazyflie'


def crazyflie(c):
    """a Crazyflie with its callers / packet handler / statistics as recording stubs (constructor starts threads and
    builds all sub-systems: out of reach, so the object is assembled field by field)"""
    cf = c.obj(CF + ':Crazyflie', connection_requested=c.ext('connection_requested'), connection_failed=c.ext('connection_failed'),
               link_statistics=c.ext('link_statistics'), incoming=c.ext('incoming'), packet_received=c.ext('packet_received'),
               link=None, link_uri='', state=0)
    c.let('cf', cf)
    return cf


def check_failed_notification(c, prefix):
    c.ensure('no-exception-escapes', 'raised is None')
    c.ensure('connection-failed-exactly-once', "len(sent('connection_failed.call')) == 1")
    if len([e for e in c.get('trace') if e[0] == 'connection_failed.call']) == 1:
        c.snapshot('note', "sent('connection_failed.call')[0][1]")
        c.ensure('notification-names-the-uri', 'len(note) == 2 and note[0] == uri')
        c.ensure('notification-text', 'note[1].startswith(%r)' % prefix)
    c.ensure('requested-then-failed-nothing-else', "calls('connection_') == ('connection_requested.call', 'connection_failed.call')")
    c.ensure('no-link', 'cf.link is None and cf.link_uri == uri')
    c.ensure('connection-not-started', "len(calls('incoming.')) == 0 and len(calls('packet_received.')) == 0")


LOOKUP_OUTCOMES = [None, 'Exception', 'ValueError', 'struct.error', 'KeyError', 'OSError']


def _open_link_lookup_fails(name, lengths, outcomes, **opts):
  @contract('C20', name, [CF + ':Crazyflie.open_link'],
          clause='whatever the driver lookup does for a URI - no driver (None) or any exception - open_link reports exactly one '
                 'connection_failed(uri, text) and lets nothing escape',
          bounded='URIs of %s free printable characters; lookup outcomes: %s' % (' / '.join(map(str, lengths)), ', '.join(map(str, outcomes))), **opts)
  def open_link_lookup_fails(c):
    outcome = c.choice('lookup', list(outcomes))
    c.patch(CRTP + ':get_link_driver', c.ext('get_link_driver', returns={'()': (lambda *_a: None) if outcome is None else c.raiser(outcome, 'boom')}))
    cf = crazyflie(c)
    c.str('uri', c.choice('length', list(lengths)))
    c.call((cf, 'open_link'), c.get('uri'))
    c.ensure('lookup-asked-once-for-the-uri', "len(sent('get_link_driver')) == 1 and sent('get_link_driver')[0][1][0] == uri")
    check_failed_notification(c, 'No driver found or malformed URI: ' if outcome is None else "Couldn't load link driver: ")
  return open_link_lookup_fails


_open_link_lookup_fails('open_link.driver-lookup-fails', (7,), LOOKUP_OUTCOMES)
_open_link_lookup_fails('open_link.driver-lookup-fails.more', (0, 1, 2, 8, 13, 26, 40), LOOKUP_OUTCOMES + [
    'IndexError', 'AttributeError', 'TypeError', 'RuntimeError', 'AssertionError', 'UnicodeDecodeError', 'queue.Empty'], thorough_only=True)


@contract('C20', 'open_link.unknown-or-malformed', [CF + ':Crazyflie.open_link', CRTP + ':get_link_driver'],
          clause='an unknown scheme or a malformed URI of a known scheme given to open_link (real driver lookup, real drivers, with '
                 'and without the serial driver) yields no link, exactly one connection_failed notification and no exception; '
                 'nothing is opened',
          bounded='the unknown-scheme URIs of SELECTION and the URIs of MALFORMED')
def open_link_unknown(c):
    uris = [u for u, want in SELECTION if want is None] + [u for u, _ in MALFORMED]
    serial = c.choice('enable_serial_driver', [False, True])
    uri = uris[c.choice('uri_index', list(range(len(uris))))]
    claimed = uri in [u for u, _ in MALFORMED] and (serial or not uri.startswith('serial://'))
    hardware(c)
    driver_list(c, serial)
    cf = crazyflie(c)
    c.let('uri', uri)
    c.reset_trace()
    c.call((cf, 'open_link'), uri)
    check_failed_notification(c, "Couldn't load link driver: " if claimed else 'No driver found or malformed URI: ' + uri)
    c.ensure('nothing-opened', "all(e[0] in ('get_serials', 'serial_devices') or e[0].startswith('connection_') for e in trace)")


LENIENT = ['radio://0/80/3M', 'radio://0/80/2M/E7E7E7E7E7/extra', 'radio://0/+80', 'radio://0/8_0']


@contract('C20', 'drivers.malformed-radio-uri-accepted', [CRTP + ':get_link_driver', PARSE],
          clause='a radio URI outside the documented grammar radio://<dongle>/<channel>/[250K,1M,2M]/<address> (unknown data-rate '
                 'token, extra path segment, signed or underscored channel) is malformed: it yields no driver and no dongle is opened',
          bounded='the %d URIs of LENIENT' % len(LENIENT))
def lenient(c):
    # FINDING on the unchanged tree (kept, thorough tier only until triaged): all four are accepted and dongle 0 is opened
    uri = LENIENT[c.choice('uri_index', list(range(len(LENIENT))))]
    hardware(c)
    driver_list(c, False)
    c.reset_trace()
    c.call(CRTP + ':get_link_driver', uri, c.ext('stat_cb'), c.ext('err_cb'))
    c.ensure('no-driver', 'raised is not None or result is None')
    c.ensure('no-dongle-opened', "len(sent('RadioManager.open')) == 0")


@contract('C20', 'radio.scan-selected-roundtrip', [RAD + ':RadioDriver.scan_selected', PARSE],
          clause='scan_selected asks the radio for the channel and data rate of each given URI and every URI it reports parses back '
                 'to dongle 0, the channel and the data rate that answered and the default address',
          bounded='two URIs to scan (one with, one without a data rate), one answer with symbolic channel 0..125 and rate code 0..2')
def scan_selected(c):
    ch, dr = c.int('ch', 0, 125), c.int('dr', 0, 2)
    answer = c.dict([('channel', ch), ('datarate', dr)])
    radio = radio_hardware(c, returns={'scan_selected': lambda *_a: (answer,)})
    drv = c.new(RAD + ':RadioDriver')
    c.call((drv, 'connect'), 'radio://0/80/2M', c.ext('stat_cb'), c.ext('err_cb'))
    c.require('raised is None')
    c.reset_trace()
    c.call((drv, 'scan_selected'), ('radio://0/10/250K', 'radio://0/125'))
    c.ensure('no-exception', 'raised is None')
    if c.get('raised') is not None:
        return
    c.ensure('asked-for-the-given-channels-and-rates', "len(sent('radio.scan_selected')) == 1 and tuple(sent('radio.scan_selected')[0][1][0]) == "
             "({'channel': 10, 'datarate': 0}, {'channel': 125, 'datarate': 2})")
    c.ensure('one-uri-per-answer', 'len(result) == 1')
    c.snapshot('u', 'result[0]')
    c.call(PARSE, c.get('u'))
    c.ensure('parses-back', 'raised is None')
    if c.get('raised') is None:
        c.ensure('dongle-channel-rate-address', 'result[0] == 0 and result[1] == ch and result[2] == dr and tuple(result[3]) == %r '
                 'and result[4] is None' % (E7,))


# ------------------------------------------------------------------------- cflib.utils.uri_helper: the URI of the environment

URIH = 'cflib.utils.uri_helper'


def environment(c, pairs):
    """the process environment as uri_helper sees it (os.environ is the only thing it uses of os)"""
    c.patch(URIH + ':os', c.ext('os_module', attrs={'environ': c.dict(list(pairs))}))


def hexvalue_spec(name, n):
    """spec text: the integer written by the n hex digits of the string `name`"""
    return '(' + ' + '.join('%s * %d' % (hv('%s[%d]' % (name, i)), 16 ** (n - 1 - i)) for i in range(n)) + ')'


def _address_from_env(n):
    @contract('C20', 'uri_helper.address_from_env.%d' % n, [URIH + ':address_from_env', PARSE],
              clause='the address that address_from_env reads from the radio URI of the environment is the address of that URI: the '
                     'integer written by its %d hex digits (either case), i.e. most significant byte first the 5 address bytes that '
                     'parse_uri returns for the same URI; for the default and for a caller-chosen variable name' % n,
              bounded='URI shape radio://<1 digit>/<2 digits>/<rate>/<%d hex digits>; another variable of the environment holds a '
                      'different radio URI' % n)
    def k(c):
        c.str('dongle', 1, 48, 57)
        c.str('chan', 2, 48, 57)
        hexstr(c, 'addr', n)
        rate = c.choice('rate', ['250K', '1M', '2M'])
        c.snapshot('uri', "'radio://' + dongle + '/' + chan + '/%s/' + addr" % rate)
        var = c.choice('variable', ['CFLIB_URI', 'OTHER_URI'])
        other = 'OTHER_URI' if var == 'CFLIB_URI' else 'CFLIB_URI'
        environment(c, [('HOME', '/root'), (other, 'radio://0/10/250K/0102030405'), (var, c.get('uri'))])
        if var == 'CFLIB_URI':
            c.call(URIH + ':address_from_env')
        else:
            c.call(URIH + ':address_from_env', env=var)
        c.ensure('address-of-the-uri', 'raised is None and result == ' + hexvalue_spec('addr', n))
        if c.get('raised') is not None:
            return
        c.snapshot('env_address', 'result')
        c.call(PARSE, c.get('uri'))
        c.ensure('agrees-with-parse_uri', 'raised is None and tuple(result[3]) == ' + be40('env_address'))
    return k


for _n in range(1, 11):
    _address_from_env(_n)


@contract('C20', 'uri_helper.unset-variable', [URIH + ':address_from_env', URIH + ':uri_from_env', PARSE],
          clause='without the variable in the environment the helpers return the given default, and the library defaults name the '
                 'same link: the default URI parses to dongle 0, channel 80, 2M and the default address E7E7E7E7E7')
def env_unset(c):
    environment(c, [('HOME', '/root'), ('OTHER_URI', 'radio://0/10/250K/0102030405')])
    c.int('d', 0, 2 ** 40 - 1)
    c.str('du', 12)
    c.call(URIH + ':address_from_env', default=c.get('d'))
    c.ensure('given-default-address', 'raised is None and result == d')
    c.call(URIH + ':uri_from_env', default=c.get('du'))
    c.ensure('given-default-uri', 'raised is None and result == du')
    c.call(URIH + ':address_from_env')
    c.ensure('no-exception', 'raised is None')
    c.snapshot('default_address', 'result')
    c.call(URIH + ':uri_from_env')
    c.ensure('no-exception-uri', 'raised is None')
    c.snapshot('default_uri', 'result')
    c.call(PARSE, c.get('default_uri'))
    c.ensure('default-uri-is-well-formed', 'raised is None and result[0] == 0 and result[1] == 80 and result[2] == 2 and result[4] is None')
    c.ensure('defaults-name-the-same-address', 'tuple(result[3]) == %r and tuple(result[3]) == %s' % (E7, be40('default_address')))


@contract('C20', 'uri_helper.uri_from_env', [URIH + ':uri_from_env'],
          clause='uri_from_env returns the URI of the named environment variable unchanged (default and caller-chosen name), whatever '
                 'other variables hold',
          bounded='URIs of 7, 12 or 26 free printable characters')
def uri_from_env(c):
    c.str('uri', c.choice('length', [7, 12, 26]))
    var = c.choice('variable', ['CFLIB_URI', 'OTHER_URI'])
    other = 'OTHER_URI' if var == 'CFLIB_URI' else 'CFLIB_URI'
    environment(c, [(other, 'radio://0/10/250K/0102030405'), (var, c.get('uri'))])
    if var == 'CFLIB_URI':
        c.call(URIH + ':uri_from_env')
    else:
        c.call(URIH + ':uri_from_env', var)
    c.ensure('the-uri-of-that-variable', 'raised is None and result == uri')
    c.call(URIH + ':uri_from_env', env=var, default='usb://0')
    c.ensure('default-not-used-when-set', 'raised is None and result == uri')


ENV_SHAPES = ['radio://0/80', 'radio://0/80/2M', 'radio://0', 'radio://0/80/2M/E7E7E7E701?rate_limit=10', 'radio://0/80/2M/E7E7E7E701/',
              'radio://0/80/250K/A1?rate_limit=100']


@contract('C20', 'uri_helper.address_from_env.omitted-or-option', [URIH + ':address_from_env', PARSE],
          clause='address_from_env agrees with parse_uri on every well-formed radio URI, also with omitted trailing fields (address '
                 'E7E7E7E7E7), a trailing slash or a query option after the address',
          bounded='the %d URIs of ENV_SHAPES' % len(ENV_SHAPES), thorough_only=True)
def env_shapes(c):
    # CANDIDATE FINDING on the unchanged tree (thorough tier only until triaged): radio://0/80 -> 0x80 (the channel is read as the
    # address), radio://0/80/2M -> None, radio://0 -> 0, ...?rate_limit=10 -> None, trailing slash -> None
    uri = ENV_SHAPES[c.choice('uri_index', list(range(len(ENV_SHAPES))))]
    c.let('uri', uri)
    environment(c, [('CFLIB_URI', uri)])
    c.call(URIH + ':address_from_env')
    c.ensure('no-exception', 'raised is None')
    c.snapshot('env_address', 'result')
    c.call(PARSE, uri)
    c.require('raised is None')
    c.ensure('agrees-with-parse_uri', 'env_address is not None and tuple(result[3]) == ' + be40('env_address'))


# ------------------------------------------------------------------------- scanning all interfaces

CFUSB = 'cflib.drivers.cfusb'
SCAN_FUNCS = [CRTP + ':scan_interfaces', CRTP + ':get_link_driver', RAD + ':RadioDriver.scan_interface', USB + ':UsbDriver.scan_interface',
              CFUSB + ':CfUsb.scan', SER + ':SerialDriver.scan_interface', UDP + ':UdpDriver.scan_interface',
              PRRT + ':PrrtDriver.scan_interface', TCP + ':TcpDriver.scan_interface']


def _scan_interfaces(name, addr_lo, addr_text, **opts):
  @contract('C20', name, SCAN_FUNCS,
          clause='scan_interfaces (real driver list with / without the serial driver and the prrt binding, real drivers) reports what '
                 'every driver found - nothing is lost, nothing twice - and every reported URI is claimed by exactly the driver of '
                 'its scheme when it is handed to get_link_driver; the radio URIs connect to dongle 0 with the channel that answered, '
                 'the data rate of that scan and the scanned address',
          bounded='one Crazyflie answers on the radio per data rate (same symbolic channel 0..125), one Crazyflie on USB, two '
                  'serial ports; scan address: none, or ' + addr_text, max_paths=3000, **opts)
  def scan_interfaces(c):
    serial = c.choice('enable_serial_driver', [False, True])
    prrt = c.choice('prrt_binding_installed', [False, True])
    ch = c.int('ch', 0, 125)
    c.patch(CFUSB + ':usb', c.ext('usb'))
    usb_device = c.ext('usb_device')

    def open_usb(*_a):              # the real scan() / close() of the USB layer on an opened device
        return c.obj(CFUSB + ':CfUsb', dev=usb_device, handle=c.ext('cfusb'), version=0.0)
    hardware(c, radio_returns={'scan_channels': lambda *_a: (ch,)}, cfusb_factory=open_usb, prrt=prrt)
    c.patch(SER + ':found_serial', True)
    driver_list(c, serial)
    given = c.choice('address_given', [False, True])
    address = c.int('address', addr_lo, 2 ** 40 - 1) if given else c.let('address', None)
    c.snapshot('want_addr', be40('address') if given else repr(E7))
    c.call(CRTP + ':scan_interfaces', address)
    c.ensure('no-exception', 'raised is None')
    if c.get('raised') is not None:
        return
    c.snapshot('found', 'tuple(result)')
    expected = {'RadioDriver': 3, 'UsbDriver': 1, 'SerialDriver': len(SERIAL_PORTS) if serial else 0, 'PrrtDriver': 1 if prrt else 0}
    c.ensure('one-entry-per-answer', 'len(found) == %d' % sum(expected.values()))
    n = c.concretize('len(found)')
    seen = {}
    rates = []
    c.let('stat_cb', c.ext('stat_cb'))
    c.let('err_cb', c.ext('err_cb'))
    for i in range(n):
        c.snapshot('u', 'found[%d][0]' % i)
        c.reset_trace()
        c.call(CRTP + ':get_link_driver', c.get('u'), c.get('stat_cb'), c.get('err_cb'))
        c.ensure('reported-uri-%d-is-claimed' % i, 'raised is None and result is not None')
        if c.get('raised') is not None or c.get('result') is None:
            continue
        c.snapshot('tn', 'typename(result)')
        tn = c.get('tn')
        seen[tn] = seen.get(tn, 0) + 1
        c.ensure('reported-uri-%d-claimed-by-the-driver-of-its-scheme' % i, 'tn in %r and u.startswith(%r)' % (
            tuple(DRIVERS), DRIVERS.get(tn, ('', '?'))[1]))
        c.ensure('reported-uri-%d-only-its-hardware' % i, 'all(e[0].split(".")[0] in %r for e in trace)' % (HARDWARE_OF.get(tn, ()),))
        if tn == 'RadioDriver':
            c.ensure('reported-uri-%d-dongle-0-channel-address' % i,
                     "[e[1] for e in trace if e[0] == 'RadioManager.open'] == [(0,)] and "
                     "[e[1] for e in trace if e[0] == 'radio.set_channel'] == [(ch,)] and "
                     "[tuple(e[1][0]) for e in trace if e[0] == 'radio.set_address'] == [want_addr]")
            c.snapshot('dr', "[e[1][0] for e in trace if e[0] == 'radio.set_data_rate'][-1]")
            rates.append(c.concretize('dr'))
    c.let('seen', tuple(sorted(seen.items())))
    c.ensure('every-driver-s-findings-reported', 'seen == %r' % (tuple(sorted((k, v) for k, v in expected.items() if v)),))
    c.let('rates', tuple(sorted(rates)))
    c.ensure('each-data-rate-reported-once', 'rates == (0, 1, 2)')
  return scan_interfaces


_scan_interfaces('scan.scan_interfaces', 16 ** 9, 'any address of 10 hex digits')
_scan_interfaces('scan.scan_interfaces.any-address', 0, 'any 40-bit address (1..10 hex digits)', thorough_only=True)


# ------------------------------------------------------------------------- histories: a second URI on the same objects

# spec text: the rate limit handed to a link thread by the constructor call e (7th positional argument or keyword)
THREAD_RATE_LIMIT = "(e[1][6] if len(e[1]) > 6 else e[2]['rate_limit'])"


def _radio_reconnect(name, na, nrl, **opts):
  @contract('C20', name, [RAD + ':RadioDriver.connect', RAD + ':RadioDriver.close', RAD + ':RadioDriver.pause',
                                     RAD + ':RadioDriver.restart', PARSE],
          clause='the settings of a radio link are those of the URI it was LAST connected to: after close() the same driver connects '
                 'to another URI - exactly the dongle of the new URI is opened and exactly its channel, data rate, address and rate '
                 'limit are used, nothing of the first URI survives (also for the link thread that pause() / restart() creates)',
          bounded='history connect(A), close(), connect(B), pause(), restart() in both orders of A = radio://<d>/<2 digits>/250K/'
                  '<%d hex digits>?rate_limit=<%d digits> and B = radio://<d>/<1 digit> (rate, address, rate limit omitted)' % (na, nrl),
          max_paths=2000, **opts)
  def radio_reconnect(c):
    radio = radio_hardware(c)
    c.let('radio', radio)
    c.str('dA', 1, 48, 57), c.str('dB', 1, 48, 57)
    c.str('chanA', 2, 48, 57), c.str('chanB', 1, 48, 57)
    hexstr(c, 'addr', na)
    c.str('rl', nrl, 48, 57)
    c.require('int(rl) > 0')
    uris = {'A': ("'radio://' + dA + '/' + chanA + '/250K/' + addr + '?rate_limit=' + rl",
                  {'dongle': 'int(dA)', 'channel': 'int(chanA)', 'rate': '0', 'address': address_spec('addr', na), 'limit': 'int(rl)'}),
            'B': ("'radio://' + dB + '/' + chanB",
                  {'dongle': 'int(dB)', 'channel': 'int(chanB)', 'rate': '2', 'address': repr(E7), 'limit': 'None'})}
    order = c.choice('order', ['AB', 'BA'])
    drv = c.new(RAD + ':RadioDriver')
    c.let('drv', drv)
    c.let('stat_cb', c.ext('stat_cb')), c.let('err_cb', c.ext('err_cb'))
    c.snapshot('uri1', uris[order[0]][0])
    c.snapshot('uri2', uris[order[1]][0])
    exp = uris[order[1]][1]
    c.call((drv, 'connect'), c.get('uri1'), c.get('stat_cb'), c.get('err_cb'))
    c.require('raised is None')
    c.call((drv, 'close'))
    c.ensure('close-returns', 'raised is None')
    c.reset_trace()
    c.call((drv, 'connect'), c.get('uri2'), c.get('stat_cb'), c.get('err_cb'))
    c.ensure('second-connect-succeeds', 'raised is None')
    if c.get('raised') is not None:
        return
    c.ensure('exactly-the-dongle-of-the-new-uri', "[e[1] for e in trace if e[0] == 'RadioManager.open'] == [(%s,)]" % exp['dongle'])
    c.ensure('channel-of-the-new-uri', "[e[1] for e in trace if e[0] == 'radio.set_channel'] == [(%s,)]" % exp['channel'])
    c.ensure('data-rate-of-the-new-uri', "[e[1] for e in trace if e[0] == 'radio.set_data_rate'] == [(%s,)]" % exp['rate'])
    c.ensure('address-of-the-new-uri', "[tuple(e[1][0]) for e in trace if e[0] == 'radio.set_address'] == [%s]" % exp['address'])
    c.ensure('rate-limit-of-the-new-uri', "[%s for e in trace if e[0] == '_RadioDriverThread'] == [%s]" % (THREAD_RATE_LIMIT, exp['limit']))
    c.call((drv, 'pause'))
    c.require('raised is None')
    c.reset_trace()
    c.call((drv, 'restart'))
    c.ensure('restart-returns', 'raised is None')
    c.ensure('restarted-link-thread-uses-the-radio-and-rate-limit-of-the-new-uri',
             "[(is_same(e[1][0], radio), %s) for e in trace if e[0] == '_RadioDriverThread'] == [(True, %s)]" % (THREAD_RATE_LIMIT, exp['limit']))
    c.ensure('restart-opens-no-other-dongle', "len(calls('RadioManager')) == 0")
  return radio_reconnect


_radio_reconnect('radio.reconnect', 10, 2)
for _na, _nrl in ((1, 1), (4, 3), (9, 5)):
    _radio_reconnect('radio.reconnect.address-%d-digits' % _na, _na, _nrl, thorough_only=True)


ACK = 'cflib.drivers.crazyradio:_radio_ack'


def _uri_to_dongle(name, dongles, rates_b, **opts):
  @contract('C20', name,
          [RAD + ':RadioDriver.connect', RAD + ':RadioDriver.close', PARSE, RAD + ':RadioManager.open', RAD + ':_SharedRadio.__init__',
           RAD + ':_SharedRadio.open_instance', RAD + ':_SharedRadio.run', RAD + ':_SharedRadioInstance.send_packet',
           RAD + ':_SharedRadioInstance.close'],
          clause='a radio URI names exactly one dongle: with the real RadioManager / shared radio (only the USB dongle class Crazyradio '
                 'is a stub) two links get the dongle of their own URI - one Crazyradio per dongle number, opened with that number, '
                 'shared iff the numbers are equal - and a frame of either link goes out through its own dongle after that dongle was '
                 'given the channel, data rate and address of the link\'s URI; after both links were closed a new link on the first '
                 'dongle number re-opens that dongle number',
          bounded='dongle numbers %s for either link; URIs radio://<d>/<2 digits>/<rate>/<10 hex digits>, rate of B one of %s; history: '
                  'connect A, connect B, A sends, B sends, close A, close B, connect C with the URI of A, C sends' % (dongles, rates_b),
          max_paths=4000, **opts)
  def uri_to_dongle(c):
    c.virtual_time()
    frames = {k: c.bytes('frame' + k, 3) for k in 'ABC'}
    ack = c.obj(ACK, ack=True, data=c.bytes('ackdata', 1), powerDet=False, retry=0)
    made = []

    def make(_i, args, kwargs):
        made.append(kwargs.get('devid', args[0] if args else 'default'))
        return c.ext('dongle%d' % len(made), attrs={'version': 0.5}, returns={'send_packet': lambda *_a: ack})
    real = c.cls(CRZ + ':Crazyradio')       # the stub keeps the library's own data-rate constants
    c.patch(RAD + ':Crazyradio', c.ext('Crazyradio', attrs={n: c.getfield(real, n) for n in ('DR_250KPS', 'DR_1MPS', 'DR_2MPS')},
                                       returns={'()': make}))
    locks, queues = [], []

    def sem(*_a):
        locks.append(c.lock('sem%d' % len(locks)))
        return locks[-1]

    def mkq(*_a):
        queues.append(c.queue('q%d' % len(queues)))
        return queues[-1]
    c.patch(RAD + ':Semaphore', c.ext('Semaphore', returns={'()': sem}))
    c.patch(RAD + ':Queue', c.ext('Queue', returns={'()': mkq}))
    radios = c.patch(RAD + ':RadioManager._radios', c.list([]))
    c.patch(RAD + ':RadioManager._lock', c.lock('manager_lock'))
    c.patch(RAD + ':_RadioDriverThread', c.ext('_RadioDriverThread', returns={'()': lambda *_a: c.ext('link_thread')}))
    dn = {'A': c.choice('dongleA', list(dongles)), 'B': c.choice('dongleB', list(dongles))}
    dn['C'] = dn['A']
    rate = {'A': c.choice('rateA', ['250K', '1M', '2M']), 'B': c.choice('rateB', list(rates_b))}
    rate['C'] = rate['A']
    for k in 'AB':
        c.str('chan' + k, 2, 48, 57)
        hexstr(c, 'addr' + k, 10)
        c.snapshot('uri' + k, "'radio://%d/' + chan%s + '/%s/' + addr%s" % (dn[k], k, rate[k], k))
    c.let('uriC', c.get('uriA')), c.let('chanC', c.get('chanA')), c.let('addrC', c.get('addrA'))
    c.let('radios', radios)
    drv = {}

    def connect(k):
        drv[k] = c.new(RAD + ':RadioDriver')
        c.call((drv[k], 'connect'), c.get('uri' + k), c.ext('stat_cb'), c.ext('err_cb'))
        c.ensure('connect-%s' % k, 'raised is None')
        return c.get('raised') is None

    def serve():
        """the radio thread of every opened dongle serves the queued commands, then waits"""
        for i in range(c.concretize('len(radios)')):
            c.snapshot('shared_radio', 'radios[%d]' % i)
            if c.get('shared_radio') is not None:
                c.call((c.get('shared_radio'), 'run'))        # ends with the pseudo exception Deadlock: waiting for the next command

    def send(k, dongle_index):
        c.reset_trace()
        c.call((c.getfield(drv[k], '_radio'), 'send_packet'), frames[k])
        serve()
        c.let('frame', frames[k])
        name = 'dongle%d' % dongle_index
        c.snapshot('tr', "tuple(e for e in trace if e[0].startswith('dongle'))")
        c.ensure('frame-of-%s-goes-out-through-its-own-dongle-only' % k,
                 "[e[0] for e in tr if e[0].endswith('.send_packet')] == ['%s.send_packet'] and "
                 "bytes([e for e in tr if e[0].endswith('.send_packet')][0][1][0]) == frame" % name)
        if [e[0] for e in c.get('tr') if e[0].endswith('.send_packet')] != [name + '.send_packet']:
            return
        c.snapshot('before', "tr[:[e[0] for e in tr].index('%s.send_packet')]" % name)
        c.ensure('dongle-of-%s-was-given-the-channel-of-its-uri' % k,
                 "[e[1] for e in before if e[0] == '%s.set_channel'][-1:] == [(int(chan%s),)]" % (name, k))
        c.ensure('dongle-of-%s-was-given-the-data-rate-of-its-uri' % k,
                 "[e[1] for e in before if e[0] == '%s.set_data_rate'][-1:] == [(%d,)]" % (name, RATE_CODE[rate[k]]))
        c.ensure('dongle-of-%s-was-given-the-address-of-its-uri' % k,
                 "[tuple(e[1][0]) for e in before if e[0] == '%s.set_address'][-1:] == [%s]" % (name, address_spec('addr' + k, 10)))

    if not (connect('A') and connect('B')):
        return
    same = dn['A'] == dn['B']
    c.let('made', tuple(made))
    c.ensure('one-dongle-object-per-dongle-number-opened-with-that-number', 'made == %r' % ((dn['A'],) if same else (dn['A'], dn['B']),))
    if c.get('made') != ((dn['A'],) if same else (dn['A'], dn['B'])):
        return
    send('A', 1)
    send('B', 1 if same else 2)
    c.call((drv['A'], 'close'))
    c.ensure('close-A', 'raised is None')
    c.call((drv['B'], 'close'))
    c.ensure('close-B', 'raised is None')
    serve()
    if not connect('C'):
        return
    c.let('made', tuple(made))
    n = len(made)
    c.ensure('dongle-number-of-the-uri-is-re-opened', 'made[%d:] == (%d,)' % (1 if same else 2, dn['A']))
    if n == (2 if same else 3):
        send('C', n)
  return uri_to_dongle


_uri_to_dongle('radio.uri-to-dongle', (0, 1, 2), ('2M', '250K'))
_uri_to_dongle('radio.uri-to-dongle.more-dongles', (0, 1, 3, 7), ('250K', '1M', '2M'), thorough_only=True)


# ------------------------------------------------------------------------- the prrt scheme with the optional binding installed

PRRT_URIS = [       # URI -> (remote address, remote port, target delay in s or None = the library default) / None = malformed
    ('prrt://10.0.0.1:5000', ('10.0.0.1', 5000, None)), ('prrt://192.168.1.20:65535/250', ('192.168.1.20', 65535, 0.25)),
    ('prrt://1.2.3.4:1/1', ('1.2.3.4', 1, 0.001)), ('prrt://255.255.255.255:80/999999', ('255.255.255.255', 80, 999.999)),
    ('prrt://10.0.0.1', None), ('prrt://10.0.0.1:', None), ('prrt://10.0.0:5000', None), ('prrt://10.0.0.1:5000/', None),
    ('prrt://10.0.0.1:5000/12x', None), ('prrt://host:5000', None), ('prrt://10.0.0.1:5000 ', None),
]


@contract('C20', 'drivers.prrt-binding-installed', [CRTP + ':get_link_driver', PRRT + ':PrrtDriver.connect', PRRT + ':PrrtDriver.__init__'],
          clause='with the optional prrt binding installed the prrt scheme is claimed by the PrrtDriver and by nobody else: a well-formed '
                 'prrt://<ip>:<port>[/<delay ms>] connects one socket to exactly that address and port with that target delay; a '
                 'malformed prrt URI yields no driver and nothing is opened',
          bounded='the %d URIs of PRRT_URIS, with and without the serial driver (the binding itself is a recording stub)' % len(PRRT_URIS))
def prrt_installed(c):
    serial = c.choice('enable_serial_driver', [False, True])
    uri, want = PRRT_URIS[c.choice('uri_index', list(range(len(PRRT_URIS))))]
    hardware(c, prrt=True)
    driver_list(c, serial)
    c.let('uri', uri)
    c.reset_trace()
    c.call(CRTP + ':get_link_driver', uri, c.ext('stat_cb'), c.ext('err_cb'))
    if want is None:
        c.ensure('no-driver', 'raised is not None or result is None')
        c.ensure('nothing-opened', 'len(trace) == 0')
        return
    c.ensure('claimed-by-the-prrt-driver', "raised is None and typename(result) == 'PrrtDriver'")
    c.ensure('only-its-hardware', 'len(trace) > 0 and all(e[0].split(".")[0] in %r for e in trace)' % (HARDWARE_OF['PrrtDriver'],))
    c.ensure('one-socket-connected-to-the-address-and-port-of-the-uri',
             "len(sent('prrt.PrrtSocket')) == 1 and [e[1] for e in trace if e[0] == 'prrt_socket.connect'] == [(%r,)]" % (want[:2],))
    if want[2] is not None:
        c.ensure('target-delay-of-the-uri', "sent('prrt.PrrtSocket')[0][2]['target_delay'] == %r" % want[2])


# ------------------------------------------------------------------------- parse_uri: a second parse is independent of the first

@contract('C20', 'parse_uri.second-parse', [PARSE],
          clause='every parse stands for itself: the defaults of omitted fields (channel 2, 2M, E7E7E7E7E7, no rate limit) are still '
                 'the defaults after a URI with explicit fields was parsed, an earlier result is not changed by a later parse, and the '
                 'same URI parses to the same settings again',
          bounded='history parse(A), parse(B), parse(A), parse(B) with A = radio://<d>/<2 digits>/1M/<10 hex digits>?rate_limit=<2 '
                  'digits> and B = radio://<d> or radio://<d>/<1 digit>')
def second_parse(c):
    c.str('dA', 1, 48, 57), c.str('dB', 1, 48, 57), c.str('chanA', 2, 48, 57)
    hexstr(c, 'addr', 10)
    c.str('rl', 2, 48, 57)
    c.snapshot('uriA', "'radio://' + dA + '/' + chanA + '/1M/' + addr + '?rate_limit=' + rl")
    expA = {'channel': 'int(chanA)', 'rate': '1', 'address': address_spec('addr', 10), 'limit': 'int(rl)'}
    expB = {'channel': '2', 'rate': '2', 'address': repr(E7), 'limit': None}
    if c.choice('B_has_channel', [False, True]):
        c.str('chanB', 1, 48, 57)
        c.snapshot('uriB', "'radio://' + dB + '/' + chanB")
        expB['channel'] = 'int(chanB)'
    else:
        c.snapshot('uriB', "'radio://' + dB")
    kept = {}
    for step, which in enumerate('ABAB'):
        c.call(PARSE, c.get('uri' + which))
        c.ensure('parse-%d-no-exception' % step, 'raised is None')
        if c.get('raised') is not None:
            return
        exp, dev = (expA, 'int(dA)') if which == 'A' else (expB, 'int(dB)')
        c.ensure('parse-%d-of-%s' % (step, which), 'result[0] == %s and result[1] == %s and result[2] == %s and tuple(result[3]) == %s and %s' % (
            dev, exp['channel'], exp['rate'], exp['address'], 'result[4] is None' if exp['limit'] is None else 'result[4] == ' + exp['limit']))
        for k, (name, e, d) in kept.items():
            c.ensure('result-of-parse-%d-unchanged-after-parse-%d' % (k, step), 'tuple(%s[3]) == %s and %s[1] == %s' % (name, e['address'], name, e['channel']))
        name = 'result%d' % step
        c.let(name, c.get('result'))
        kept[step] = (name, exp, dev)


# ------------------------------------------------------------------------- scanning: several answers per data rate

def _scan_answers(counts, addresses, **opts):
    total = sum(counts)

    @contract('C20', 'radio.scan-roundtrip.answers-%d-%d-%d' % counts,
              [RAD + ':RadioDriver.scan_interface', RAD + ':RadioDriver._scan_radio_channels', PARSE],
              clause='a scan reports one URI for every Crazyflie that answered - %d at 250K, %d at 1M, %d at 2M, each on its own channel - '
                     'none lost, none twice, and each URI parses back to dongle 0, the channel of that answer, the data rate the radio '
                     'was set to when it answered and the scanned address' % counts,
              bounded='every answering channel symbolic 0..125; scan address one of %s (every 40-bit address: radio.scan-roundtrip)' % (
                  ', '.join('none' if a is None else '%X' % a for a in addresses),), max_paths=6000, **opts)
    def k(c):
        plugged_in(c)
        chans = [[c.int('ch%d_%d' % (r, i), 0, 125) for i in range(counts[r])] for r in range(3)]
        state = {'scan': 0}

        def scan_channels(*_a):
            state['scan'] += 1
            return tuple(chans[state['scan'] - 1]) if state['scan'] <= 3 else ()
        radio_hardware(c, returns={'scan_channels': scan_channels})
        address = addresses[c.choice('address_index', list(range(len(addresses))))]
        c.let('address', address)
        drv = c.new(RAD + ':RadioDriver')
        c.call((drv, 'scan_interface'), address)
        c.ensure('no-exception', 'raised is None')
        if c.get('raised') is not None:
            return
        c.snapshot('found', 'tuple(result)')
        c.ensure('one-uri-per-answer', 'len(found) == %d' % total)
        if c.concretize('len(found)') != total:
            return
        want_addr = E7 if address is None else tuple(address // 256 ** (4 - i) % 256 for i in range(5))
        j = 0
        for r in range(3):
            for i in range(counts[r]):
                c.snapshot('u', 'found[%d][0]' % j)
                c.call(PARSE, c.get('u'))
                c.ensure('answer-%d-at-rate-%d-parses-back' % (i, r), 'raised is None and result[0] == 0 and result[1] == ch%d_%d and result[2] == %d '
                         'and tuple(result[3]) == %r and result[4] is None' % (r, i, r, want_addr))
                j += 1
    return k


SCAN_ADDRESSES = (None, 0xE7E7E7E7E7, 0x0102030405, 0xB1)
for _counts in [(a, b, d) for a in range(3) for b in range(3) for d in range(3)]:
    if _counts in ((1, 0, 2), (0, 2, 1)):
        _scan_answers(_counts, SCAN_ADDRESSES)
    elif _counts != (1, 1, 1):              # (1, 1, 1) is radio.scan-roundtrip
        _scan_answers(_counts, SCAN_ADDRESSES, thorough_only=True)


def _scan_selected_answers(n_answers, **opts):
    @contract('C20', 'radio.scan-selected.bootloader-uris.%d' % n_answers, [RAD + ':RadioDriver.scan_selected', PARSE],
              clause='scan_selected with URIs that carry an address field (as the bootloader passes them: radio://0/110/2M/E7E7E7E7E7, '
                     'radio://0/0/2M/E7E7E7E7E7) asks the radio for exactly their channels and data rates, and with %d answers it '
                     'reports %d URIs, each parsing back to dongle 0, the channel and data rate of that answer and the address of the '
                     'link that scanned (the default address)' % (n_answers, n_answers),
              bounded='%d answers with symbolic channel 0..125 and rate code 0..2' % n_answers, max_paths=3000, **opts)
    def k(c):
        answers = []
        for i in range(n_answers):
            answers.append(c.dict([('channel', c.int('ch%d' % i, 0, 125)), ('datarate', c.int('dr%d' % i, 0, 2))]))
        radio_hardware(c, returns={'scan_selected': lambda *_a: tuple(answers)})
        drv = c.new(RAD + ':RadioDriver')
        c.call((drv, 'connect'), 'radio://0/80/2M/E7E7E7E7E7', c.ext('stat_cb'), c.ext('err_cb'))
        c.require('raised is None')
        c.reset_trace()
        c.call((drv, 'scan_selected'), ('radio://0/110/2M/E7E7E7E7E7', 'radio://0/0/2M/E7E7E7E7E7', 'radio://0/7/250K/E7E7E7E7E7'))
        c.ensure('no-exception', 'raised is None')
        if c.get('raised') is not None:
            return
        c.ensure('asked-for-the-given-channels-and-rates', "len(sent('radio.scan_selected')) == 1 and tuple(sent('radio.scan_selected')[0][1][0]) == "
                 "({'channel': 110, 'datarate': 2}, {'channel': 0, 'datarate': 2}, {'channel': 7, 'datarate': 0})")
        c.snapshot('found', 'tuple(result)')
        c.ensure('one-uri-per-answer', 'len(found) == %d' % n_answers)
        if c.concretize('len(found)') != n_answers:
            return
        for i in range(n_answers):
            c.snapshot('u', 'found[%d]' % i)
            c.call(PARSE, c.get('u'))
            c.ensure('answer-%d-parses-back' % i, 'raised is None and result[0] == 0 and result[1] == ch%d and result[2] == dr%d and '
                     'tuple(result[3]) == %r and result[4] is None' % (i, i, E7))
    return k


_scan_selected_answers(0)
_scan_selected_answers(2)
_scan_selected_answers(3, thorough_only=True)


@contract('C20', 'radio.scan-selected-roundtrip.address', [RAD + ':RadioDriver.scan_selected', RAD + ':RadioDriver.connect', PARSE],
          clause='URIs reported by scanning parse back to the scanned address: scan_selected scans with the address of the link it is '
                 'called on, so on a link connected to a non-default address the reported URIs must name that address',
          bounded='link connected to radio://0/80/2M/<10 hex digits>; one URI to scan, one answer (symbolic channel and rate)',
          thorough_only=True)
def scan_selected_address(c):
    # CANDIDATE FINDING on the unchanged tree (thorough tier only until triaged): the reported URI never carries an address, it parses
    # back to E7E7E7E7E7 whatever address was scanned
    ch, dr = c.int('ch', 0, 125), c.int('dr', 0, 2)
    answer = c.dict([('channel', ch), ('datarate', dr)])
    radio_hardware(c, returns={'scan_selected': lambda *_a: (answer,)})
    hexstr(c, 'addr', 10)
    c.snapshot('uri', "'radio://0/80/2M/' + addr")
    drv = c.new(RAD + ':RadioDriver')
    c.call((drv, 'connect'), c.get('uri'), c.ext('stat_cb'), c.ext('err_cb'))
    c.require('raised is None')
    c.snapshot('scanned_address', "tuple(sent('radio.set_address')[0][1][0])")
    c.call((drv, 'scan_selected'), ('radio://0/10/250K',))
    c.require('raised is None and len(result) == 1')
    c.snapshot('u', 'result[0]')
    c.call(PARSE, c.get('u'))
    c.ensure('parses-back-to-the-scanned-address', 'raised is None and result[1] == ch and result[2] == dr and tuple(result[3]) == scanned_address')


# ------------------------------------------------------------------------- query options other than rate_limit

OPTION_SHAPES = ["'?x=1'", "'?x=1&rate_limit=' + rl", "'?rate_limit=' + rl + '&x=1'", "'?safelink=0&rate_limit=' + rl + '&y=ab'", "'?rate_limit=' + rl + '#frag'",
                 "'?ratelimit=7'", "'?rate_limit_=7&_rate_limit=8'"]


@contract('C20', 'parse_uri.other-options', [PARSE],
          clause='query options: the rate limit is the value of the option named rate_limit wherever it stands among other options, and '
                 'other options (or none named rate_limit) change nothing of dongle, channel, data rate and address',
          bounded='the %d option shapes of OPTION_SHAPES after radio://<1 digit>/<2 digits>[/<rate>[/<10 hex digits>]]; rate_limit value of '
                  '1, 2 or 4 digits' % len(OPTION_SHAPES), max_paths=3000)
def other_options(c):
    c.str('dongle', 1, 48, 57)
    c.str('chan', 2, 48, 57)
    exp = {'channel': 'int(chan)', 'rate': '2', 'address': repr(E7), 'limit': None}
    uri = "'radio://' + dongle + '/' + chan"
    rate = c.choice('rate', [None, '250K', '1M', '2M'])
    if rate is not None:
        uri += " + '/%s'" % rate
        exp['rate'] = str(RATE_CODE[rate])
        if c.choice('with_address', [False, True]):
            hexstr(c, 'addr', 10)
            uri += " + '/' + addr"
            exp['address'] = address_spec('addr', 10)
    shape = OPTION_SHAPES[c.choice('option_shape', list(range(len(OPTION_SHAPES))))]
    if 'rl' in shape.replace('rate_limit', '').replace('ratelimit', ''):
        c.str('rl', c.choice('rate_limit_digits', [1, 2, 4]), 48, 57)
        exp['limit'] = 'int(rl)'
    c.snapshot('uri', uri + ' + ' + shape)
    c.call(PARSE, c.get('uri'))
    check_parse(c, 'int(dongle)', exp)


# ------------------------------------------------------------------------- open_link: every attempt is reported on its own

@contract('C20', 'open_link.twice', [CF + ':Crazyflie.open_link', CRTP + ':get_link_driver'],
          clause='a failed open_link leaves the Crazyflie usable: a second open_link with another unknown or malformed URI (real driver '
                 'lookup) is again answered by exactly one connection_failed notification that names the second URI, no exception, no '
                 'link, nothing opened',
          bounded='pairs of URIs out of 6 (unknown scheme, malformed radio / usb / serial / prrt URIs), serial driver enabled')
def open_link_twice(c):
    uris = ['bogus://something', 'radio://0/abc', 'usb://x', 'serial://nosuchport', 'prrt://x', 'radio://0/80/2M/G7']
    claimed = {'radio://0/abc', 'serial://nosuchport', 'prrt://x', 'radio://0/80/2M/G7'}
    first = uris[c.choice('first', list(range(len(uris))))]
    second = uris[c.choice('second', list(range(len(uris))))]
    hardware(c)
    driver_list(c, True)
    cf = crazyflie(c)
    c.call((cf, 'open_link'), first)
    c.require('raised is None')
    c.let('uri', second)
    c.reset_trace()
    c.call((cf, 'open_link'), second)
    check_failed_notification(c, "Couldn't load link driver: " if second in claimed else 'No driver found or malformed URI: ' + second)
    c.ensure('nothing-opened', "all(e[0] in ('get_serials', 'serial_devices') or e[0].startswith('connection_') for e in trace)")
