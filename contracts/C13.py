"""C13 - numeric wire codecs."""
from pyvc.api import contract

ENC = 'cflib.utils.encoding'


@contract('C13', 'fp16_to_float', [ENC + ':fp16_to_float'],
          clause='half-precision decoding returns the IEEE-754 binary16 value for every one of the 65,536 bit patterns')
def fp16(c):
    x = c.int('float16', 0, 65535)
    c.call(ENC + ':fp16_to_float', x)
    c.ensure('no-exception', 'raised is None')
    c.ensure('is-float', 'isinstance(result, float)')
    c.ensure('ieee-binary16-value', 'same_float(result, fp16_value(float16))')
