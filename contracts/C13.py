"""C13 - numeric wire codecs are exact or within their stated resolution.

Clauses of the design section (DESIGN.md, C13) and where they are decided:

 1. half floats: fp16_to_float (all 65,536 patterns) and fp16_to_float.signed (the same patterns arriving as -32768..-1 from
    struct.unpack('<h'), which is how the angle-stream decoder calls it).  FP mode, complete.
 2. quaternions (float_mode='R': reals, sqrt = the non-negative root; numpy through pyvc/numpy_model.py):
      quat.compress.<set>   q = k * d with a SYMBOLIC scale k in [0.001, 1000] and a direction d from a finite set (all 80 sign /
                            zero / tie patterns with components in {-1, 0, 1}, hand-picked, seeded random integer directions;
                            225 in all): result == the exact 32-bit word of the firmware layout (computed here in exact integer
                            arithmetic, independent of the code), < 2**32, and the real decompress_quaternion maps that word to
                            the same rotation with every component within two quantisation steps.
      quat.decompress.fields  every index / sign pattern with 10 magnitude triples: per-component decode, unit norm.
    NOT covered: a fully symbolic direction.  It was tried (contract on compress_quaternion with four symbolic reals): the path
    conditions mix division by sqrt(sum of squares), nested if-then-else from abs() and ToInt of non-linear terms; z3 answers
    `unknown` within the 5 s branch / 20 s obligation budgets on a varying subset of the queries of every path (8 argmax paths,
    1-3 minutes each) and cvc5 needs > 20 s per goal, so the contract could never be green reliably.  Likewise a symbolic
    32-bit word for decompress_quaternion (integer div/mod of the word mixed with non-linear reals: `unknown`).  The general
    'two quantisation steps' round-trip bound is therefore proved only on the direction sets above (bounded=...).
 3. compressed trajectories (FP mode): traj.encode_spatial / traj.encode_yaw (every float: raises iff not finite),
    traj.encode_*.error (< 1 unit of error, same sign or zero, for |value| <= 1e6), traj.start.pack (end to end: fields decode to < 1 unit, struct.error
    iff a value does not fit), traj.segment.encode_type, traj.segment.pack_element.N (exact int16 layout, struct.error instead of
    wrapping), traj.segment.pack.decoded.1_1_1_1 (end to end) and traj.segment.pack.layout.* (compositional: whole packet ==
    type byte, duration, the _encode_* values in order) for six length combinations in which every axis takes every length.
    Bounded: |value| <= 1e6 where an error bound is proved (int(float) is tracked exactly below 2**62 only); NaN / infinities
    are covered by the unbounded traj.encode_* contracts.
 4. LED ring: led.write_data.R/G/B (one symbolic LED per channel: black -> 0, white at intensity 100 -> 31/63/31, nearest level,
    other bits 0), led.write_data.R/G/B.monotone (two symbolic LEDs: monotone in level and in intensity), led.write_data.palette
    (all 12 positions, saturated colours, exact bytes), led.timings.write_data.N (0, 1, 2 timing entries: RGB565 word per kept
    entry, zero entries dropped, terminator).  Not all 12 LEDs symbolic at once (each symbolic intensity costs several bit-blasted
    double divisions per query): the per-LED computation is one loop body, exercised at positions 0, 5 and 11 symbolically and
    at every position concretely.
 5. localization: loc.range_report.K for every anchor count K = 0..5 that fits a CRTP packet (complete), any ids (repeated id: the
    last report wins) and any binary32 bits; loc.range_report.bad_length; loc.lh_angle_stream (every payload of 21 bytes, using
    fp16_to_float through its contract) and loc.lh_angle_stream.bad_length.

Extension round (second half of the file): histories, second objects, defaults, any magnitude.
 2'. quat.decompress.magnitudes.B: EVERY 32-bit word with index B whose three 9-bit magnitudes describe a unit quaternion (symbolic
     sign bits and magnitudes; the field-extraction facts are proved first and then handed to the non-linear queries as lemmas -
     this replaces the "symbolic 32-bit word: unknown" item above); quat.decompress.twice (each call returns its own array);
     quat.roundtrip.sampled: BOUNDED ONLY, the real binary64 numpy code on seeded boundary / random quaternions (the R-mode
     contracts are not replayed natively when they are proved; this one runs natively only); thorough tier: the lattice {-2..2}**4
     and 240 more random directions.  Still NOT covered symbolically: a fully symbolic direction for compress_quaternion.
 3'. traj.encode_*.far and traj.start.pack.overflow.x/y/z/yaw (EVERY float, any magnitude: beyond the 16-bit range stays beyond / raises, one
     field at a time), traj.segment.pack.twice (second use of a segment), traj.segment.pack.shapes (all 256 shapes, concrete points),
     traj.write_data.compressed.* (whole trajectory through TrajectoryMemory.write_data / the alias poly4Ds, symbolic),
     traj.write_data.history (second upload, second object, after write_done / write_failed / disconnect), traj.write_data_sync;
     thorough tier: 13 more symbolic shapes (every pair of axes with every pair of lengths), two more end-to-end decodes.
 4'. led.write_data.history / led.timings.history (write, acknowledge or disconnect, change, write again; second object),
     led.write_data.defaults / led.timings.defaults (what an omitted intensity / leds / fade / rotate stands for),
     led.timings.write_data.3 (4, 5 thorough), led.write_data.rgb (all channels symbolic at once, thorough), every other ring position
     symbolic (thorough).  FINDING, kept under thorough_only: led.write_data.R.at-3.via-set - LED.set(r, g, b, intensity=0) ignores the 0.
 5'. loc.history.then-range / then-angles (second packet on one object after any kind of first packet: own content, fresh containers,
     earlier delivery unaltered), loc.*.bad_length.all (every wrong length that fits a CRTP packet).
 Not under contract on purpose (no numeric content): LEDDriverMemory.new_data (logs only), LEDDriverMemory.update (read request of the
 memory protocol, C11 / C14).
"""
import math
from struct import pack as struct_pack      # (only on concrete numbers: _concrete_traj)

from pyvc.api import contract

ENC = 'cflib.utils.encoding'


@contract('C13', 'fp16_to_float', [ENC + ':fp16_to_float'],
          clause='half-precision decoding returns the IEEE-754 binary16 value for every one of the 65,536 bit patterns')
def fp16(c):
    x = c.int('float16', 0, 65535)
    c.call(ENC + ':fp16_to_float', x)
    c.ensure('no-exception', 'raised is None')
    c.ensure('is-float', 'isinstance(result, float)')
    c.ensure('ieee-binary16-value', 'same_float(result, fp16_value(float16))')


# ------------------------------------------------------------------------- (b) compressed trajectories
TRJ = 'cflib.crazyflie.mem.trajectory_memory'
DEG = 180.0 / math.pi          # math.degrees(x) is x * (180 / pi) with this double constant (CPython mathmodule.c)
TRJ_CLAUSE = ('compressed-trajectory coordinates and yaw encode to millimetres and tenths of a degree with less than one unit '
              'of error and overflow raises rather than wraps')


BOUND = '|value| <= 1e6 (the 16-bit range ends at 32.768 m / 57.2 rad); the engine tracks int(float) exactly only below 2**62'


def _bounded_inputs(c, names, scaled):
    for n, e in zip(names, scaled):
        c.require('-1e6 <= %s <= 1e6' % n)
        # (implied by the bound; stated in the syntactic form in which the engine's int(float) model tests it, so that
        # the tracked-exactly case is selected without a solver call)
        c.require('%s < 4611686018427387904.0 and %s > -4611686018427387904.0' % (e, e))


def _traj_encode(name, meth, scaled, unit):
    @contract('C13', 'traj.' + name, [TRJ + ':_CompressedBase.' + meth],
              clause=TRJ_CLAUSE + ' (%s: every float; NaN and infinities raise)' % unit)
    def k(c):
        self = c.new(TRJ + ':CompressedStart', 0.0, 0.0, 0.0, 0.0)
        c.float('x')
        c.let('DEG', DEG)
        c.call((self, meth), c.get('x'))
        c.ensure('raises-iff-not-finite', 'iff(raised is None, not is_nan(%s) and not is_inf(%s))' % (scaled, scaled))
        c.ensure('declared-errors-only', "raised in (None, 'ValueError', 'OverflowError')")
        if c.get('raised') is None:
            c.ensure('is-int', "typename(result) == 'int'")

    @contract('C13', 'traj.' + name + '.error', [TRJ + ':_CompressedBase.' + meth],
              clause=TRJ_CLAUSE + ' (%s: less than one unit of error and never the opposite sign, across and far beyond the 16-bit range)' % unit,
              bounded=BOUND, ob_timeout_ms=90000)
    def k2(c):
        self = c.new(TRJ + ':CompressedStart', 0.0, 0.0, 0.0, 0.0)
        c.float('x')
        c.let('DEG', DEG)
        _bounded_inputs(c, ['x'], [scaled])
        c.call((self, meth), c.get('x'))
        c.ensure('no-exception', 'raised is None')
        c.ensure('less-than-one-unit-of-error', 'abs(%s - result) < 1' % scaled)
        c.ensure('same-sign-or-zero', 'implies(result > 0, x > 0) and implies(result < 0, x < 0)')
    return k, k2


_traj_encode('encode_spatial', '_encode_spatial', 'x * 1000', 'millimetres')
_traj_encode('encode_yaw', '_encode_yaw', 'x * DEG * 10', 'tenths of a degree')


IN16 = '-32769 < %s < 32768'      # int() truncates toward zero: exactly the floats whose integer part fits a signed 16-bit field


@contract('C13', 'traj.start.pack', [TRJ + ':CompressedStart.__init__', TRJ + ':CompressedStart.pack',
                                     TRJ + ':_CompressedBase._encode_spatial', TRJ + ':_CompressedBase._encode_yaw'],
          clause=TRJ_CLAUSE + ' (start point: four little-endian signed 16-bit fields x, y, z in mm and yaw in 0.1 deg)', bounded=BOUND, ob_timeout_ms=90000)
def traj_start_pack(c):
    names = ['x', 'y', 'z', 'yaw']
    for n in names:
        c.float(n)
    c.let('DEG', DEG)
    scaled = ['x * 1000', 'y * 1000', 'z * 1000', 'yaw * DEG * 10']
    _bounded_inputs(c, names, scaled)
    self = c.new(TRJ + ':CompressedStart', *[c.get(n) for n in names])
    c.call((self, 'pack'))
    c.ensure('raises-iff-a-value-does-not-fit-16-bits', 'iff(raised is None, %s)' % ' and '.join('(%s)' % (IN16 % e) for e in scaled))
    c.ensure('declared-errors-only', "raised in (None, 'struct.error', 'ValueError', 'OverflowError')")
    c.ensure('finite-overflow-raises-struct-error', "implies(raised is not None and %s, raised == 'struct.error')" % ' and '.join(
        '(not is_nan(%s) and not is_inf(%s))' % (e, e) for e in scaled))
    if c.get('raised') is None:
        c.ensure('eight-bytes', "typename(result) == 'bytearray' and len(result) == 8")
        c.snapshot('f', "unpack('<hhhh', bytes(result))")
        for i, e in enumerate(scaled):
            c.ensure('field-%s-less-than-one-unit-of-error' % names[i], 'abs(%s - f[%d]) < 1' % (e, i))
            c.ensure('field-%s-same-sign-or-zero' % names[i], 'implies(f[%d] > 0, %s > 0) and implies(f[%d] < 0, %s < 0)' % (i, names[i], i, names[i]))


@contract('C13', 'traj.segment.encode_type', [TRJ + ':CompressedSegment._encode_type', TRJ + ':CompressedSegment._validate',
                                              TRJ + ':CompressedSegment.__init__'],
          clause='segment type bits: an element of 0 / 1 / 3 / 7 control points is announced as 0 / 1 / 2 / 3 (constant, linear, '
                 'cubic, septic Bezier of the firmware piecewise-compressed format); every other length is refused by the constructor',
          bounded='element lengths 0..9 enumerated')
def traj_encode_type(c):
    n = c.choice('n', list(range(10)))
    el = c.floats('el', n)
    c.let('n', n)
    seg = c.new(TRJ + ':CompressedSegment', 1.0, [], [], [], [])
    which = c.choice('axis', [0, 1, 2, 3])
    args = [[], [], [], []]
    args[which] = el
    c.call(TRJ + ':CompressedSegment', 1.0, *args)
    c.ensure('constructor-accepts-exactly-0-1-3-7', "iff(raised is None, n in (0, 1, 3, 7)) and raised in (None, 'Exception')")
    if c.get('raised') is None:
        c.call((seg, '_encode_type'), el)
        c.ensure('type-code', 'raised is None and result == {0: 0, 1: 1, 3: 2, 7: 3}[n]')


def _pack_element(n):
    @contract('C13', 'traj.segment.pack_element.%d' % n, [TRJ + ':CompressedSegment._pack_element'],
              clause='overflow raises rather than wraps: %d encoded value(s) are laid out as little-endian signed 16-bit integers, and '
                     'struct.error is raised when one of them does not fit' % n,
              bounded='element lengths 0, 1, 3, 7 (the only ones the constructor accepts)')
    def k(c):
        seg = c.new(TRJ + ':CompressedSegment', 1.0, [], [], [], [])
        parts = c.ints('parts', n)
        c.call((seg, '_pack_element'), parts)
        c.ensure('raises-iff-a-value-does-not-fit-16-bits', 'iff(raised is None, all(-32768 <= p <= 32767 for p in parts))')
        c.ensure('struct-error-only', "raised in (None, 'struct.error')")
        if c.get('raised') is None:
            c.ensure('two-bytes-per-value', "typename(result) == 'bytearray' and len(result) == %d" % (2 * n))
            c.ensure('values-decode-exactly', "tuple(unpack('<%s', bytes(result))) == tuple(parts)" % ('h' * n))
    return k


for _n in (0, 1, 3, 7):
    _pack_element(_n)

TYPE_CODE = {0: 0, 1: 1, 3: 2, 7: 3}


SEG_FUNCS = [TRJ + ':CompressedSegment.__init__', TRJ + ':CompressedSegment.pack', TRJ + ':CompressedSegment._encode_type',
             TRJ + ':CompressedSegment._pack_element', TRJ + ':_CompressedBase._encode_spatial_element',
             TRJ + ':_CompressedBase._encode_yaw_element', TRJ + ':_CompressedBase._encode_spatial', TRJ + ':_CompressedBase._encode_yaw']
COMBOS = ((0, 0, 0, 0), (1, 1, 1, 1), (7, 0, 1, 3), (1, 3, 7, 0), (0, 7, 3, 1), (3, 1, 0, 7))


def _segment_inputs(c, lens):
    """a CompressedSegment built by its real constructor from symbolic control points; returns (segment, [(name, scaled expr)])"""
    c.let('DEG', DEG)
    c.float('duration')
    _bounded_inputs(c, ['duration'], ['duration * 1000.0'])
    els = []
    scaled = []
    for ax, n in zip(('ex', 'ey', 'ez', 'eyaw'), lens):
        els.append(c.floats(ax, n))
        for i in range(n):
            scaled.append(('%s[%d]' % (ax, i), '%s[%d] * 1000' % (ax, i) if ax != 'eyaw' else '%s[%d] * DEG * 10' % (ax, i)))
    _bounded_inputs(c, [a for a, _ in scaled], [e for _, e in scaled])
    return c.new(TRJ + ':CompressedSegment', c.get('duration'), *els), scaled


def _type_byte(lens):
    return TYPE_CODE[lens[0]] | TYPE_CODE[lens[1]] << 2 | TYPE_CODE[lens[2]] << 4 | TYPE_CODE[lens[3]] << 6


def _segment_pack_direct(lens, **more):
    @contract('C13', 'traj.segment.pack.decoded.%d_%d_%d_%d' % lens, SEG_FUNCS,
              clause=TRJ_CLAUSE + ' (segment with %d/%d/%d/%d control points for x/y/z/yaw, end to end: the bytes decode, under the '
                     'firmware layout <type byte, duration ms, control points as little-endian int16>, to values less than one unit '
                     'from the caller\'s)' % lens, bounded=BOUND, ob_timeout_ms=90000, **more)
    def k(c):
        seg, scaled = _segment_inputs(c, lens)
        c.call((seg, 'pack'))
        fits = ['(-1 < duration * 1000.0 < 65536)'] + ['(%s)' % (IN16 % e) for _, e in scaled]
        c.ensure('raises-iff-a-value-does-not-fit-16-bits', 'iff(raised is None, %s)' % ' and '.join(fits))
        c.ensure('struct-error-only', "raised in (None, 'struct.error')")
        if c.get('raised') is None:
            total = sum(lens)
            c.ensure('length', "typename(result) == 'bytearray' and len(result) == %d" % (3 + 2 * total))
            c.snapshot('f', "unpack('<BH%s', bytes(result))" % ('h' * total))
            c.ensure('type-byte', 'f[0] == %d' % _type_byte(lens))
            c.ensure('duration-in-ms', 'f[1] == int(duration * 1000.0)')
            for i, (a, e) in enumerate(scaled):
                c.ensure('field-%s-less-than-one-unit-of-error' % a, 'abs(%s - f[%d]) < 1' % (e, i + 2))
                c.ensure('field-%s-same-sign-or-zero' % a, 'implies(f[%d] > 0, %s > 0) and implies(f[%d] < 0, %s < 0)' % (i + 2, a, i + 2, a))
    return k


def _segment_pack_layout(lens, **more):
    @contract('C13', 'traj.segment.pack.layout.%d_%d_%d_%d' % lens, SEG_FUNCS,
              clause=TRJ_CLAUSE + ' (segment with %d/%d/%d/%d control points for x/y/z/yaw, compositional: the packet is the type byte, '
                     'the duration in ms and then exactly the values of _encode_spatial / _encode_yaw (error < 1 unit: contracts '
                     'traj.encode_*.error) as little-endian int16 in the order x, y, z, yaw; struct.error iff one does not fit)' % lens,
              bounded=BOUND + '; this combination of element lengths (quick tier: %s, every axis with every length; thorough tier: 13 more, '
                              'every pair of axes with every pair of lengths; all 256 with concrete points: traj.segment.pack.shapes)' % (COMBOS,),
              ob_timeout_ms=90000, **more)
    def k(c):
        seg, scaled = _segment_inputs(c, lens)
        c.call((seg, 'pack'))
        c.ensure('struct-error-only', "raised in (None, 'struct.error')")
        fits = ['(0 <= int(duration * 1000.0) <= 65535)'] + ['(-32768 <= int(%s) <= 32767)' % e for _, e in scaled]
        c.ensure('raises-iff-a-value-does-not-fit-16-bits', 'iff(raised is None, %s)' % ' and '.join(fits))
        if c.get('raised') is None:
            c.ensure('whole-packet', "bytes(result) == pack('<BH%s', %d, int(duration * 1000.0)%s)" % (
                'h' * sum(lens), _type_byte(lens), ''.join(', int(%s)' % e for _, e in scaled)))
    return k


_segment_pack_direct((1, 1, 1, 1))
for _l in COMBOS:
    _segment_pack_layout(_l)


# ------------------------------------------------------------------------- (c) RGB565 colours of the LED ring
LED = 'cflib.crazyflie.mem.led_driver_memory'
LEDT = 'cflib.crazyflie.mem.led_timings_driver_memory'
LED_CLAUSE = ('8-bit colours map monotonically onto RGB565 with black to 0 and white to full scale at full intensity')


LED_FUNCS = [LED + ':LEDDriverMemory.__init__', LED + ':LEDDriverMemory.write_data', LED + ':LED.__init__', LED + ':LED.set']
CHANNELS = {'R': (0, 11, 31), 'G': (1, 5, 63), 'B': (2, 0, 31)}        # argument position of LED.set, shift, full scale


def _led_written(c, mem):
    """shared post-conditions of LEDDriverMemory.write_data; afterwards `data` is the buffer handed to the memory handler"""
    c.ensure('no-exception', 'raised is None')
    if c.get('raised') is not None:
        return False
    c.ensure('exactly-one-write', "len(trace) == 1 and len(sent('mh.write')) == 1")
    c.snapshot('w', "sent('mh.write')[0]")
    c.ensure('write-of-this-memory-at-address-0-flushing-the-queue',
             "len(w[1]) == 3 and is_same(w[1][0], mem) and w[1][1] == 0 and len(w[2]) == 1 and w[2]['flush_queue'] is True")
    c.snapshot('data', 'w[1][2]')
    c.ensure('24-bytes', "typename(data) == 'bytearray' and len(data) == 24")
    return True


def _led_channel(ch, relational, at=None, via_set=False, **more):
    pos, shift, top = CHANNELS[ch]
    where = {'R': (0,), 'G': (5,), 'B': (11,)}[ch] if not relational else (0, 11)
    if at is not None:          # (extension round) the same contract at other positions of the ring
        where = at
    suffix = ('.monotone' if relational else '') + ('.at-' + '-'.join(map(str, at)) if at is not None else '') + ('.via-set' if via_set else '')

    @contract('C13', 'led.write_data.%s%s' % (ch, suffix), LED_FUNCS,
              clause=LED_CLAUSE + (' (channel %s: all 256 levels and all intensities 0..100 on LED%s %s of the ring; big-endian '
                                   'RRRRRGGG GGGBBBBB word per LED; %s; the other channels and LEDs are black and stay 0)'
                                   % (ch, 's' if relational else '', ' and '.join(map(str, where)),
                                      'monotone in the level and in the intensity (two LEDs compared)' if relational else
                                      'black is 0, white at intensity 100 is full scale, the nearest level at intensity 100')),
              bounded='LED(s) %s of 12 carry symbolic values, one colour channel per contract (the channels occupy disjoint bit '
                      'fields; every position with all channels: led.write_data.palette)' % (where,), max_paths=50,
              ob_timeout_ms=120000, branch_timeout_ms=20000, **more)
    def k(c):
        if c.backend == 'sym':
            c.I.cfg['int_float_small_by_solver'] = True
        mh = c.ext('mh')
        mem = c.new(LED + ':LEDDriverMemory', 4, 0x10, 24, mh)
        c.let('mem', mem)
        tags = [(str(n), i) for n, i in enumerate(where)]
        for tag, i in tags:
            led = c.snapshot('led' + tag, 'mem.leds[%d]' % i)
            rgb = [0, 0, 0]
            rgb[pos] = c.int('x' + tag, 0, 255)
            if via_set:         # the colour and the intensity "in one call", as LED.set documents it
                c.call((led, 'set'), *(rgb + [c.int('it' + tag, 0, 100)]))
                c.ensure('set-no-exception', 'raised is None')
                continue
            c.call((led, 'set'), *rgb)
            c.set(led, 'intensity', c.int('it' + tag, 0, 100))
        c.reset_trace()
        c.call((mem, 'write_data'), c.ext('cb'))
        if not _led_written(c, mem):
            return
        c.ensure('other-leds-black', 'all(data[2 * i] == 0 and data[2 * i + 1] == 0 for i in range(12) if i not in %r)' % (where,))
        for tag, i in tags:
            c.snapshot('word' + tag, 'data[%d] * 256 + data[%d]' % (2 * i, 2 * i + 1))
            c.snapshot('X' + tag, '(word%s >> %d) & %d' % (tag, shift, top))
            c.ensure('led%s-other-channels-stay-0' % tag, 'word%s == X%s << %d' % (tag, tag, shift))
            if not relational:
                c.ensure('led%s-black-is-0' % tag, 'implies(x%s == 0, X%s == 0)' % (tag, tag))
                c.ensure('led%s-intensity-0-is-0' % tag, 'implies(it%s == 0, X%s == 0)' % (tag, tag))
                c.ensure('led%s-white-is-full-scale-at-full-intensity' % tag, 'implies(x%s == 255 and it%s == 100, X%s == %d)' % (tag, tag, tag, top))
                c.ensure('led%s-nearest-level-at-full-intensity' % tag, 'implies(it%s == 100, 2 * abs(X%s * 255 - x%s * %d) <= 255)' % (tag, tag, tag, top))
        if relational:
            c.ensure('monotone-in-level', 'implies(it0 == it1 and x0 <= x1, X0 <= X1)')
            c.ensure('monotone-in-intensity', 'implies(x0 == x1 and it0 <= it1, X0 <= X1)')
    return k


for _ch in 'RGB':
    _led_channel(_ch, False)
    _led_channel(_ch, True)


@contract('C13', 'led.write_data.palette', LED_FUNCS,
          clause=LED_CLAUSE + ' (every one of the 12 positions with saturated colours - white, black, red, green, blue, yellow - at '
                              'intensities 100, 50, 0, 1, 99: the exact 24 bytes; full scale is 31/63/31, scaled down by intensity/100 rounded down)',
          bounded='concrete colours and intensities (the symbolic levels are in led.write_data.R/G/B)')
def led_palette(c):
    mh = c.ext('mh')
    mem = c.new(LED + ':LEDDriverMemory', 4, 0x10, 24, mh)
    c.let('mem', mem)
    palette = [(255, 255, 255), (0, 0, 0), (255, 0, 0), (0, 255, 0), (0, 0, 255), (255, 255, 0)]
    intens = [100, 50, 0, 1, 99]
    expected = bytearray()
    for i in range(12):
        r, g, b = palette[i % 6]
        it = intens[i % 5]
        led = c.snapshot('led%d' % i, 'mem.leds[%d]' % i)
        c.call((led, 'set'), r, g, b)
        c.set(led, 'intensity', it)
        word = ((31 * it // 100 if r else 0) << 11) | ((63 * it // 100 if g else 0) << 5) | (31 * it // 100 if b else 0)
        expected += bytes((word >> 8, word & 0xFF))
    c.let('EXPECTED', bytes(expected))
    c.reset_trace()
    c.call((mem, 'write_data'), c.ext('cb'))
    if _led_written(c, mem):
        c.ensure('exact-bytes', 'bytes(data) == EXPECTED')


def _led_timings(n):
    @contract('C13', 'led.timings.write_data.%d' % n, [LEDT + ':LEDTimingsDriverMemory.__init__', LEDT + ':LEDTimingsDriverMemory.add',
                                                       LEDT + ':LEDTimingsDriverMemory.write_data'],
              clause=LED_CLAUSE + ' (LED timing sequence of %d entr%s: per kept entry <time, RGB565 high, RGB565 low, leds | fade << 4 | '
                                  'rotate << 5>, all 256 levels per channel; an entry whose four bytes are all zero is left out because it '
                                  'would read as the terminator; four zero bytes terminate)' % (n, 'y' if n == 1 else 'ies'),
              bounded='sequences of 0, 1 and 2 entries')
    def k(c):
        mh = c.ext('mh')
        mem = c.new(LEDT + ':LEDTimingsDriverMemory', 5, 0x17, 2000, mh)
        c.let('mem', mem)
        for i in range(n):
            rgb = c.dict([('r', c.int('r%d' % i, 0, 255)), ('g', c.int('g%d' % i, 0, 255)), ('b', c.int('b%d' % i, 0, 255))])
            c.call((mem, 'add'), c.int('t%d' % i, 0, 255), rgb, c.int('leds%d' % i, 0, 15), c.bool('fade%d' % i), c.int('rot%d' % i, 0, 7))
        c.reset_trace()
        c.call((mem, 'write_data'), c.ext('cb'))
        c.ensure('no-exception', 'raised is None')
        if c.get('raised') is not None:
            return
        c.ensure('exactly-one-write', "len(trace) == 1 and len(sent('mh.write')) == 1")
        c.snapshot('w', "sent('mh.write')[0]")
        c.ensure('write-of-this-memory-at-address-0-flushing-the-queue',
                 "len(w[1]) == 3 and is_same(w[1][0], mem) and w[1][1] == 0 and len(w[2]) == 1 and w[2]['flush_queue'] is True")
        c.snapshot('data', 'w[1][2]')
        nbytes = c.concretize('len(data)')
        c.ensure('whole-entries', "typename(data) == 'bytearray' and len(data) %% 4 == 0 and 4 <= len(data) <= %d" % (4 * n + 4))
        kept = nbytes // 4 - 1
        c.ensure('terminator', 'bytes(data[%d:]) == bytes(4)' % (4 * kept))

        def zero(i):        # the entry's four bytes would all be zero: nothing to show, and the nearest RGB565 level of each channel is 0
            return ('(t%d == 0 and leds%d == 0 and not fade%d and rot%d == 0 and 2 * r%d * 31 <= 255 and 2 * g%d * 63 <= 255 '
                    'and 2 * b%d * 31 <= 255)' % ((i,) * 7))

        def slot(s, i):     # slot s of the output holds entry i
            o = 4 * s
            wd = '(data[%d] * 256 + data[%d])' % (o + 1, o + 2)
            R, G, B = '(%s >> 11)' % wd, '((%s >> 5) & 63)' % wd, '(%s & 31)' % wd
            return ('(data[%d] == t%d and data[%d] == leds%d + 16 * fade%d + 32 * rot%d and 2 * abs(%s * 255 - r%d * 31) <= 255 and '
                    '2 * abs(%s * 255 - g%d * 63) <= 255 and 2 * abs(%s * 255 - b%d * 31) <= 255 and '
                    'implies(r%d == 0, %s == 0) and implies(g%d == 0, %s == 0) and implies(b%d == 0, %s == 0) and '
                    'implies(r%d == 255, %s == 31) and implies(g%d == 255, %s == 63) and implies(b%d == 255, %s == 31))' % (
                        o, i, o + 3, i, i, i, R, i, G, i, B, i, i, R, i, G, i, B, i, R, i, G, i, B))
        if n == 1:
            c.ensure('kept-iff-not-all-zero', '%s == %s' % (kept == 0, zero(0)))
            if kept == 1:
                c.ensure('entry-0', slot(0, 0))
        if n == 2:
            if kept == 0:
                c.ensure('both-all-zero', '%s and %s' % (zero(0), zero(1)))
            elif kept == 1:
                c.ensure('one-all-zero-the-other-kept', '(%s and not %s and %s) or (not %s and %s and %s)' % (
                    zero(0), zero(1), slot(0, 1), zero(0), zero(1), slot(0, 0)))
            else:
                c.ensure('none-all-zero', 'not %s and not %s' % (zero(0), zero(1)))
                c.ensure('entries-in-order', '%s and %s' % (slot(0, 0), slot(1, 1)))
                for ch, sh, m in (('r', 11, 31), ('g', 5, 63), ('b', 0, 31)):
                    for a, b in ((0, 1), (1, 0)):
                        c.ensure('%s-monotone-%d-%d' % (ch, a, b), 'implies(%s%d <= %s%d, (((data[%d] * 256 + data[%d]) >> %d) & %d) <= '
                                 '(((data[%d] * 256 + data[%d]) >> %d) & %d))' % (ch, a, ch, b, 4 * a + 1, 4 * a + 2, sh, m, 4 * b + 1, 4 * b + 2, sh, m))
    return k


for _n in (0, 1, 2):
    _led_timings(_n)


# ------------------------------------------------------------------------- (d) received range reports and lighthouse angle streams
LOC = 'cflib.crazyflie.localization'
LOC_FUNCS = [LOC + ':Localization.__init__', LOC + ':Localization._incoming', 'cflib.utils.callbacks:Caller.add_callback',
             'cflib.utils.callbacks:Caller.call', 'cflib.crtp.crtpstack:CRTPPacket.__init__']
LOC_HEADER = (6 << 4) | (3 << 2) | 1        # localization port, generic channel


def _localization(c, payload_expr):
    """a Localization object (real constructor) with one subscriber `cb`, and a received packet with the given payload"""
    loc = c.new(LOC + ':Localization', c.ext('cf'))
    c.call((c.getfield(loc, 'receivedLocationPacket'), 'add_callback'), c.ext('cb'))
    pk = c.new('cflib.crtp.crtpstack:CRTPPacket', LOC_HEADER, c.snapshot('pkdata', payload_expr))
    c.reset_trace()
    return loc, pk


def _delivered_once(c, pk_type):
    c.ensure('no-exception', 'raised is None')
    c.ensure('exactly-one-packet-delivered', "len(trace) == 1 and len(sent('cb')) == 1 and len(sent('cb')[0][1]) == 1")
    if c.get('raised') is not None or len(c.get('trace')) != 1:
        return False
    c.snapshot('lp', "sent('cb')[0][1][0]")
    c.ensure('type-and-raw-data', "typename(lp) == 'localizationPacket' and lp.type == %d and bytes(lp.raw_data) == bytes(payload)" % pk_type)
    return True


def _range_report(k):
    @contract('C13', 'loc.range_report.%d' % k, LOC_FUNCS,
              clause='received range reports decode to exactly the anchor distances the device encoded (%d anchor(s): <id, binary32 '
                     'distance> each; any ids - a repeated id keeps the last distance, any distance bits incl. NaN, infinities, -0)' % k,
              max_paths=400)
    def f(c):
        payload = c.bytes('payload', 5 * k)
        loc, pk = _localization(c, "pack('<B', 0) + payload")
        c.call((loc, '_incoming'), pk)
        if not _delivered_once(c, 0):
            return
        n = c.concretize('len(lp.data)')
        c.ensure('is-dict', "typename(lp.data) == 'dict'")
        c.snapshot('ids', 'tuple(payload[5 * i] for i in range(%d))' % k)
        c.snapshot('dist', "tuple(unpack('<f', payload[5 * i + 1:5 * i + 5])[0] for i in range(%d))" % k)
        c.snapshot('keys', 'tuple(lp.data.keys())')
        c.snapshot('vals', 'tuple(lp.data.values())')
        c.ensure('every-anchor-id-is-a-key', 'all(any(keys[p] == ids[i] for p in range(%d)) for i in range(%d))' % (n, k))
        for p in range(n):
            c.ensure('entry-%d-is-the-last-report-of-its-anchor' % p,
                     'any(keys[%d] == ids[i] and same_float(vals[%d], dist[i]) and all(ids[j] != ids[i] for j in range(i + 1, %d)) '
                     'for i in range(%d))' % (p, p, k, k))
    return f


for _k in range(6):         # a CRTP packet carries at most 30 bytes: 1 + 5 * k <= 30
    _range_report(_k)


@contract('C13', 'loc.range_report.bad_length', LOC_FUNCS,
          clause='a range report whose payload is not a whole number of <id, distance> records delivers nothing (and an empty packet is ignored)',
          bounded='payload lengths 1, 2, 3, 4, 6, 9, 28, 29 and the empty packet')
def range_bad_length(c):
    n = c.choice('n', [-1, 1, 2, 3, 4, 6, 9, 28, 29])
    payload = c.bytes('payload', max(n, 0))
    loc, pk = _localization(c, "pack('<B', 0) + payload" if n >= 0 else 'payload')
    c.call((loc, '_incoming'), pk)
    c.ensure('no-exception', 'raised is None')
    c.ensure('nothing-delivered', 'len(trace) == 0')


def _fp16_by_contract(c):
    """calls of fp16_to_float are replaced by its contract (fp16_to_float for 0..65535, fp16_to_float.signed for the negative
    values that unpacking '<h' produces): the IEEE-754 binary16 value of the low 16 bits"""
    if c.backend == 'sym':
        from pyvc.ops import binop
        fpv = c.get('fp16_value')
        c.summary(ENC + ':fp16_to_float', lambda I, f, args, kwargs: fpv.fn(I, [binop(I, '%', args[0], 65536)], {}))
        c.assume_note('cflib.utils.encoding:fp16_to_float replaced by its contract (proved in fp16_to_float / fp16_to_float.signed)')


@contract('C13', 'fp16_to_float.signed', [ENC + ':fp16_to_float'],
          clause='half-precision decoding of the bit patterns 0x8000..0xffff when they arrive as the negative numbers -32768..-1 that '
                 "struct.unpack('<h') yields (this is how Localization._decode_lh_angle calls it)")
def fp16_signed(c):
    c.int('float16', -32768, -1)
    c.call(ENC + ':fp16_to_float', c.get('float16'))
    c.ensure('no-exception', 'raised is None')
    c.ensure('is-float', 'isinstance(result, float)')
    c.ensure('ieee-binary16-value-of-the-low-16-bits', 'same_float(result, fp16_value(float16 % 65536))')


@contract('C13', 'loc.lh_angle_stream', LOC_FUNCS + [LOC + ':Localization._decode_lh_angle'],
          clause='lighthouse angle-stream packets decode to exactly the per-sensor sweep angles the device encoded: base station, '
                 'the binary32 base angle of sensor 0 and base - binary16(offset) for sensors 1..3, for both sweeps, for every base angle '
                 'and every offset bit pattern (zero, negative zero, subnormals, infinities, NaN)')
def lh_angle(c):
    _fp16_by_contract(c)
    payload = c.bytes('payload', 21)
    loc, pk = _localization(c, "pack('<B', 10) + payload")
    c.call((loc, '_incoming'), pk)
    if not _delivered_once(c, 10):
        return
    c.snapshot('d', 'lp.data')
    c.ensure('shape', "typename(d) == 'dict' and len(d) == 3 and typename(d['x']) == 'list' and typename(d['y']) == 'list' and "
                      "len(d['x']) == 4 and len(d['y']) == 4")
    c.ensure('basestation', "d['basestation'] == payload[0]")
    for ax, o in (('x', 1), ('y', 11)):
        c.snapshot('base_' + ax, "unpack('<f', payload[%d:%d])[0]" % (o, o + 4))
        c.ensure('%s-sensor-0-is-the-base-angle' % ax, "same_float(d['%s'][0], base_%s)" % (ax, ax))
        for s in range(3):
            c.snapshot('off_%s%d' % (ax, s), "unpack('<H', payload[%d:%d])[0]" % (o + 4 + 2 * s, o + 6 + 2 * s))
            c.ensure('%s-sensor-%d-is-base-minus-half-float-offset' % (ax, s + 1),
                     "same_float(d['%s'][%d], base_%s - fp16_value(off_%s%d))" % (ax, s + 1, ax, ax, s))


@contract('C13', 'loc.lh_angle_stream.bad_length', LOC_FUNCS + [LOC + ':Localization._decode_lh_angle'],
          clause='an angle-stream packet of the wrong size is not decoded into angles: struct.error, nothing delivered',
          bounded='payload lengths 0, 1, 20, 22, 29')
def lh_angle_bad(c):
    _fp16_by_contract(c)
    n = c.choice('n', [0, 1, 20, 22, 29])
    payload = c.bytes('payload', n)
    loc, pk = _localization(c, "pack('<B', 10) + payload")
    c.call((loc, '_incoming'), pk)
    c.ensure('struct-error', "raised == 'struct.error'")
    c.ensure('nothing-delivered', 'len(trace) == 0')


# ------------------------------------------------------------------------- (a) quaternion compression (mode R)




def _isqrt_round(num, den):
    """the integer m with (m - 1/2)**2 <= num/den < (m + 1/2)**2, i.e. sqrt(num/den) rounded half up, in exact integer arithmetic"""
    # sqrt(num/den) + 1/2 = (2*sqrt(num/den) + 1) / 2 ; floor of it: largest m with (2m - 1)**2 * den <= 4 * num
    m = (math.isqrt(4 * num // den) + 1) // 2 + 2
    while m > 0 and (2 * m - 1) ** 2 * den > 4 * num:
        m -= 1
    return m


def fw_quatcompress(cs):
    """quatcompress() of the firmware's quatcompress.h for the direction cs (integers), in exact arithmetic: top two bits = index
    of the first component of largest magnitude; then for the other three, in index order, a sign bit (set when the component's
    sign differs from the largest's) and the 9-bit magnitude round(511 * sqrt(2) * |c| / |cs|)"""
    N = sum(v * v for v in cs)
    big = max(range(4), key=lambda i: (abs(cs[i]), -i))
    comp = big
    for i in range(4):
        if i != big:
            mag = _isqrt_round(2 * 511 * 511 * cs[i] * cs[i], N)
            comp = (comp << 10) | (int((cs[i] < 0) != (cs[big] < 0)) << 9) | mag
    return comp


STEP = 1.0 / (511.0 * math.sqrt(2.0))        # one quantisation step of a component


def _dirs(seed, n, lim):
    rnd = __import__('random').Random(seed)
    out = []
    while len(out) < n:
        d = tuple(rnd.randint(-lim, lim) for _ in range(4))
        if any(d):
            out.append(d)
    return out


GRID = [d for d in __import__('itertools').product((-1, 0, 1), repeat=4) if any(d)]
GENERIC = [(1, 2, 3, 4), (-1, -2, -3, -4), (1, 2, 3, -4), (-4, 3, 2, 1), (2, -40, 3, 1), (3, 1, -4, -2), (1, -2, -3, 9), (1, 2, 3, -9),
           (10, -95, 20, 10), (5, 5, 5, -6), (7, 7, -7, 5), (0, 0, -29, 71), (0, 0, 71, -29), (100, 1, -1, -100), (-3, 0, 0, 1),
           (1000, 1, 0, -1), (-1000, 999, 0, 0), (1, 1, 1, -1000), (707, -708, 1, 0), (-500, 500, -500, 501)]
QUAT_SETS = {'signs_zeros_ties': GRID[:40], 'signs_zeros_ties_2': GRID[40:], 'generic': GENERIC + _dirs(13, 30, 9),
             'random_1': _dirs(131, 45, 100), 'random_2': _dirs(1313, 45, 1000)}


def _quat_grid(name, dirs, **more):
    @contract('C13', 'quat.compress.' + name, [ENC + ':compress_quaternion', ENC + ':decompress_quaternion'],
              clause='compressing a non-zero quaternion q = k * d (any scale k: unnormalised input; negated inputs; ties for the largest '
                     'component) gives exactly the 32-bit word of the firmware layout (quatcompress.h): index of the first component of '
                     'largest magnitude, then, for the three others in index order, sign relative to the largest and the magnitude '
                     'round(511 * sqrt(2) * |component| / |q|) <= 511; decompressing that word yields the same rotation (q/|q| up to the '
                     'common sign) with every component within two quantisation steps',
              bounded='%d directions d (%s): components in {-1, 0, 1} (all 80 sign / zero / tie patterns), hand-picked and seeded random '
                      'integer directions; the scale k is symbolic in [0.001, 1000].  Fully symbolic directions: see the module docstring'
                      % (len(dirs), name), float_mode='R', max_paths=400, **more)
    def k(c):
        c.float('k')
        c.require('0.001 <= k <= 1000')
        d = c.choice('d', dirs)
        q = c.snapshot('q', '[%d * k, %d * k, %d * k, %d * k]' % tuple(d))
        word = fw_quatcompress(d)
        c.let('EXPECTED', word)
        c.call(ENC + ':compress_quaternion', q)
        c.ensure('no-exception', 'raised is None')
        c.ensure('fits-32-bits', "typename(result) == 'int' and 0 <= result < 2 ** 32")
        c.ensure('firmware-layout-word', 'result == EXPECTED')
        # round trip: the word the firmware layout prescribes (just shown to be the result) through the real decompressor
        norm = math.sqrt(sum(v * v for v in d))
        big = word >> 30
        sgn = -1.0 if d[big] < 0 else 1.0
        c.let('U', [sgn * v / norm for v in d])      # the unit quaternion of the same rotation whose largest component is positive
        c.let('TWO_STEPS', 2 * STEP)
        c.call(ENC + ':decompress_quaternion', word)
        c.ensure('decompress-no-exception', 'raised is None and len(result) == 4')
        if c.get('raised') is None:
            for i in range(4):
                c.ensure('round-trip-component-%d-within-two-steps' % i, 'abs(result[%d] - U[%d]) <= TWO_STEPS' % (i, i))
    return k


for _name in sorted(QUAT_SETS):
    _quat_grid(_name, QUAT_SETS[_name])


MAG_TRIPLES = [(0, 0, 0), (511, 0, 0), (0, 0, 511), (511, 511, 0), (0, 511, 511), (361, 361, 361), (1, 2, 3), (255, 256, 300),
               (417, 100, 417), (510, 1, 511)]


@contract('C13', 'quat.decompress.fields', [ENC + ':decompress_quaternion'],
          clause='decompressing a 32-bit word whose magnitudes describe a unit quaternion: the component named by the top two bits is '
                 'sqrt(1 - sum of the squares of the others) >= 0; the others are, in index order, sign * magnitude / 511 / sqrt(2) '
                 'with the 9-bit magnitude and the sign bit of their 10-bit field',
          bounded='every index of the largest component and every sign pattern, with %d magnitude triples (zeros, full scale, the '
                  'boundary sum of squares == 1, generic); fully symbolic words are undecided for the solver (integer div/mod mixed '
                  'with non-linear real arithmetic)' % len(MAG_TRIPLES), float_mode='R', max_paths=800)
def quat_decompress(c):
    big = c.choice('big', [0, 1, 2, 3])
    negs = c.choice('negs', [(a, b, d) for a in (0, 1) for b in (0, 1) for d in (0, 1)])
    mags = c.choice('mags', MAG_TRIPLES)
    c.let('SQRT2', math.sqrt(2.0))
    c.let('TOL', 1e-9)
    comp = (big << 30) | (negs[0] << 29) | (mags[0] << 20) | (negs[1] << 19) | (mags[1] << 10) | (negs[2] << 9) | mags[2]
    c.call(ENC + ':decompress_quaternion', comp)
    c.ensure('no-exception', 'raised is None and len(result) == 4')
    if c.get('raised') is not None:
        return
    others = [i for i in range(4) if i != big]
    for pos, i in enumerate(others):
        # SQRT2 is the double nearest to sqrt(2), the code divides by the exact one: equal up to TOL
        c.ensure('component-%d-is-signed-magnitude-over-511-sqrt2' % i,
                 'abs(result[%d] * 511 * SQRT2 - (%d)) <= TOL' % (i, -mags[pos] if negs[pos] else mags[pos]))
    c.ensure('largest-component-completes-the-unit-quaternion',
             'result[%d] >= 0 and abs(result[0] ** 2 + result[1] ** 2 + result[2] ** 2 + result[3] ** 2 - 1) <= TOL' % big)


# ===================================================================================================== extension round
# Histories (several real calls on one real object), second objects, error exits and boundary values.

# ------------------------------------------------------------------------- localization: a decoder without memory
FIRST_PACKETS = {                 # name -> (type byte, payload length, exception the first call ends with)
    'range-1-anchor': (0, 5, None), 'range-3-anchors': (0, 15, None), 'range-bad-length': (0, 7, None),
    'angles': (10, 21, None), 'angles-bad-length': (10, 20, 'struct.error'), 'persist-ack': (11, 1, None), 'other-type': (5, 4, None),
}


def _loc_history(second):
    @contract('C13', 'loc.history.then-%s' % second, LOC_FUNCS + [LOC + ':Localization._decode_lh_angle'],
              clause='received range reports and lighthouse angle-stream packets decode to exactly the values the device encoded - every '
                     'packet by itself: a %s packet received by a Localization object that has already received (and decoded, rejected or '
                     'failed on) another packet decodes to exactly its own content, in fresh containers, and what was delivered for the '
                     'earlier packet is not altered by it' % ('two-anchor range report' if second == 'range' else 'lighthouse angle-stream'),
              bounded='histories of two packets; the first one is one of %s' % sorted(FIRST_PACKETS), max_paths=400)
    def k(c):
        _fp16_by_contract(c)
        first = c.choice('first', sorted(FIRST_PACKETS))
        ptype, n, exc = FIRST_PACKETS[first]
        c.bytes('payload0', n)
        c.let('T0', ptype)
        loc, pk0 = _localization(c, "pack('<B', T0) + payload0")
        c.call((loc, '_incoming'), pk0)
        c.ensure('first-packet-ends-as-expected', 'raised == %r' % exc)
        n0 = c.concretize("len(sent('cb'))")
        c.ensure('first-packet-delivered-at-most-once', "len(sent('cb')) <= 1")
        if n0 == 1:
            c.snapshot('lp0', "sent('cb')[0][1][0]")
            if first.startswith('range-') and n % 5 == 0:
                c.snapshot('old', 'tuple(lp0.data.items())')
            elif first == 'angles':
                c.snapshot('old', "(lp0.data['basestation'], tuple(lp0.data['x']), tuple(lp0.data['y']))")
        c.bytes('payload', 10 if second == 'range' else 21)
        pk = c.new('cflib.crtp.crtpstack:CRTPPacket', LOC_HEADER, c.snapshot('pkdata1', "pack('<B', %d) + payload" % (0 if second == 'range' else 10)))
        c.call((loc, '_incoming'), pk)
        c.ensure('no-exception', 'raised is None')
        c.ensure('delivered-once-more', "len(sent('cb')) == %d" % (n0 + 1))
        if c.get('raised') is not None or c.concretize("len(sent('cb'))") != n0 + 1:
            return
        c.snapshot('lp', "sent('cb')[%d][1][0]" % n0)
        c.ensure('type-and-raw-data', "typename(lp) == 'localizationPacket' and lp.type == %d and bytes(lp.raw_data) == bytes(payload)" % (0 if second == 'range' else 10))
        c.snapshot('d', 'lp.data')
        if second == 'range':
            c.snapshot('dist', "tuple(unpack('<f', payload[5 * i + 1:5 * i + 5])[0] for i in range(2))")
            nkeys = c.concretize('len(d)')
            c.snapshot('items', 'tuple(d.items())')
            if nkeys == 1:
                c.ensure('only-its-own-anchors', "typename(d) == 'dict' and payload[0] == payload[5] and items[0][0] == payload[5] and same_float(items[0][1], dist[1])")
            else:
                c.ensure('only-its-own-anchors', "typename(d) == 'dict' and len(d) == 2 and payload[0] != payload[5] and items[0][0] == payload[0] and "
                                                 "same_float(items[0][1], dist[0]) and items[1][0] == payload[5] and same_float(items[1][1], dist[1])")
        else:
            c.ensure('shape', "typename(d) == 'dict' and len(d) == 3 and typename(d['x']) == 'list' and typename(d['y']) == 'list' and "
                              "len(d['x']) == 4 and len(d['y']) == 4 and d['basestation'] == payload[0]")
            for ax, o in (('x', 1), ('y', 11)):
                c.snapshot('base_' + ax, "unpack('<f', payload[%d:%d])[0]" % (o, o + 4))
                c.ensure('%s-sensor-0-is-the-base-angle' % ax, "same_float(d['%s'][0], base_%s)" % (ax, ax))
                for s in range(3):
                    c.snapshot('off_%s%d' % (ax, s), "unpack('<H', payload[%d:%d])[0]" % (o + 4 + 2 * s, o + 6 + 2 * s))
                    c.ensure('%s-sensor-%d-is-base-minus-half-float-offset' % (ax, s + 1),
                             "same_float(d['%s'][%d], base_%s - fp16_value(off_%s%d))" % (ax, s + 1, ax, ax, s))
        if n0 == 1:
            c.ensure('fresh-containers', "not is_same(lp0.data, d)" + (
                " and not is_same(lp0.data['x'], d['x']) and not is_same(lp0.data['y'], d['y']) and not is_same(d['x'], d['y'])"
                if first == 'angles' and second == 'angles' else ''))
            if first.startswith('range-') and n % 5 == 0:
                c.ensure('earlier-delivery-unaltered', 'len(lp0.data) == len(old) and all(same_float(a[1], b[1]) and a[0] == b[0] for a, b in zip(tuple(lp0.data.items()), old))')
            elif first == 'angles':
                c.ensure('earlier-delivery-unaltered', "lp0.data['basestation'] == old[0] and all(same_float(a, b) for a, b in zip(tuple(lp0.data['x']) + tuple(lp0.data['y']), old[1] + old[2]))")
    return k


_loc_history('range')
_loc_history('angles')


# ------------------------------------------------------------------------- LED ring: the documented setter, histories, second objects
# FINDING (unchanged tree; reported, see the report of the extension round): LED.set(r, g, b, intensity) ignores intensity == 0
# (`if intensity:`), so "all intensities" through the documented one-call setter is not monotone: set(255, 255, 255, 0) on a
# fresh LED is written as full-scale white (intensity stays 100) while set(255, 255, 255, 1) is written as 0.  The contract
# states the property through that setter; it is kept under thorough_only so that the quick tier stays green.
_led_channel('R', False, at=(3,), via_set=True, thorough_only=True)

# (e) thorough tier: the symbolic LED at every other position of the ring (the loop body is the same for every LED; a change that
# treats positions differently is seen here symbolically and in led.write_data.palette concretely)
for _p in range(12):
    if _p not in (0, 5, 11):
        _led_channel('RGB'[_p % 3], False, at=(_p,), thorough_only=True)
_led_channel('G', True, at=(4, 7), thorough_only=True)


@contract('C13', 'led.write_data.rgb', LED_FUNCS,
          clause=LED_CLAUSE + ' (all three channels of one LED symbolic at once, any intensity: the word is exactly the three fields '
                              'R << 11 | G << 5 | B, each field what its channel alone gives - no carry or crosstalk between the fields; '
                              'black -> 0, white at intensity 100 -> 0xffff)',
          bounded='LED 7 of 12 carries the symbolic colour; the other positions: led.write_data.palette', max_paths=50,
          ob_timeout_ms=120000, branch_timeout_ms=20000, thorough_only=True)
def led_rgb(c):
    if c.backend == 'sym':
        c.I.cfg['int_float_small_by_solver'] = True
    mh = c.ext('mh')
    mem = c.new(LED + ':LEDDriverMemory', 4, 0x10, 24, mh)
    c.let('mem', mem)
    led = c.snapshot('led', 'mem.leds[7]')
    c.call((led, 'set'), c.int('r', 0, 255), c.int('g', 0, 255), c.int('b', 0, 255))
    c.set(led, 'intensity', c.int('it', 0, 100))
    c.reset_trace()
    c.call((mem, 'write_data'), c.ext('cb'))
    if not _led_written(c, mem):
        return
    c.ensure('other-leds-black', 'all(data[2 * i] == 0 and data[2 * i + 1] == 0 for i in range(12) if i != 7)')
    c.snapshot('word', 'data[14] * 256 + data[15]')
    c.snapshot('R', 'word >> 11'), c.snapshot('G', '(word >> 5) & 63'), c.snapshot('B', 'word & 31')
    # the full-scale level of each channel (nearest level), then scaled by intensity / 100 and rounded down
    for X, x, top in (('R', 'r', 31), ('G', 'g', 63), ('B', 'b', 31)):
        c.snapshot(X + 'full', '(2 * %s * %d + 255) // 510' % (x, top))
        c.ensure('%s-field-is-its-channel-alone' % X, '%s * 100 <= %sfull * it < (%s + 1) * 100' % (X, X, X))
    c.ensure('black-is-0', 'implies(r == 0 and g == 0 and b == 0, word == 0)')
    c.ensure('white-at-full-intensity-is-full-scale', 'implies(r == 255 and g == 255 and b == 255 and it == 100, word == 65535)')


PALETTE_A = [(255, 255, 255, 100), (0, 0, 0, 100), (255, 0, 0, 50), (0, 255, 0, 1), (0, 0, 255, 99), (255, 255, 0, 100),
             (8, 4, 8, 100), (7, 3, 7, 100), (128, 128, 128, 100), (1, 1, 1, 100), (254, 254, 254, 100), (100, 150, 200, 37)]
PALETTE_B = [(0, 0, 0, 100), (255, 255, 255, 100), (0, 0, 255, 100), (255, 0, 0, 100), (0, 255, 0, 100), (9, 9, 9, 100),
             (0, 0, 0, 0), (255, 255, 255, 1), (255, 255, 255, 4), (17, 34, 51, 100), (200, 100, 50, 73), (5, 2, 5, 100)]


def _rgb565(palette):
    """the RGB565 image of the ring in exact integer arithmetic, independent of the code: nearest 5/6/5-bit level of each 8-bit
    level, scaled by intensity / 100 and rounded down, big-endian RRRRRGGG GGGBBBBB"""
    out = bytearray()
    for r, g, b, it in palette:
        R, G, B = ((2 * r * 31 + 255) // 510) * it // 100, ((2 * g * 63 + 255) // 510) * it // 100, ((2 * b * 31 + 255) // 510) * it // 100
        out += bytes(((R << 3) | (G >> 3), ((G & 7) << 5) | B))
    return bytes(out)


@contract('C13', 'led.write_data.history', LED_FUNCS + [LED + ':LEDDriverMemory.write_done', LED + ':LEDDriverMemory.disconnect'],
          clause=LED_CLAUSE + ' - on every use of the object: a ring that is written, acknowledged (write_done) or disconnected, recoloured and written '
                              'again transmits exactly the RGB565 image of its current colours each time (nothing cached, nothing left over), '
                              'and a second LEDDriverMemory object created meanwhile is black and independent of the first',
          bounded='two concrete 12-LED palettes (saturated, near the rounding boundaries of the 5/6-bit levels, low intensities); two '
                  'writes of one object and one write of a second object')
def led_history(c):
    mh = c.ext('mh')
    mem = c.new(LED + ':LEDDriverMemory', 4, 0x10, 24, mh)
    c.let('mem', mem)
    c.let('A', _rgb565(PALETTE_A)), c.let('B', _rgb565(PALETTE_B)), c.let('BLACK', bytes(24))

    def paint(m, palette):
        c.let('leds', c.getfield(m, 'leds'))
        for i, (r, g, b, it) in enumerate(palette):
            led = c.snapshot('led', 'leds[%d]' % i)
            c.call((led, 'set'), r, g, b)
            c.set(led, 'intensity', it)

    paint(mem, PALETTE_A)
    c.reset_trace()
    c.call((mem, 'write_data'), c.ext('cb'))
    if not _led_written(c, mem):
        return
    c.ensure('first-image', 'bytes(data) == A')
    if c.choice('outcome', ['write_done', 'disconnect']) == 'write_done':
        c.call((mem, 'write_done'), mem, 0)
    else:
        c.call((mem, 'disconnect'))
    c.ensure('acknowledged', "raised is None and len(sent('mh.write')) == 1")
    other = c.new(LED + ':LEDDriverMemory', 5, 0x10, 24, mh)
    c.let('other', other)
    c.ensure('second-object-has-its-own-12-leds', 'len(other.leds) == 12 and len(mem.leds) == 12 and '
             'all(not is_same(a, b) for a in other.leds for b in mem.leds)')
    paint(mem, PALETTE_B)
    c.reset_trace()
    c.call((mem, 'write_data'), c.ext('cb2'))
    if not _led_written(c, mem):
        return
    c.ensure('second-image-is-the-current-colours', 'bytes(data) == B')
    c.reset_trace()
    c.call((other, 'write_data'), c.ext('cb3'))
    c.let('mem', other)
    if not _led_written(c, other):
        return
    c.ensure('second-object-is-black', 'bytes(data) == BLACK')


# ------------------------------------------------------------------------- LED timings: longer sequences, histories, second objects
def _timing_zero(i):        # entry i would be transmitted as four zero bytes (the nearest RGB565 level of each channel is 0)
    return ('(t%d == 0 and leds%d == 0 and not fade%d and rot%d == 0 and 2 * r%d * 31 <= 255 and 2 * g%d * 63 <= 255 '
            'and 2 * b%d * 31 <= 255)' % ((i,) * 7))


def _timing_slot(s, i):     # slot s of the image holds entry i: time, RGB565 (nearest level per channel, 0 -> 0, 255 -> full scale), flags
    o = 4 * s
    wd = '(data[%d] * 256 + data[%d])' % (o + 1, o + 2)
    R, G, B = '(%s >> 11)' % wd, '((%s >> 5) & 63)' % wd, '(%s & 31)' % wd
    return ('(data[%d] == t%d and data[%d] == leds%d + 16 * fade%d + 32 * rot%d and 2 * abs(%s * 255 - r%d * 31) <= 255 and '
            '2 * abs(%s * 255 - g%d * 63) <= 255 and 2 * abs(%s * 255 - b%d * 31) <= 255 and '
            'implies(r%d == 0, %s == 0) and implies(g%d == 0, %s == 0) and implies(b%d == 0, %s == 0) and '
            'implies(r%d == 255, %s == 31) and implies(g%d == 255, %s == 63) and implies(b%d == 255, %s == 31))' % (
                o, i, o + 3, i, i, i, R, i, G, i, B, i, i, R, i, G, i, B, i, R, i, G, i, B))


def _timing_add(c, mem, i):
    rgb = c.dict([('r', c.int('r%d' % i, 0, 255)), ('g', c.int('g%d' % i, 0, 255)), ('b', c.int('b%d' % i, 0, 255))])
    c.call((mem, 'add'), c.int('t%d' % i, 0, 255), rgb, c.int('leds%d' % i, 0, 15), c.bool('fade%d' % i), c.int('rot%d' % i, 0, 7))


def _timing_written(c, mem):
    c.ensure('no-exception', 'raised is None')
    if c.get('raised') is not None:
        return False
    c.ensure('exactly-one-write', "len(sent('mh.write')) == 1")
    c.snapshot('w', "sent('mh.write')[0]")
    c.ensure('write-of-this-memory-at-address-0-flushing-the-queue',
             "len(w[1]) == 3 and is_same(w[1][0], mem) and w[1][1] == 0 and len(w[2]) == 1 and w[2]['flush_queue'] is True")
    c.snapshot('data', 'w[1][2]')
    return True


def _timing_image(c, tag, entries):
    """the image in `data` is exactly: the given entries (indices of the inputs) that are not all-zero, in order, then the terminator.
    The contract has already forked on which entries are all-zero; `entries` are the ones that are not."""
    c.ensure(tag + 'length', "typename(data) == 'bytearray' and len(data) == %d" % (4 * len(entries) + 4))
    if c.concretize('len(data)') != 4 * len(entries) + 4:
        return
    for s, i in enumerate(entries):
        c.ensure(tag + 'slot-%d-is-entry-%d' % (s, i), _timing_slot(s, i))
    c.ensure(tag + 'terminator', 'bytes(data[%d:]) == bytes(4)' % (4 * len(entries)))
    for ch, sh, m in (('r', 11, 31), ('g', 5, 63), ('b', 0, 31)):        # monotone: compared between neighbouring kept entries
        for s in range(len(entries) - 1):
            a, b = entries[s], entries[s + 1]
            Xa = '(((data[%d] * 256 + data[%d]) >> %d) & %d)' % (4 * s + 1, 4 * s + 2, sh, m)
            Xb = '(((data[%d] * 256 + data[%d]) >> %d) & %d)' % (4 * s + 5, 4 * s + 6, sh, m)
            c.ensure(tag + '%s-monotone-entries-%d-%d' % (ch, a, b), 'implies(%s%d <= %s%d, %s <= %s) and implies(%s%d >= %s%d, %s >= %s)' % (
                ch, a, ch, b, Xa, Xb, ch, a, ch, b, Xa, Xb))


def _led_timings_long(n, max_paths=600, **more):
    @contract('C13', 'led.timings.write_data.%d' % n, [LEDT + ':LEDTimingsDriverMemory.__init__', LEDT + ':LEDTimingsDriverMemory.add',
                                                       LEDT + ':LEDTimingsDriverMemory.write_data'],
              clause=LED_CLAUSE + ' (LED timing sequence of %d entries: the image is, in order, one record <time, RGB565 high, RGB565 low, '
                                  'leds | fade << 4 | rotate << 5> per entry that is not all-zero - all 256 levels per channel, monotone between '
                                  'entries - and then four zero bytes)' % n,
              bounded='sequences of %d entries (0, 1, 2: led.timings.write_data.0/1/2)' % n, max_paths=max_paths, **more)
    def k(c):
        mh = c.ext('mh')
        mem = c.new(LEDT + ':LEDTimingsDriverMemory', 5, 0x17, 2000, mh)
        c.let('mem', mem)
        kept = []
        for i in range(n):
            _timing_add(c, mem, i)
            if not c.concretize(c.snapshot('z%d' % i, _timing_zero(i))):
                kept.append(i)
        c.reset_trace()
        c.call((mem, 'write_data'), c.ext('cb'))
        if _timing_written(c, mem):
            _timing_image(c, '', kept)
    return k


_led_timings_long(3)
_led_timings_long(4, thorough_only=True)
_led_timings_long(5, thorough_only=True, max_paths=1100)


@contract('C13', 'led.timings.history', [LEDT + ':LEDTimingsDriverMemory.__init__', LEDT + ':LEDTimingsDriverMemory.add',
                                         LEDT + ':LEDTimingsDriverMemory.write_data', LEDT + ':LEDTimingsDriverMemory.write_done',
                                         LEDT + ':LEDTimingsDriverMemory.disconnect'],
          clause=LED_CLAUSE + ' - on every use of the object: a timing memory that is written, acknowledged (write_done) or disconnected, extended by another '
                              'entry and written again (without a new callback) transmits the image of its current sequence each time, and a '
                              'second LEDTimingsDriverMemory object created meanwhile starts empty (terminator only)',
          bounded='one entry, then a second one; two writes of one object and one write of a second object', max_paths=200)
def led_timings_history(c):
    mh = c.ext('mh')
    mem = c.new(LEDT + ':LEDTimingsDriverMemory', 5, 0x17, 2000, mh)
    first = mem
    c.let('mem', mem)
    kept = []
    _timing_add(c, mem, 0)
    if not c.concretize(c.snapshot('z0', _timing_zero(0))):
        kept.append(0)
    c.reset_trace()
    c.call((mem, 'write_data'), c.ext('cb'))
    if not _timing_written(c, mem):
        return
    _timing_image(c, 'first-write-', kept)
    if c.choice('outcome', ['write_done', 'disconnect']) == 'write_done':
        c.call((mem, 'write_done'), mem, 0)
    else:
        c.call((mem, 'disconnect'))
    c.ensure('acknowledged', "raised is None and len(sent('mh.write')) == 1")
    other = c.new(LEDT + ':LEDTimingsDriverMemory', 6, 0x17, 2000, mh)
    _timing_add(c, first, 1)
    if not c.concretize(c.snapshot('z1', _timing_zero(1))):
        kept.append(1)
    c.reset_trace()
    c.call((first, 'write_data'), None)
    if not _timing_written(c, first):
        return
    _timing_image(c, 'second-write-', kept)
    c.let('mem', other)
    c.reset_trace()
    c.call((other, 'write_data'), c.ext('cb2'))
    if _timing_written(c, other):
        _timing_image(c, 'second-object-', [])


# ------------------------------------------------------------------------- compressed trajectories: any magnitude, second use, upload
def _traj_far(name, meth, scaled, unit):
    @contract('C13', 'traj.%s.far' % name, [TRJ + ':_CompressedBase.' + meth],
              clause=TRJ_CLAUSE + ' (%s, EVERY finite float of any magnitude: a scaled value at or beyond the ends of the signed 16-bit '
                                  'range is encoded as an integer at or beyond the same end - so that packing it raises, see '
                                  'traj.segment.pack_element.N / traj.start.pack.overflow.* - and a value inside is encoded inside)' % unit,
              ob_timeout_ms=300000)
    def k(c):
        self = c.new(TRJ + ':CompressedStart', 0.0, 0.0, 0.0, 0.0)
        c.float('x')
        c.let('DEG', DEG)
        c.require('not is_nan(%s) and not is_inf(%s)' % (scaled, scaled))
        c.call((self, meth), c.get('x'))
        c.ensure('no-exception', "raised is None and typename(result) == 'int'")
        c.ensure('beyond-the-upper-end-stays-beyond', 'iff(%s >= 32768, result >= 32768)' % scaled)
        c.ensure('beyond-the-lower-end-stays-beyond', 'iff(%s <= -32769, result <= -32769)' % scaled)
    return k


_traj_far('encode_spatial', '_encode_spatial', 'x * 1000', 'millimetres')
_traj_far('encode_yaw', '_encode_yaw', 'x * DEG * 10', 'tenths of a degree')


def _traj_start_overflow(which):
    names = ['x', 'y', 'z', 'yaw']

    @contract('C13', 'traj.start.pack.overflow.' + names[which],
              [TRJ + ':CompressedStart.__init__', TRJ + ':CompressedStart.pack', TRJ + ':_CompressedBase._encode_spatial',
               TRJ + ':_CompressedBase._encode_yaw'],
              clause=TRJ_CLAUSE + ' (start point, field %s EVERY float of any magnitude incl. NaN and infinities, the others in '
                                  'range: bytes are returned iff the scaled value lies strictly between -32769 and 32768; otherwise an '
                                  'exception - struct.error when it is finite - never a wrapped or clamped field)' % names[which],
              bounded='one of the four fields is an arbitrary float (one contract per field), the three others are concrete in-range '
                      'values (all four symbolic within |value| <= 1e6: traj.start.pack)', ob_timeout_ms=300000)
    def traj_start_overflow(c):
        c.float('v')
        c.let('DEG', DEG)
        vals = [1.5, -2.25, 0.001, -3.0]
        vals[which] = c.get('v')
        scaled = 'v * 1000' if which < 3 else 'v * DEG * 10'
        self = c.new(TRJ + ':CompressedStart', *vals)
        c.call((self, 'pack'))
        c.ensure('raises-iff-the-value-does-not-fit-16-bits', 'iff(raised is None, %s)' % (IN16 % scaled))
        c.ensure('declared-errors-only', "raised in (None, 'struct.error', 'ValueError', 'OverflowError')")
        c.ensure('finite-overflow-raises-struct-error', "implies(raised is not None and not is_nan(%s) and not is_inf(%s), raised == 'struct.error')" % (scaled, scaled))
        if c.get('raised') is None:
            c.ensure('eight-bytes', "typename(result) == 'bytearray' and len(result) == 8")
            c.snapshot('f', "unpack('<hhhh', bytes(result))")
            c.ensure('the-other-fields-are-unaffected', 'all(f[i] == (1500, -2250, 1, -1718)[i] for i in range(4) if i != %d)' % which)
    return traj_start_overflow


for _w in range(4):
    _traj_start_overflow(_w)


@contract('C13', 'traj.segment.pack.twice', SEG_FUNCS,
          clause=TRJ_CLAUSE + ' - on every use of the object: packing the same segment a second time gives the same bytes as the first '
                              'time (the encoded control points are not consumed or altered by packing)',
          bounded=BOUND + '; a segment with 1/1/1/1 control points (every axis non-empty)', ob_timeout_ms=90000)
def traj_segment_twice(c):
    lens = (1, 1, 1, 1)
    seg, scaled = _segment_inputs(c, lens)
    c.require(' and '.join(['(0 <= int(duration * 1000.0) <= 65535)'] + ['(-32768 <= int(%s) <= 32767)' % e for _, e in scaled]))
    c.call((seg, 'pack'))
    c.ensure('first-no-exception', 'raised is None')
    c.snapshot('first', 'bytes(result)')
    c.call((seg, 'pack'))
    c.ensure('second-no-exception', 'raised is None')
    if c.get('raised') is None:
        c.ensure('second-whole-packet', "bytes(result) == pack('<BH%s', %d, int(duration * 1000.0)%s)" % (
            'h' * sum(lens), _type_byte(lens), ''.join(', int(%s)' % e for _, e in scaled)))
        c.ensure('same-bytes-both-times', 'bytes(result) == first')


TMEM_FUNCS = [TRJ + ':TrajectoryMemory.__init__', TRJ + ':TrajectoryMemory.write_data', TRJ + ':TrajectoryMemory.poly4Ds',
              TRJ + ':CompressedStart.pack'] + SEG_FUNCS


def _traj_upload(name, seglens, **more):
    @contract('C13', 'traj.write_data.compressed.' + name, TMEM_FUNCS,
              clause=TRJ_CLAUSE + ' (a whole compressed trajectory - start point and %d segment(s) with %s control points - handed to the '
                                  'trajectory memory through `trajectory` or its deprecated alias `poly4Ds`: exactly one write, at the '
                                  'requested address, of the start record followed by the segment records in order, every field the value '
                                  'of _encode_spatial / _encode_yaw (error < 1 unit: traj.encode_*.error); the byte count is returned; if any '
                                  'value does not fit 16 bits struct.error is raised and nothing is written)' % (len(seglens), seglens),
              bounded=BOUND + '; this shape of trajectory', ob_timeout_ms=90000, max_paths=300, **more)
    def k(c):
        c.let('DEG', DEG)
        mh = c.ext('mh')
        mem = c.new(TRJ + ':TrajectoryMemory', 3, 0x12, 4096, mh)
        c.let('mem', mem)
        fields = []         # (struct code, spec expression of the encoded value)
        inputs = []
        for n in ('sx', 'sy', 'sz', 'syaw'):
            c.float(n)
            inputs.append((n, '%s * 1000' % n if n != 'syaw' else 'syaw * DEG * 10'))
        elements = [c.new(TRJ + ':CompressedStart', *[c.get(n) for n in ('sx', 'sy', 'sz', 'syaw')])]
        fields += [('h', 'int(%s)' % e) for _, e in inputs]
        for s, lens in enumerate(seglens):
            d = 'dur%d' % s
            c.float(d)
            inputs.append((d, d + ' * 1000.0'))
            fields += [('B', str(_type_byte(lens))), ('H', 'int(%s * 1000.0)' % d)]
            els = []
            for ax, n in zip(('x', 'y', 'z', 'yaw'), lens):
                nm = 'e%d%s' % (s, ax)
                els.append(c.floats(nm, n))
                for i in range(n):
                    e = '%s[%d] * 1000' % (nm, i) if ax != 'yaw' else '%s[%d] * DEG * 10' % (nm, i)
                    inputs.append(('%s[%d]' % (nm, i), e))
                    fields.append(('h', 'int(%s)' % e))
            elements.append(c.new(TRJ + ':CompressedSegment', c.get(d), *els))
        _bounded_inputs(c, [a for a, _ in inputs], [e for _, e in inputs])
        c.let('elements', elements)
        via = c.choice('via', ['trajectory', 'poly4Ds'])
        c.snapshot('_', 'setattr(mem, %r, elements)' % via)
        c.ensure('both-names-give-the-elements-that-were-set', 'all(len(l) == %d and all(is_same(a, b) for a, b in zip(l, elements)) '
                 'for l in (mem.trajectory, mem.poly4Ds))' % len(elements))
        c.int('start', 0, 4095)
        c.reset_trace()
        if via == 'trajectory':
            c.call((mem, 'write_data'), c.ext('done'), c.ext('failed'), c.get('start'))
        else:
            c.call((mem, 'write_data'), c.ext('done'), start_addr=c.get('start'))
        fits = ['(%s <= %s <= %s)' % ({'h': -32768, 'H': 0}[code], e, {'h': 32767, 'H': 65535}[code]) for code, e in fields if code != 'B']
        c.ensure('raises-iff-a-value-does-not-fit-16-bits', 'iff(raised is None, %s)' % ' and '.join(fits))
        c.ensure('struct-error-only', "raised in (None, 'struct.error')")
        if c.get('raised') is not None:
            c.ensure('nothing-written-on-overflow', "len(sent('mh.write')) == 0")
            return
        c.ensure('exactly-one-write', "len(sent('mh.write')) == 1")
        c.snapshot('w', "sent('mh.write')[0]")
        c.ensure('write-of-this-memory-at-the-requested-address-flushing-the-queue',
                 "len(w[1]) == 3 and is_same(w[1][0], mem) and w[1][1] == start and len(w[2]) == 1 and w[2]['flush_queue'] is True")
        c.ensure('whole-image', "bytes(w[1][2]) == pack('<%s', %s)" % (''.join(code for code, _ in fields), ', '.join(e for _, e in fields)))
        c.ensure('returns-the-byte-count', 'result == len(w[1][2]) and result == %d' % sum(1 if code == 'B' else 2 for code, _ in fields))
    return k


_traj_upload('start+1', [(1, 0, 3, 1)])
_traj_upload('start+2', [(1, 1, 1, 1), (3, 7, 0, 1)], thorough_only=True)


def _concrete_traj(c, points):
    """a CompressedStart and CompressedSegments (real constructors) from concrete numbers, and the image the firmware format prescribes"""
    x, y, z, yaw = points[0]
    els = [c.new(TRJ + ':CompressedStart', x, y, z, yaw)]
    img = struct_pack('<hhhh', int(x * 1000), int(y * 1000), int(z * 1000), int(math.degrees(yaw) * 10))
    for dur, ex, ey, ez, eyaw in points[1:]:
        els.append(c.new(TRJ + ':CompressedSegment', dur, list(ex), list(ey), list(ez), list(eyaw)))
        img += struct_pack('<BH', _type_byte((len(ex), len(ey), len(ez), len(eyaw))), int(dur * 1000.0))
        for el, scale in ((ex, 1000), (ey, 1000), (ez, 1000)):
            img += b''.join(struct_pack('<h', int(v * scale)) for v in el)
        img += b''.join(struct_pack('<h', int(math.degrees(v) * 10)) for v in eyaw)
    return els, img


TRAJ_A = [(0.5, -1.25, 1.0, 0.0), (2.0, [1.0], [-0.001], [32.767, -32.768, 0.0009], [3.14159]),
          (0.25, [], [0.1, 0.2, 0.3, 0.4, 0.5, 0.6, 0.7], [], [-1.0, 1.0, 0.5])]
TRAJ_B = [(-3.0, 2.0, 0.125, 1.5), (65.535, [0.75, -0.75, 0.5], [], [2.0], [])]


@contract('C13', 'traj.write_data.history', TMEM_FUNCS + [TRJ + ':TrajectoryMemory.write_done', TRJ + ':TrajectoryMemory.write_failed',
                                                          TRJ + ':TrajectoryMemory.disconnect'],
          clause=TRJ_CLAUSE + ' - on every use of the object: a trajectory memory that uploads one compressed trajectory, is told the outcome '
                              '(write_done, write_failed or a disconnect), is given another trajectory and uploads again, transmits exactly '
                              'the image of its current trajectory each time (nothing accumulated or cached), and a second TrajectoryMemory '
                              'created meanwhile is empty',
          bounded='two concrete compressed trajectories (values at the ends of the 16-bit range, below one unit, negative); the three '
                  'ways the first upload can end')
def traj_history(c):
    mh = c.ext('mh')
    mem = c.new(TRJ + ':TrajectoryMemory', 3, 0x12, 4096, mh)
    c.let('mem', mem)
    els_a, img_a = _concrete_traj(c, TRAJ_A)
    els_b, img_b = _concrete_traj(c, TRAJ_B)
    c.let('A', img_a), c.let('B', img_b)
    c.set(mem, 'trajectory', c.list(els_a))
    c.reset_trace()
    c.call((mem, 'write_data'), c.ext('done'), c.ext('failed'))
    c.ensure('first-upload', "raised is None and result == len(A) and len(sent('mh.write')) == 1 and is_same(sent('mh.write')[0][1][0], mem) and "
                             "sent('mh.write')[0][1][1] == 0 and bytes(sent('mh.write')[0][1][2]) == A")
    outcome = c.choice('outcome', ['write_done', 'write_failed', 'disconnect'])
    if outcome == 'disconnect':
        c.call((mem, 'disconnect'))
    else:
        c.call((mem, outcome), mem, 0)
    c.ensure('outcome-accepted', "raised is None and len(sent('mh.write')) == 1")
    other = c.new(TRJ + ':TrajectoryMemory', 4, 0x12, 4096, mh)
    c.let('other', other)
    c.set(mem, 'trajectory', c.list(els_b))
    c.reset_trace()
    c.call((mem, 'write_data'), c.ext('done2'), start_addr=128)
    c.ensure('second-upload-is-the-current-trajectory', "raised is None and result == len(B) and len(sent('mh.write')) == 1 and "
             "is_same(sent('mh.write')[0][1][0], mem) and sent('mh.write')[0][1][1] == 128 and bytes(sent('mh.write')[0][1][2]) == B")
    c.reset_trace()
    c.call((other, 'write_data'), c.ext('done3'))
    c.ensure('second-object-is-empty', "raised is None and result == 0 and len(sent('mh.write')) == 1 and is_same(sent('mh.write')[0][1][0], other) "
                                       "and len(sent('mh.write')[0][1][2]) == 0")


@contract('C13', 'traj.write_data_sync', TMEM_FUNCS + [TRJ + ':TrajectoryMemory.write_data_sync', TRJ + ':TrajectoryMemory.write_done',
                                                       TRJ + ':TrajectoryMemory.write_failed', 'cflib.utils.callbacks:Syncer.__init__',
                                                       'cflib.utils.callbacks:Syncer.success_cb', 'cflib.utils.callbacks:Syncer.failure_cb',
                                                       'cflib.utils.callbacks:Syncer.wait'],
          clause=TRJ_CLAUSE + ' (the blocking upload transmits the same image as write_data, at the requested address, and reports the '
                              'outcome the memory subsystem signals: True after write_done, False after write_failed)',
          bounded='one concrete compressed trajectory; the outcome is signalled from inside the write call (the earliest possible schedule)')
def traj_write_sync(c):
    outcome = c.choice('outcome', ['write_done', 'write_failed'])
    holder = []

    def write(_i, args, _k):
        # the memory subsystem finishes (or fails) the write and tells the element, as Memory._mem_update / _mem_write_failed do
        c.invoke((holder[0], outcome), holder[0], args[1])
        return None
    mh = c.ext('mh', returns={'write': write})
    mem = c.new(TRJ + ':TrajectoryMemory', 3, 0x12, 4096, mh)
    holder.append(mem)
    c.let('mem', mem)
    els_a, img_a = _concrete_traj(c, TRAJ_A)
    c.let('A', img_a)
    c.set(mem, 'trajectory', c.list(els_a))
    c.int('start', 0, 4095)
    c.reset_trace()
    c.call((mem, 'write_data_sync'), c.get('start'))
    c.ensure('no-exception', 'raised is None')
    c.ensure('one-write-of-the-image-at-the-requested-address', "len(sent('mh.write')) == 1 and is_same(sent('mh.write')[0][1][0], mem) and "
             "sent('mh.write')[0][1][1] == start and bytes(sent('mh.write')[0][1][2]) == A and sent('mh.write')[0][2] == {'flush_queue': True}")
    c.ensure('reports-the-outcome', 'result is %s' % (outcome == 'write_done'))


# (e) thorough tier: more shapes of segments.  The six COMBOS give every axis every length; the 16 rows of the orthogonal array
# OA(16, 4, 4, 2) below give every PAIR of axes every pair of lengths (symbolic control points); every one of the 256 shapes is
# packed with concrete control points in traj.segment.pack.shapes (quick tier).
def _oa16():
    mul = {(a, b): 0 for a in range(4) for b in range(4)}       # multiplication of GF(4) = {0, 1, w, w+1} coded 0..3
    for a in range(1, 4):
        for b in range(1, 4):
            mul[(a, b)] = ((a - 1 + b - 1) % 3) + 1
    lens = (0, 1, 3, 7)
    return [(lens[a], lens[b], lens[a ^ b], lens[a ^ mul[(2, b)]]) for a in range(4) for b in range(4)]


OA16 = _oa16()
assert all(len({(r[i], r[j]) for r in OA16}) == 16 for i in range(4) for j in range(i + 1, 4))
for _l in OA16:
    if _l not in COMBOS:
        _segment_pack_layout(_l, thorough_only=True)
_segment_pack_direct((3, 3, 3, 3), thorough_only=True)
_segment_pack_direct((7, 0, 3, 7), thorough_only=True)


@contract('C13', 'traj.segment.pack.shapes', SEG_FUNCS,
          clause=TRJ_CLAUSE + ' (every one of the 256 shapes of a segment - 0, 1, 3 or 7 control points on each of x, y, z, yaw - with '
                              'concrete control points spread over the 16-bit range: exactly the bytes of the firmware layout <type byte '
                              'with two bits per axis, duration in ms, control points as little-endian int16 in the order x, y, z, yaw>)',
          bounded='concrete control points (symbolic ones: traj.segment.pack.layout.*); all 256 shapes', max_paths=300)
def traj_segment_shapes(c):
    lens = c.choice('shape', [(a, b, d, e) for a in (0, 1, 3, 7) for b in (0, 1, 3, 7) for d in (0, 1, 3, 7) for e in (0, 1, 3, 7)])
    vals = [[((-1) ** i) * (0.0007 + 4.681 * i + 0.3 * ax) for i in range(n)] for ax, n in enumerate(lens)]
    vals[3] = [v / 10.0 for v in vals[3]]
    dur = 0.001 * (1 + sum(lens) * 2340)
    els, img = _concrete_traj(c, [(0.0, 0.0, 0.0, 0.0), (dur, vals[0], vals[1], vals[2], vals[3])])
    c.let('IMG', img[8:])
    c.call((els[1], 'pack'))
    c.ensure('exact-bytes', "raised is None and typename(result) == 'bytearray' and bytes(result) == IMG")


# ------------------------------------------------------------------------- quaternions: second use, symbolic magnitudes, random (native)
@contract('C13', 'quat.decompress.twice', [ENC + ':decompress_quaternion'],
          clause='decompressing yields the same rotation - on every use: the array returned for one word still holds that word\'s '
                 'quaternion after another word has been decompressed (each call returns its own array), and the second result is the '
                 'second word\'s quaternion',
          bounded='two concrete words with different indices of the largest component, signs and magnitudes', float_mode='R')
def quat_decompress_twice(c):
    c.let('SQRT2', math.sqrt(2.0))
    c.let('TOL', 1e-9)
    w1 = (1 << 30) | (1 << 29) | (100 << 20) | (0 << 19) | (200 << 10) | (1 << 9) | 300
    w2 = (3 << 30) | (0 << 29) | (361 << 20) | (1 << 19) | (5 << 10) | (0 << 9) | 17
    first = c.call(ENC + ':decompress_quaternion', w1)
    c.let('first', first)
    c.ensure('first-no-exception', 'raised is None and len(first) == 4')
    c.call(ENC + ':decompress_quaternion', w2)
    c.ensure('second-no-exception', 'raised is None and len(result) == 4')
    c.ensure('own-array-per-call', 'not is_same(first, result)')
    for i, m in ((0, -100), (2, 200), (3, -300)):
        c.ensure('first-result-component-%d-still-its-own' % i, 'abs(first[%d] * 511 * SQRT2 - (%d)) <= TOL' % (i, m))
    c.ensure('first-result-largest-still-its-own', 'first[1] >= 0 and abs(first[0] ** 2 + first[1] ** 2 + first[2] ** 2 + first[3] ** 2 - 1) <= TOL')
    for i, m in ((0, 361), (1, -5), (2, 17)):
        c.ensure('second-result-component-%d' % i, 'abs(result[%d] * 511 * SQRT2 - (%d)) <= TOL' % (i, m))
    c.ensure('second-result-largest', 'result[3] >= 0 and abs(result[0] ** 2 + result[1] ** 2 + result[2] ** 2 + result[3] ** 2 - 1) <= TOL')


def _lemma(c, expr):
    """prove-then-use: `expr` follows from the path condition (proved here by the solver, otherwise the contract aborts and is
    never green); it is then added to the path condition so that later non-linear queries need not rediscover it"""
    if c.backend != 'sym':
        return
    t = c.I.spec_bool(c.I.eval_spec(expr, c.frame))
    if not c.path.must(t):
        raise RuntimeError('lemma not proved: ' + expr)
    c.path.assume(t)


def _quat_magnitudes(big):
    @contract('C13', 'quat.decompress.magnitudes.%d' % big, [ENC + ':decompress_quaternion'],
              clause='decompressing a 32-bit word with index %d of the largest component, ANY sign bits and ANY three 9-bit magnitudes '
                     'that describe a unit quaternion (sum of squares <= 2 * 511**2): the other components are, in index order, sign * '
                     'magnitude / 511 / sqrt(2), the component named by the top two bits is non-negative and completes the unit norm' % big,
              float_mode='R', max_paths=100, ob_timeout_ms=60000)
    def k(c):
        m = [c.int('m%d' % i, 0, 511) for i in range(3)]
        s = [c.int('s%d' % i, 0, 1) for i in range(3)]
        c.require('m0 * m0 + m1 * m1 + m2 * m2 <= 2 * 511 * 511')
        c.let('SQRT2', math.sqrt(2.0))
        c.let('TOL', 1e-9)
        c.snapshot('word', '%d + s0 * 2 ** 29 + m0 * 2 ** 20 + s1 * 2 ** 19 + m1 * 2 ** 10 + s2 * 2 ** 9 + m2' % (big << 30))
        # the fields of the word, in the form in which the code extracts them (proved from the line above, then used)
        for fact in ('word // 2 ** 30 == %d' % big, 'word % 512 == m2', '(word // 512) % 2 == s2', '(word // 1024) % 512 == m1',
                     '((word // 1024) // 512) % 2 == s1', '((word // 1024) // 1024) % 512 == m0', '(((word // 1024) // 1024) // 512) % 2 == s0'):
            _lemma(c, fact)
        c.call(ENC + ':decompress_quaternion', c.get('word'))
        c.ensure('no-exception', 'raised is None and len(result) == 4')
        if c.get('raised') is not None:
            return
        for pos, i in enumerate([i for i in range(4) if i != big]):
            c.ensure('component-%d-is-signed-magnitude-over-511-sqrt2' % i,
                     'abs(result[%d] * 511 * SQRT2 - (1 - 2 * s%d) * m%d) <= TOL' % (i, pos, pos))
        c.ensure('largest-component-completes-the-unit-quaternion',
                 'result[%d] >= 0 and abs(result[0] ** 2 + result[1] ** 2 + result[2] ** 2 + result[3] ** 2 - 1) <= TOL' % big)
    return k


for _b in range(4):
    _quat_magnitudes(_b)


# (e) thorough tier: the whole lattice {-2..2}**4 of directions (every sign / zero / tie pattern with two magnitudes) and more
# seeded random directions, each with a symbolic scale
LATTICE2 = [d for d in __import__('itertools').product((-2, -1, 0, 1, 2), repeat=4) if any(d) and d not in GRID]
for _i in range(0, len(LATTICE2), 68):
    QUAT_SETS['lattice2_%d' % (_i // 68)] = LATTICE2[_i:_i + 68]
    _quat_grid('lattice2_%d' % (_i // 68), LATTICE2[_i:_i + 68], thorough_only=True)
for _i, (_seed, _lim) in enumerate(((7, 3), (77, 30), (777, 300), (7777, 10000))):
    QUAT_SETS['random_t%d' % _i] = _dirs(_seed, 60, _lim)
    _quat_grid('random_t%d' % _i, QUAT_SETS['random_t%d' % _i], thorough_only=True)


def _quat_sampled(name, elo, ehi, samples, note, **more):
    @contract('C13', name, [ENC + ':compress_quaternion', ENC + ':decompress_quaternion'],
              clause='compressing and decompressing any non-zero quaternion yields the same rotation with every component within two '
                     'quantisation steps and the result always fits 32 bits [the REAL numpy code in binary64 on seeded boundary / random '
                     'quaternions: index of the first largest component, relative sign bits, each magnitude the nearest of 0..511, and the '
                     'round trip]' + note,
              bounded_only=True, samples=samples,
              bounded='general (not grid) directions are outside the solver\'s reach (module docstring): sampled natively, never counted as '
                      'proved; q = (n0, n1, n2, n3) * 2**e with integers |n| <= 10000 (boundary values give zeros and ties for the largest '
                      'component) and e in %d..%d (unnormalised inputs)' % (elo, ehi), **more)
    def quat_sampled(c):
        """native only (the symbolic back end never runs a bounded_only contract)"""
        from fractions import Fraction
        n = [c.int('n%d' % i, -10000, 10000) for i in range(4)]
        e = c.int('e', elo, ehi)
        c.require('any(v != 0 for v in (n0, n1, n2, n3))')
        q = [v * 2.0 ** e for v in n]           # exact in binary64
        c.let('q', q)
        kind = c.choice('kind', ['list', 'tuple', 'ndarray'])       # "an array of floats": the containers callers use
        c.call(ENC + ':compress_quaternion', {'list': list, 'tuple': tuple, 'ndarray': __import__('numpy').array}[kind](q))
        c.ensure('no-exception', 'raised is None')
        if c.get('raised') is not None:
            return
        c.ensure('fits-32-bits', "isinstance(result, int) and not isinstance(result, bool) and 0 <= result < 2 ** 32")
        word = int(c.get('result'))
        N = sum(v * v for v in n)
        big = max(range(4), key=lambda i: (abs(n[i]), -i))
        c.let('BIG', big)
        c.ensure('index-of-the-first-largest-component', 'result >> 30 == BIG')
        w = word
        others = [i for i in range(4) if i != big]
        for i in reversed(others):
            mag, neg = w & 511, (w >> 9) & 1
            w >>= 10
            # exact: mag is the nearest integer to 511 * sqrt(2) * |n_i| / sqrt(N)  <=>  (2 mag - 1)**2 N <= 8 * 511**2 n_i**2 <= (2 mag + 1)**2 N
            # (a relative slack of 1e-9 for the binary64 evaluation exactly at a rounding boundary)
            x2 = Fraction(8 * 511 * 511 * n[i] * n[i], N)
            lo, hi = Fraction(max(2 * mag - 1, 0) ** 2), Fraction((2 * mag + 1) ** 2)
            c.let('OK', bool(lo * (1 - Fraction(1, 10 ** 9)) <= x2 <= hi * (1 + Fraction(1, 10 ** 9))) and 0 <= mag <= 511)
            c.ensure('magnitude-%d-is-the-nearest-level' % i, 'OK')
            c.let('OK', n[i] == 0 or neg == int((n[i] < 0) != (n[big] < 0)))
            c.ensure('sign-bit-%d-relative-to-the-largest' % i, 'OK')
        c.let('OK', w == big)
        c.ensure('nothing-else-in-the-word', 'OK')
        sgn = -1.0 if n[big] < 0 else 1.0
        c.let('U', [sgn * v / math.sqrt(N) for v in n])
        c.let('TWO_STEPS', 2 * STEP)
        c.call(ENC + ':decompress_quaternion', word)
        c.ensure('decompress-no-exception', 'raised is None and len(result) == 4')
        if c.get('raised') is None:
            c.ensure('round-trip-every-component-within-two-steps', 'all(abs(float(result[i]) - U[i]) <= TWO_STEPS for i in range(4))')
    return quat_sampled


_quat_sampled('quat.roundtrip.sampled', -40, 40, {'quick': 400, 'thorough': 20000}, '')
# FINDING (unchanged tree; reported): the norm is computed as sqrt(sum of squares) without scaling, so for |q| below about 1e-154 the
# squares underflow (division by zero: OverflowError / ValueError, e.g. [1e-170, 1e-170, 0, 0]) and above about 1e154 they overflow
# (every component becomes 0: [1e200, 1e200, 0, 0] compresses to the word 0, which decompresses to [1, 0, 0, 0] - another rotation).
# Kept under thorough_only so that the quick tier stays green.
_quat_sampled('quat.roundtrip.sampled.any-scale', -1074, 1000, {'quick': 400, 'thorough': 3000},
              ' - at EVERY binary64 scale, from subnormal to close to the largest finite number', thorough_only=True)


# ------------------------------------------------------------------------- localization: every wrong length a CRTP packet can have
@contract('C13', 'loc.range_report.bad_length.all', LOC_FUNCS,
          clause='a range report whose payload is not a whole number of <id, distance> records delivers nothing: every such length that '
                 'fits a CRTP packet (1..29 bytes after the type byte, not a multiple of 5), any content')
def range_bad_length_all(c):
    n = c.choice('n', [k for k in range(1, 30) if k % 5])
    c.bytes('payload', n)
    loc, pk = _localization(c, "pack('<B', 0) + payload")
    c.call((loc, '_incoming'), pk)
    c.ensure('no-exception', 'raised is None')
    c.ensure('nothing-delivered', 'len(trace) == 0')


@contract('C13', 'loc.lh_angle_stream.bad_length.all', LOC_FUNCS + [LOC + ':Localization._decode_lh_angle'],
          clause='an angle-stream packet of the wrong size is not decoded into angles: struct.error and nothing delivered, for every '
                 'length other than 21 that fits a CRTP packet (0..29 bytes after the type byte), any content')
def lh_angle_bad_all(c):
    _fp16_by_contract(c)
    n = c.choice('n', [k for k in range(30) if k != 21])
    c.bytes('payload', n)
    loc, pk = _localization(c, "pack('<B', 10) + payload")
    c.call((loc, '_incoming'), pk)
    c.ensure('struct-error', "raised == 'struct.error'")
    c.ensure('nothing-delivered', 'len(trace) == 0')


# ------------------------------------------------------------------------- LED ring / timings: what the defaults stand for
@contract('C13', 'led.write_data.defaults', LED_FUNCS,
          clause=LED_CLAUSE + ' (an LED that was only given a colour is at full intensity: a new ring is black - 24 zero bytes - and after '
                              'set(255, 255, 255) on every LED, without an intensity, every word is 0xffff; set(r, g, b) with an explicit '
                              'intensity of 100 gives the same image as without)',
          bounded='concrete colours (white on every LED; one mixed colour)')
def led_defaults(c):
    mh = c.ext('mh')
    mem = c.new(LED + ':LEDDriverMemory', 4, 0x10, 24, mh)
    c.let('mem', mem)
    c.reset_trace()
    c.call((mem, 'write_data'), c.ext('cb'))
    if not _led_written(c, mem):
        return
    c.ensure('new-ring-is-black', 'bytes(data) == bytes(24)')
    for i in range(12):
        c.call((c.snapshot('led', 'mem.leds[%d]' % i), 'set'), 255, 255, 255)
    c.reset_trace()
    c.call((mem, 'write_data'), c.ext('cb'))
    if not _led_written(c, mem):
        return
    c.ensure('white-without-an-intensity-is-full-scale', "bytes(data) == b'\\xff' * 24")
    c.call((c.snapshot('led', 'mem.leds[4]'), 'set'), 100, 150, 200)
    c.reset_trace()
    c.call((mem, 'write_data'), c.ext('cb'))
    if not _led_written(c, mem):
        return
    c.snapshot('plain', 'bytes(data)')
    c.call((c.snapshot('led', 'mem.leds[4]'), 'set'), 100, 150, 200, 100)
    c.reset_trace()
    c.call((mem, 'write_data'), c.ext('cb'))
    if not _led_written(c, mem):
        return
    c.let('MIXED', _rgb565([(255, 255, 255, 100)] * 4 + [(100, 150, 200, 100)] + [(255, 255, 255, 100)] * 7))
    c.ensure('explicit-full-intensity-is-the-same-image', 'bytes(data) == plain and plain == MIXED')


@contract('C13', 'led.timings.defaults', [LEDT + ':LEDTimingsDriverMemory.__init__', LEDT + ':LEDTimingsDriverMemory.add',
                                          LEDT + ':LEDTimingsDriverMemory.write_data'],
          clause=LED_CLAUSE + ' (a timing entry that was only given a time and a colour has no LED selection, no fade and no rotation: its '
                              'record is <time, RGB565 high, RGB565 low, 0>, all 256 levels per channel)')
def led_timings_defaults(c):
    mh = c.ext('mh')
    mem = c.new(LEDT + ':LEDTimingsDriverMemory', 5, 0x17, 2000, mh)
    c.let('mem', mem)
    rgb = c.dict([('r', c.int('r0', 0, 255)), ('g', c.int('g0', 0, 255)), ('b', c.int('b0', 0, 255))])
    c.call((mem, 'add'), c.int('t0', 1, 255), rgb)
    c.let('leds0', 0), c.let('fade0', False), c.let('rot0', 0)
    c.reset_trace()
    c.call((mem, 'write_data'), c.ext('cb'))
    if _timing_written(c, mem):
        _timing_image(c, '', [0])


# ------------------------------------------------------------------------- segment type bits for an element of ANY length
@contract('C13', 'traj.segment.encode_type.any-length', [TRJ + ':CompressedSegment._encode_type', TRJ + ':CompressedSegment._validate',
                                                         TRJ + ':CompressedSegment.__init__'],
          clause='segment type bits: an element of 0 / 1 / 3 / 7 control points is announced as 0 / 1 / 2 / 3; an element of ANY other '
                 'length (symbolic, unbounded) on any axis is refused by the constructor')
def traj_encode_type_any(c):
    el = c.view('el', kind='list')
    seg = c.new(TRJ + ':CompressedSegment', 1.0, [], [], [], [])
    which = c.choice('axis', [0, 1, 2, 3])
    args = [[], [], [], []]
    args[which] = el
    c.call(TRJ + ':CompressedSegment', 1.0, *args)
    c.ensure('constructor-accepts-exactly-0-1-3-7', "iff(raised is None, len(el) in (0, 1, 3, 7)) and raised in (None, 'Exception')")
    if c.get('raised') is None:
        n = c.concretize('len(el)')
        c.call((seg, '_encode_type'), el)
        c.ensure('type-code', 'raised is None and result == %d' % {0: 0, 1: 1, 3: 2, 7: 3}.get(n, -1))
