"""C13 - numeric wire codecs."""
import math

from pyvc.api import contract

ENC = 'cflib.utils.encoding'


@contract('C13', 'fp16_to_float', [ENC + ':fp16_to_float'],
          clause='half-precision decoding returns the IEEE-754 binary16 value for every one of the 65,536 bit patterns')
def fp16(c):
    x = c.int('float16', 0, 65535)
    c.call(ENC + ':fp16_to_float', x)
    c.ensure('no-exception', 'raised is None')
    c.ensure('is-float', 'isinstance(result, float)')
    c.ensure('ieee-binary16-value', 'same_float(result, fp16_value(float16))')


# ------------------------------------------------------------------------- (b) compressed trajectories
TRJ = 'cflib.crazyflie.mem.trajectory_memory'
DEG = 180.0 / math.pi          # math.degrees(x) is x * (180 / pi) with this double constant (CPython mathmodule.c)
TRJ_CLAUSE = ('compressed-trajectory coordinates and yaw encode to millimetres and tenths of a degree with less than one unit '
              'of error and overflow raises rather than wraps')


def _traj_encode(name, meth, scaled, unit):
    @contract('C13', 'traj.' + name, [TRJ + ':_CompressedBase.' + meth],
              clause=TRJ_CLAUSE + ' (%s: every float; NaN and infinities raise)' % unit)
    def k(c):
        self = c.new(TRJ + ':CompressedStart', 0.0, 0.0, 0.0, 0.0)
        c.float('x')
        c.let('DEG', DEG)
        c.call((self, meth), c.get('x'))
        c.ensure('raises-iff-not-finite', 'iff(raised is None, not is_nan(%s) and not is_inf(%s))' % (scaled, scaled))
        c.ensure('declared-errors-only', "raised in (None, 'ValueError', 'OverflowError')")
        if c.get('raised') is None:
            c.ensure('is-int', "typename(result) == 'int'")
            c.ensure('same-sign-or-zero', 'implies(result > 0, x > 0) and implies(result < 0, x < 0)')

    @contract('C13', 'traj.' + name + '.error', [TRJ + ':_CompressedBase.' + meth],
              clause=TRJ_CLAUSE + ' (%s: less than one unit of error, across and far beyond the 16-bit range)' % unit,
              bounded='|value| <= 1e6 (the 16-bit range ends at 32.768 m / 57.2 rad); the engine tracks int(float) exactly only below 2**62')
    def k2(c):
        self = c.new(TRJ + ':CompressedStart', 0.0, 0.0, 0.0, 0.0)
        c.float('x')
        c.let('DEG', DEG)
        c.require('-1e6 <= x <= 1e6')
        # (implied by the bound; stated in the syntactic form in which the engine's int(float) model tests it, so that
        # the tracked-exactly case is selected without a solver call)
        c.require('%s < 4611686018427387904.0 and %s > -4611686018427387904.0' % (scaled, scaled))
        c.call((self, meth), c.get('x'))
        c.ensure('no-exception', 'raised is None')
        c.ensure('less-than-one-unit-of-error', 'abs(%s - result) < 1' % scaled)
    return k, k2


_traj_encode('encode_spatial', '_encode_spatial', 'x * 1000', 'millimetres')
_traj_encode('encode_yaw', '_encode_yaw', 'x * DEG * 10', 'tenths of a degree')


IN16 = '-32769 < %s < 32768'      # int() truncates toward zero: exactly the floats whose integer part fits a signed 16-bit field


@contract('C13', 'traj.start.pack', [TRJ + ':CompressedStart.__init__', TRJ + ':CompressedStart.pack',
                                     TRJ + ':_CompressedBase._encode_spatial', TRJ + ':_CompressedBase._encode_yaw'],
          clause=TRJ_CLAUSE + ' (start point: four little-endian signed 16-bit fields x, y, z in mm and yaw in 0.1 deg)')
def traj_start_pack(c):
    names = ['x', 'y', 'z', 'yaw']
    for n in names:
        c.float(n)
    c.let('DEG', DEG)
    self = c.new(TRJ + ':CompressedStart', *[c.get(n) for n in names])
    c.call((self, 'pack'))
    scaled = ['x * 1000', 'y * 1000', 'z * 1000', 'yaw * DEG * 10']
    c.ensure('raises-iff-a-value-does-not-fit-16-bits', 'iff(raised is None, %s)' % ' and '.join('(%s)' % (IN16 % e) for e in scaled))
    c.ensure('declared-errors-only', "raised in (None, 'struct.error', 'ValueError', 'OverflowError')")
    c.ensure('finite-overflow-raises-struct-error', "implies(raised is not None and %s, raised == 'struct.error')" % ' and '.join(
        '(not is_nan(%s) and not is_inf(%s))' % (e, e) for e in scaled))
    if c.get('raised') is None:
        c.ensure('eight-bytes', "typename(result) == 'bytearray' and len(result) == 8")
        c.snapshot('f', "unpack('<hhhh', bytes(result))")
        for i, e in enumerate(scaled):
            c.ensure('field-%s-less-than-one-unit-of-error' % names[i], 'abs(%s - f[%d]) < 1' % (e, i))
            c.ensure('field-%s-same-sign-or-zero' % names[i], 'implies(f[%d] > 0, %s > 0) and implies(f[%d] < 0, %s < 0)' % (i, names[i], i, names[i]))
