"""C13 - numeric wire codecs are exact or within their stated resolution.

Clauses of the design section (DESIGN.md, C13) and where they are decided:

 1. half floats: fp16_to_float (all 65,536 patterns) and fp16_to_float.signed (the same patterns arriving as -32768..-1 from
    struct.unpack('<h'), which is how the angle-stream decoder calls it).  FP mode, complete.
 2. quaternions (float_mode='R': reals, sqrt = the non-negative root; numpy through pyvc/numpy_model.py):
      quat.compress.<set>   q = k * d with a SYMBOLIC scale k in [0.001, 1000] and a direction d from a finite set (all 80 sign /
                            zero / tie patterns with components in {-1, 0, 1}, hand-picked, seeded random integer directions;
                            225 in all): result == the exact 32-bit word of the firmware layout (computed here in exact integer
                            arithmetic, independent of the code), < 2**32, and the real decompress_quaternion maps that word to
                            the same rotation with every component within two quantisation steps.
      quat.decompress.fields  every index / sign pattern with 10 magnitude triples: per-component decode, unit norm.
    NOT covered: a fully symbolic direction.  It was tried (contract on compress_quaternion with four symbolic reals): the path
    conditions mix division by sqrt(sum of squares), nested if-then-else from abs() and ToInt of non-linear terms; z3 answers
    `unknown` within the 5 s branch / 20 s obligation budgets on a varying subset of the queries of every path (8 argmax paths,
    1-3 minutes each) and cvc5 needs > 20 s per goal, so the contract could never be green reliably.  Likewise a symbolic
    32-bit word for decompress_quaternion (integer div/mod of the word mixed with non-linear reals: `unknown`).  The general
    'two quantisation steps' round-trip bound is therefore proved only on the direction sets above (bounded=...).
 3. compressed trajectories (FP mode): traj.encode_spatial / traj.encode_yaw (every float: raises iff not finite),
    traj.encode_*.error (< 1 unit of error, same sign or zero, for |value| <= 1e6), traj.start.pack (end to end: fields decode to < 1 unit, struct.error
    iff a value does not fit), traj.segment.encode_type, traj.segment.pack_element.N (exact int16 layout, struct.error instead of
    wrapping), traj.segment.pack.decoded.1_1_1_1 (end to end) and traj.segment.pack.layout.* (compositional: whole packet ==
    type byte, duration, the _encode_* values in order) for six length combinations in which every axis takes every length.
    Bounded: |value| <= 1e6 where an error bound is proved (int(float) is tracked exactly below 2**62 only); NaN / infinities
    are covered by the unbounded traj.encode_* contracts.
 4. LED ring: led.write_data.R/G/B (one symbolic LED per channel: black -> 0, white at intensity 100 -> 31/63/31, nearest level,
    other bits 0), led.write_data.R/G/B.monotone (two symbolic LEDs: monotone in level and in intensity), led.write_data.palette
    (all 12 positions, saturated colours, exact bytes), led.timings.write_data.N (0, 1, 2 timing entries: RGB565 word per kept
    entry, zero entries dropped, terminator).  Not all 12 LEDs symbolic at once (each symbolic intensity costs several bit-blasted
    double divisions per query): the per-LED computation is one loop body, exercised at positions 0, 5 and 11 symbolically and
    at every position concretely.
 5. localization: loc.range_report.K for every anchor count K = 0..5 that fits a CRTP packet (complete), any ids (repeated id: the
    last report wins) and any binary32 bits; loc.range_report.bad_length; loc.lh_angle_stream (every payload of 21 bytes, using
    fp16_to_float through its contract) and loc.lh_angle_stream.bad_length.
"""
import math

from pyvc.api import contract

ENC = 'cflib.utils.encoding'


@contract('C13', 'fp16_to_float', [ENC + ':fp16_to_float'],
          clause='half-precision decoding returns the IEEE-754 binary16 value for every one of the 65,536 bit patterns')
def fp16(c):
    x = c.int('float16', 0, 65535)
    c.call(ENC + ':fp16_to_float', x)
    c.ensure('no-exception', 'raised is None')
    c.ensure('is-float', 'isinstance(result, float)')
    c.ensure('ieee-binary16-value', 'same_float(result, fp16_value(float16))')


# ------------------------------------------------------------------------- (b) compressed trajectories
TRJ = 'cflib.crazyflie.mem.trajectory_memory'
DEG = 180.0 / math.pi          # math.degrees(x) is x * (180 / pi) with this double constant (CPython mathmodule.c)
TRJ_CLAUSE = ('compressed-trajectory coordinates and yaw encode to millimetres and tenths of a degree with less than one unit '
              'of error and overflow raises rather than wraps')


BOUND = '|value| <= 1e6 (the 16-bit range ends at 32.768 m / 57.2 rad); the engine tracks int(float) exactly only below 2**62'


def _bounded_inputs(c, names, scaled):
    for n, e in zip(names, scaled):
        c.require('-1e6 <= %s <= 1e6' % n)
        # (implied by the bound; stated in the syntactic form in which the engine's int(float) model tests it, so that
        # the tracked-exactly case is selected without a solver call)
        c.require('%s < 4611686018427387904.0 and %s > -4611686018427387904.0' % (e, e))


def _traj_encode(name, meth, scaled, unit):
    @contract('C13', 'traj.' + name, [TRJ + ':_CompressedBase.' + meth],
              clause=TRJ_CLAUSE + ' (%s: every float; NaN and infinities raise)' % unit)
    def k(c):
        self = c.new(TRJ + ':CompressedStart', 0.0, 0.0, 0.0, 0.0)
        c.float('x')
        c.let('DEG', DEG)
        c.call((self, meth), c.get('x'))
        c.ensure('raises-iff-not-finite', 'iff(raised is None, not is_nan(%s) and not is_inf(%s))' % (scaled, scaled))
        c.ensure('declared-errors-only', "raised in (None, 'ValueError', 'OverflowError')")
        if c.get('raised') is None:
            c.ensure('is-int', "typename(result) == 'int'")

    @contract('C13', 'traj.' + name + '.error', [TRJ + ':_CompressedBase.' + meth],
              clause=TRJ_CLAUSE + ' (%s: less than one unit of error and never the opposite sign, across and far beyond the 16-bit range)' % unit,
              bounded=BOUND, ob_timeout_ms=90000)
    def k2(c):
        self = c.new(TRJ + ':CompressedStart', 0.0, 0.0, 0.0, 0.0)
        c.float('x')
        c.let('DEG', DEG)
        _bounded_inputs(c, ['x'], [scaled])
        c.call((self, meth), c.get('x'))
        c.ensure('no-exception', 'raised is None')
        c.ensure('less-than-one-unit-of-error', 'abs(%s - result) < 1' % scaled)
        c.ensure('same-sign-or-zero', 'implies(result > 0, x > 0) and implies(result < 0, x < 0)')
    return k, k2


_traj_encode('encode_spatial', '_encode_spatial', 'x * 1000', 'millimetres')
_traj_encode('encode_yaw', '_encode_yaw', 'x * DEG * 10', 'tenths of a degree')


IN16 = '-32769 < %s < 32768'      # int() truncates toward zero: exactly the floats whose integer part fits a signed 16-bit field


@contract('C13', 'traj.start.pack', [TRJ + ':CompressedStart.__init__', TRJ + ':CompressedStart.pack',
                                     TRJ + ':_CompressedBase._encode_spatial', TRJ + ':_CompressedBase._encode_yaw'],
          clause=TRJ_CLAUSE + ' (start point: four little-endian signed 16-bit fields x, y, z in mm and yaw in 0.1 deg)', bounded=BOUND, ob_timeout_ms=90000)
def traj_start_pack(c):
    names = ['x', 'y', 'z', 'yaw']
    for n in names:
        c.float(n)
    c.let('DEG', DEG)
    scaled = ['x * 1000', 'y * 1000', 'z * 1000', 'yaw * DEG * 10']
    _bounded_inputs(c, names, scaled)
    self = c.new(TRJ + ':CompressedStart', *[c.get(n) for n in names])
    c.call((self, 'pack'))
    c.ensure('raises-iff-a-value-does-not-fit-16-bits', 'iff(raised is None, %s)' % ' and '.join('(%s)' % (IN16 % e) for e in scaled))
    c.ensure('declared-errors-only', "raised in (None, 'struct.error', 'ValueError', 'OverflowError')")
    c.ensure('finite-overflow-raises-struct-error', "implies(raised is not None and %s, raised == 'struct.error')" % ' and '.join(
        '(not is_nan(%s) and not is_inf(%s))' % (e, e) for e in scaled))
    if c.get('raised') is None:
        c.ensure('eight-bytes', "typename(result) == 'bytearray' and len(result) == 8")
        c.snapshot('f', "unpack('<hhhh', bytes(result))")
        for i, e in enumerate(scaled):
            c.ensure('field-%s-less-than-one-unit-of-error' % names[i], 'abs(%s - f[%d]) < 1' % (e, i))
            c.ensure('field-%s-same-sign-or-zero' % names[i], 'implies(f[%d] > 0, %s > 0) and implies(f[%d] < 0, %s < 0)' % (i, names[i], i, names[i]))


@contract('C13', 'traj.segment.encode_type', [TRJ + ':CompressedSegment._encode_type', TRJ + ':CompressedSegment._validate',
                                              TRJ + ':CompressedSegment.__init__'],
          clause='segment type bits: an element of 0 / 1 / 3 / 7 control points is announced as 0 / 1 / 2 / 3 (constant, linear, '
                 'cubic, septic Bezier of the firmware piecewise-compressed format); every other length is refused by the constructor',
          bounded='element lengths 0..9 enumerated')
def traj_encode_type(c):
    n = c.choice('n', list(range(10)))
    el = c.floats('el', n)
    c.let('n', n)
    seg = c.new(TRJ + ':CompressedSegment', 1.0, [], [], [], [])
    which = c.choice('axis', [0, 1, 2, 3])
    args = [[], [], [], []]
    args[which] = el
    c.call(TRJ + ':CompressedSegment', 1.0, *args)
    c.ensure('constructor-accepts-exactly-0-1-3-7', "iff(raised is None, n in (0, 1, 3, 7)) and raised in (None, 'Exception')")
    if c.get('raised') is None:
        c.call((seg, '_encode_type'), el)
        c.ensure('type-code', 'raised is None and result == {0: 0, 1: 1, 3: 2, 7: 3}[n]')


def _pack_element(n):
    @contract('C13', 'traj.segment.pack_element.%d' % n, [TRJ + ':CompressedSegment._pack_element'],
              clause='overflow raises rather than wraps: %d encoded value(s) are laid out as little-endian signed 16-bit integers, and '
                     'struct.error is raised when one of them does not fit' % n,
              bounded='element lengths 0, 1, 3, 7 (the only ones the constructor accepts)')
    def k(c):
        seg = c.new(TRJ + ':CompressedSegment', 1.0, [], [], [], [])
        parts = c.ints('parts', n)
        c.call((seg, '_pack_element'), parts)
        c.ensure('raises-iff-a-value-does-not-fit-16-bits', 'iff(raised is None, all(-32768 <= p <= 32767 for p in parts))')
        c.ensure('struct-error-only', "raised in (None, 'struct.error')")
        if c.get('raised') is None:
            c.ensure('two-bytes-per-value', "typename(result) == 'bytearray' and len(result) == %d" % (2 * n))
            c.ensure('values-decode-exactly', "tuple(unpack('<%s', bytes(result))) == tuple(parts)" % ('h' * n))
    return k


for _n in (0, 1, 3, 7):
    _pack_element(_n)

TYPE_CODE = {0: 0, 1: 1, 3: 2, 7: 3}


SEG_FUNCS = [TRJ + ':CompressedSegment.__init__', TRJ + ':CompressedSegment.pack', TRJ + ':CompressedSegment._encode_type',
             TRJ + ':CompressedSegment._pack_element', TRJ + ':_CompressedBase._encode_spatial_element',
             TRJ + ':_CompressedBase._encode_yaw_element', TRJ + ':_CompressedBase._encode_spatial', TRJ + ':_CompressedBase._encode_yaw']
COMBOS = ((0, 0, 0, 0), (1, 1, 1, 1), (7, 0, 1, 3), (1, 3, 7, 0), (0, 7, 3, 1), (3, 1, 0, 7))


def _segment_inputs(c, lens):
    """a CompressedSegment built by its real constructor from symbolic control points; returns (segment, [(name, scaled expr)])"""
    c.let('DEG', DEG)
    c.float('duration')
    _bounded_inputs(c, ['duration'], ['duration * 1000.0'])
    els = []
    scaled = []
    for ax, n in zip(('ex', 'ey', 'ez', 'eyaw'), lens):
        els.append(c.floats(ax, n))
        for i in range(n):
            scaled.append(('%s[%d]' % (ax, i), '%s[%d] * 1000' % (ax, i) if ax != 'eyaw' else '%s[%d] * DEG * 10' % (ax, i)))
    _bounded_inputs(c, [a for a, _ in scaled], [e for _, e in scaled])
    return c.new(TRJ + ':CompressedSegment', c.get('duration'), *els), scaled


def _type_byte(lens):
    return TYPE_CODE[lens[0]] | TYPE_CODE[lens[1]] << 2 | TYPE_CODE[lens[2]] << 4 | TYPE_CODE[lens[3]] << 6


def _segment_pack_direct(lens):
    @contract('C13', 'traj.segment.pack.decoded.%d_%d_%d_%d' % lens, SEG_FUNCS,
              clause=TRJ_CLAUSE + ' (segment with %d/%d/%d/%d control points for x/y/z/yaw, end to end: the bytes decode, under the '
                     'firmware layout <type byte, duration ms, control points as little-endian int16>, to values less than one unit '
                     'from the caller\'s)' % lens, bounded=BOUND, ob_timeout_ms=90000)
    def k(c):
        seg, scaled = _segment_inputs(c, lens)
        c.call((seg, 'pack'))
        fits = ['(-1 < duration * 1000.0 < 65536)'] + ['(%s)' % (IN16 % e) for _, e in scaled]
        c.ensure('raises-iff-a-value-does-not-fit-16-bits', 'iff(raised is None, %s)' % ' and '.join(fits))
        c.ensure('struct-error-only', "raised in (None, 'struct.error')")
        if c.get('raised') is None:
            total = sum(lens)
            c.ensure('length', "typename(result) == 'bytearray' and len(result) == %d" % (3 + 2 * total))
            c.snapshot('f', "unpack('<BH%s', bytes(result))" % ('h' * total))
            c.ensure('type-byte', 'f[0] == %d' % _type_byte(lens))
            c.ensure('duration-in-ms', 'f[1] == int(duration * 1000.0)')
            for i, (a, e) in enumerate(scaled):
                c.ensure('field-%s-less-than-one-unit-of-error' % a, 'abs(%s - f[%d]) < 1' % (e, i + 2))
                c.ensure('field-%s-same-sign-or-zero' % a, 'implies(f[%d] > 0, %s > 0) and implies(f[%d] < 0, %s < 0)' % (i + 2, a, i + 2, a))
    return k


def _segment_pack_layout(lens):
    @contract('C13', 'traj.segment.pack.layout.%d_%d_%d_%d' % lens, SEG_FUNCS,
              clause=TRJ_CLAUSE + ' (segment with %d/%d/%d/%d control points for x/y/z/yaw, compositional: the packet is the type byte, '
                     'the duration in ms and then exactly the values of _encode_spatial / _encode_yaw (error < 1 unit: contracts '
                     'traj.encode_*.error) as little-endian int16 in the order x, y, z, yaw; struct.error iff one does not fit)' % lens,
              bounded=BOUND + '; element length combinations %s: every axis with every length' % (COMBOS,), ob_timeout_ms=90000)
    def k(c):
        seg, scaled = _segment_inputs(c, lens)
        c.call((seg, 'pack'))
        c.ensure('struct-error-only', "raised in (None, 'struct.error')")
        fits = ['(0 <= int(duration * 1000.0) <= 65535)'] + ['(-32768 <= int(%s) <= 32767)' % e for _, e in scaled]
        c.ensure('raises-iff-a-value-does-not-fit-16-bits', 'iff(raised is None, %s)' % ' and '.join(fits))
        if c.get('raised') is None:
            c.ensure('whole-packet', "bytes(result) == pack('<BH%s', %d, int(duration * 1000.0)%s)" % (
                'h' * sum(lens), _type_byte(lens), ''.join(', int(%s)' % e for _, e in scaled)))
    return k


_segment_pack_direct((1, 1, 1, 1))
for _l in COMBOS:
    _segment_pack_layout(_l)


# ------------------------------------------------------------------------- (c) RGB565 colours of the LED ring
LED = 'cflib.crazyflie.mem.led_driver_memory'
LEDT = 'cflib.crazyflie.mem.led_timings_driver_memory'
LED_CLAUSE = ('8-bit colours map monotonically onto RGB565 with black to 0 and white to full scale at full intensity')


LED_FUNCS = [LED + ':LEDDriverMemory.__init__', LED + ':LEDDriverMemory.write_data', LED + ':LED.__init__', LED + ':LED.set']
CHANNELS = {'R': (0, 11, 31), 'G': (1, 5, 63), 'B': (2, 0, 31)}        # argument position of LED.set, shift, full scale


def _led_written(c, mem):
    """shared post-conditions of LEDDriverMemory.write_data; afterwards `data` is the buffer handed to the memory handler"""
    c.ensure('no-exception', 'raised is None')
    if c.get('raised') is not None:
        return False
    c.ensure('exactly-one-write', "len(trace) == 1 and len(sent('mh.write')) == 1")
    c.snapshot('w', "sent('mh.write')[0]")
    c.ensure('write-of-this-memory-at-address-0-flushing-the-queue',
             "len(w[1]) == 3 and is_same(w[1][0], mem) and w[1][1] == 0 and len(w[2]) == 1 and w[2]['flush_queue'] is True")
    c.snapshot('data', 'w[1][2]')
    c.ensure('24-bytes', "typename(data) == 'bytearray' and len(data) == 24")
    return True


def _led_channel(ch, relational):
    pos, shift, top = CHANNELS[ch]
    where = {'R': (0,), 'G': (5,), 'B': (11,)}[ch] if not relational else (0, 11)

    @contract('C13', 'led.write_data.%s%s' % (ch, '.monotone' if relational else ''), LED_FUNCS,
              clause=LED_CLAUSE + (' (channel %s: all 256 levels and all intensities 0..100 on LED%s %s of the ring; big-endian '
                                   'RRRRRGGG GGGBBBBB word per LED; %s; the other channels and LEDs are black and stay 0)'
                                   % (ch, 's' if relational else '', ' and '.join(map(str, where)),
                                      'monotone in the level and in the intensity (two LEDs compared)' if relational else
                                      'black is 0, white at intensity 100 is full scale, the nearest level at intensity 100')),
              bounded='LED(s) %s of 12 carry symbolic values, one colour channel per contract (the channels occupy disjoint bit '
                      'fields; every position with all channels: led.write_data.palette)' % (where,), max_paths=50,
              ob_timeout_ms=120000, branch_timeout_ms=20000)
    def k(c):
        if c.backend == 'sym':
            c.I.cfg['int_float_small_by_solver'] = True
        mh = c.ext('mh')
        mem = c.new(LED + ':LEDDriverMemory', 4, 0x10, 24, mh)
        c.let('mem', mem)
        tags = [(str(n), i) for n, i in enumerate(where)]
        for tag, i in tags:
            led = c.snapshot('led' + tag, 'mem.leds[%d]' % i)
            rgb = [0, 0, 0]
            rgb[pos] = c.int('x' + tag, 0, 255)
            c.call((led, 'set'), *rgb)
            c.set(led, 'intensity', c.int('it' + tag, 0, 100))
        c.reset_trace()
        c.call((mem, 'write_data'), c.ext('cb'))
        if not _led_written(c, mem):
            return
        c.ensure('other-leds-black', 'all(data[2 * i] == 0 and data[2 * i + 1] == 0 for i in range(12) if i not in %r)' % (where,))
        for tag, i in tags:
            c.snapshot('word' + tag, 'data[%d] * 256 + data[%d]' % (2 * i, 2 * i + 1))
            c.snapshot('X' + tag, '(word%s >> %d) & %d' % (tag, shift, top))
            c.ensure('led%s-other-channels-stay-0' % tag, 'word%s == X%s << %d' % (tag, tag, shift))
            if not relational:
                c.ensure('led%s-black-is-0' % tag, 'implies(x%s == 0, X%s == 0)' % (tag, tag))
                c.ensure('led%s-intensity-0-is-0' % tag, 'implies(it%s == 0, X%s == 0)' % (tag, tag))
                c.ensure('led%s-white-is-full-scale-at-full-intensity' % tag, 'implies(x%s == 255 and it%s == 100, X%s == %d)' % (tag, tag, tag, top))
                c.ensure('led%s-nearest-level-at-full-intensity' % tag, 'implies(it%s == 100, 2 * abs(X%s * 255 - x%s * %d) <= 255)' % (tag, tag, tag, top))
        if relational:
            c.ensure('monotone-in-level', 'implies(it0 == it1 and x0 <= x1, X0 <= X1)')
            c.ensure('monotone-in-intensity', 'implies(x0 == x1 and it0 <= it1, X0 <= X1)')
    return k


for _ch in 'RGB':
    _led_channel(_ch, False)
    _led_channel(_ch, True)


@contract('C13', 'led.write_data.palette', LED_FUNCS,
          clause=LED_CLAUSE + ' (every one of the 12 positions with saturated colours - white, black, red, green, blue, yellow - at '
                              'intensities 100, 50, 0, 1, 99: the exact 24 bytes; full scale is 31/63/31, scaled down by intensity/100 rounded down)',
          bounded='concrete colours and intensities (the symbolic levels are in led.write_data.R/G/B)')
def led_palette(c):
    mh = c.ext('mh')
    mem = c.new(LED + ':LEDDriverMemory', 4, 0x10, 24, mh)
    c.let('mem', mem)
    palette = [(255, 255, 255), (0, 0, 0), (255, 0, 0), (0, 255, 0), (0, 0, 255), (255, 255, 0)]
    intens = [100, 50, 0, 1, 99]
    expected = bytearray()
    for i in range(12):
        r, g, b = palette[i % 6]
        it = intens[i % 5]
        led = c.snapshot('led%d' % i, 'mem.leds[%d]' % i)
        c.call((led, 'set'), r, g, b)
        c.set(led, 'intensity', it)
        word = ((31 * it // 100 if r else 0) << 11) | ((63 * it // 100 if g else 0) << 5) | (31 * it // 100 if b else 0)
        expected += bytes((word >> 8, word & 0xFF))
    c.let('EXPECTED', bytes(expected))
    c.reset_trace()
    c.call((mem, 'write_data'), c.ext('cb'))
    if _led_written(c, mem):
        c.ensure('exact-bytes', 'bytes(data) == EXPECTED')


def _led_timings(n):
    @contract('C13', 'led.timings.write_data.%d' % n, [LEDT + ':LEDTimingsDriverMemory.__init__', LEDT + ':LEDTimingsDriverMemory.add',
                                                       LEDT + ':LEDTimingsDriverMemory.write_data'],
              clause=LED_CLAUSE + ' (LED timing sequence of %d entr%s: per kept entry <time, RGB565 high, RGB565 low, leds | fade << 4 | '
                                  'rotate << 5>, all 256 levels per channel; an entry whose four bytes are all zero is left out because it '
                                  'would read as the terminator; four zero bytes terminate)' % (n, 'y' if n == 1 else 'ies'),
              bounded='sequences of 0, 1 and 2 entries')
    def k(c):
        mh = c.ext('mh')
        mem = c.new(LEDT + ':LEDTimingsDriverMemory', 5, 0x17, 2000, mh)
        c.let('mem', mem)
        for i in range(n):
            rgb = c.dict([('r', c.int('r%d' % i, 0, 255)), ('g', c.int('g%d' % i, 0, 255)), ('b', c.int('b%d' % i, 0, 255))])
            c.call((mem, 'add'), c.int('t%d' % i, 0, 255), rgb, c.int('leds%d' % i, 0, 15), c.bool('fade%d' % i), c.int('rot%d' % i, 0, 7))
        c.reset_trace()
        c.call((mem, 'write_data'), c.ext('cb'))
        c.ensure('no-exception', 'raised is None')
        if c.get('raised') is not None:
            return
        c.ensure('exactly-one-write', "len(trace) == 1 and len(sent('mh.write')) == 1")
        c.snapshot('w', "sent('mh.write')[0]")
        c.ensure('write-of-this-memory-at-address-0-flushing-the-queue',
                 "len(w[1]) == 3 and is_same(w[1][0], mem) and w[1][1] == 0 and len(w[2]) == 1 and w[2]['flush_queue'] is True")
        c.snapshot('data', 'w[1][2]')
        nbytes = c.concretize('len(data)')
        c.ensure('whole-entries', "typename(data) == 'bytearray' and len(data) %% 4 == 0 and 4 <= len(data) <= %d" % (4 * n + 4))
        kept = nbytes // 4 - 1
        c.ensure('terminator', 'bytes(data[%d:]) == bytes(4)' % (4 * kept))

        def zero(i):        # the entry's four bytes would all be zero: nothing to show, and the nearest RGB565 level of each channel is 0
            return ('(t%d == 0 and leds%d == 0 and not fade%d and rot%d == 0 and 2 * r%d * 31 <= 255 and 2 * g%d * 63 <= 255 '
                    'and 2 * b%d * 31 <= 255)' % ((i,) * 7))

        def slot(s, i):     # slot s of the output holds entry i
            o = 4 * s
            wd = '(data[%d] * 256 + data[%d])' % (o + 1, o + 2)
            R, G, B = '(%s >> 11)' % wd, '((%s >> 5) & 63)' % wd, '(%s & 31)' % wd
            return ('(data[%d] == t%d and data[%d] == leds%d + 16 * fade%d + 32 * rot%d and 2 * abs(%s * 255 - r%d * 31) <= 255 and '
                    '2 * abs(%s * 255 - g%d * 63) <= 255 and 2 * abs(%s * 255 - b%d * 31) <= 255 and '
                    'implies(r%d == 0, %s == 0) and implies(g%d == 0, %s == 0) and implies(b%d == 0, %s == 0) and '
                    'implies(r%d == 255, %s == 31) and implies(g%d == 255, %s == 63) and implies(b%d == 255, %s == 31))' % (
                        o, i, o + 3, i, i, i, R, i, G, i, B, i, i, R, i, G, i, B, i, R, i, G, i, B))
        if n == 1:
            c.ensure('kept-iff-not-all-zero', '%s == %s' % (kept == 0, zero(0)))
            if kept == 1:
                c.ensure('entry-0', slot(0, 0))
        if n == 2:
            if kept == 0:
                c.ensure('both-all-zero', '%s and %s' % (zero(0), zero(1)))
            elif kept == 1:
                c.ensure('one-all-zero-the-other-kept', '(%s and not %s and %s) or (not %s and %s and %s)' % (
                    zero(0), zero(1), slot(0, 1), zero(0), zero(1), slot(0, 0)))
            else:
                c.ensure('none-all-zero', 'not %s and not %s' % (zero(0), zero(1)))
                c.ensure('entries-in-order', '%s and %s' % (slot(0, 0), slot(1, 1)))
                for ch, sh, m in (('r', 11, 31), ('g', 5, 63), ('b', 0, 31)):
                    for a, b in ((0, 1), (1, 0)):
                        c.ensure('%s-monotone-%d-%d' % (ch, a, b), 'implies(%s%d <= %s%d, (((data[%d] * 256 + data[%d]) >> %d) & %d) <= '
                                 '(((data[%d] * 256 + data[%d]) >> %d) & %d))' % (ch, a, ch, b, 4 * a + 1, 4 * a + 2, sh, m, 4 * b + 1, 4 * b + 2, sh, m))
    return k


for _n in (0, 1, 2):
    _led_timings(_n)


# ------------------------------------------------------------------------- (d) received range reports and lighthouse angle streams
LOC = 'cflib.crazyflie.localization'
LOC_FUNCS = [LOC + ':Localization.__init__', LOC + ':Localization._incoming', 'cflib.utils.callbacks:Caller.add_callback',
             'cflib.utils.callbacks:Caller.call', 'cflib.crtp.crtpstack:CRTPPacket.__init__']
LOC_HEADER = (6 << 4) | (3 << 2) | 1        # localization port, generic channel


def _localization(c, payload_expr):
    """a Localization object (real constructor) with one subscriber `cb`, and a received packet with the given payload"""
    loc = c.new(LOC + ':Localization', c.ext('cf'))
    c.call((c.getfield(loc, 'receivedLocationPacket'), 'add_callback'), c.ext('cb'))
    pk = c.new('cflib.crtp.crtpstack:CRTPPacket', LOC_HEADER, c.snapshot('pkdata', payload_expr))
    c.reset_trace()
    return loc, pk


def _delivered_once(c, pk_type):
    c.ensure('no-exception', 'raised is None')
    c.ensure('exactly-one-packet-delivered', "len(trace) == 1 and len(sent('cb')) == 1 and len(sent('cb')[0][1]) == 1")
    if c.get('raised') is not None or len(c.get('trace')) != 1:
        return False
    c.snapshot('lp', "sent('cb')[0][1][0]")
    c.ensure('type-and-raw-data', "typename(lp) == 'localizationPacket' and lp.type == %d and bytes(lp.raw_data) == bytes(payload)" % pk_type)
    return True


def _range_report(k):
    @contract('C13', 'loc.range_report.%d' % k, LOC_FUNCS,
              clause='received range reports decode to exactly the anchor distances the device encoded (%d anchor(s): <id, binary32 '
                     'distance> each; any ids - a repeated id keeps the last distance, any distance bits incl. NaN, infinities, -0)' % k,
              max_paths=400)
    def f(c):
        payload = c.bytes('payload', 5 * k)
        loc, pk = _localization(c, "pack('<B', 0) + payload")
        c.call((loc, '_incoming'), pk)
        if not _delivered_once(c, 0):
            return
        n = c.concretize('len(lp.data)')
        c.ensure('is-dict', "typename(lp.data) == 'dict'")
        c.snapshot('ids', 'tuple(payload[5 * i] for i in range(%d))' % k)
        c.snapshot('dist', "tuple(unpack('<f', payload[5 * i + 1:5 * i + 5])[0] for i in range(%d))" % k)
        c.snapshot('keys', 'tuple(lp.data.keys())')
        c.snapshot('vals', 'tuple(lp.data.values())')
        c.ensure('every-anchor-id-is-a-key', 'all(any(keys[p] == ids[i] for p in range(%d)) for i in range(%d))' % (n, k))
        for p in range(n):
            c.ensure('entry-%d-is-the-last-report-of-its-anchor' % p,
                     'any(keys[%d] == ids[i] and same_float(vals[%d], dist[i]) and all(ids[j] != ids[i] for j in range(i + 1, %d)) '
                     'for i in range(%d))' % (p, p, k, k))
    return f


for _k in range(6):         # a CRTP packet carries at most 30 bytes: 1 + 5 * k <= 30
    _range_report(_k)


@contract('C13', 'loc.range_report.bad_length', LOC_FUNCS,
          clause='a range report whose payload is not a whole number of <id, distance> records delivers nothing (and an empty packet is ignored)',
          bounded='payload lengths 1, 2, 3, 4, 6, 9, 28, 29 and the empty packet')
def range_bad_length(c):
    n = c.choice('n', [-1, 1, 2, 3, 4, 6, 9, 28, 29])
    payload = c.bytes('payload', max(n, 0))
    loc, pk = _localization(c, "pack('<B', 0) + payload" if n >= 0 else 'payload')
    c.call((loc, '_incoming'), pk)
    c.ensure('no-exception', 'raised is None')
    c.ensure('nothing-delivered', 'len(trace) == 0')


def _fp16_by_contract(c):
    """calls of fp16_to_float are replaced by its contract (fp16_to_float for 0..65535, fp16_to_float.signed for the negative
    values that unpacking '<h' produces): the IEEE-754 binary16 value of the low 16 bits"""
    if c.backend == 'sym':
        from pyvc.ops import binop
        fpv = c.get('fp16_value')
        c.summary(ENC + ':fp16_to_float', lambda I, f, args, kwargs: fpv.fn(I, [binop(I, '%', args[0], 65536)], {}))
        c.assume_note('cflib.utils.encoding:fp16_to_float replaced by its contract (proved in fp16_to_float / fp16_to_float.signed)')


@contract('C13', 'fp16_to_float.signed', [ENC + ':fp16_to_float'],
          clause='half-precision decoding of the bit patterns 0x8000..0xffff when they arrive as the negative numbers -32768..-1 that '
                 "struct.unpack('<h') yields (this is how Localization._decode_lh_angle calls it)")
def fp16_signed(c):
    c.int('float16', -32768, -1)
    c.call(ENC + ':fp16_to_float', c.get('float16'))
    c.ensure('no-exception', 'raised is None')
    c.ensure('is-float', 'isinstance(result, float)')
    c.ensure('ieee-binary16-value-of-the-low-16-bits', 'same_float(result, fp16_value(float16 % 65536))')


@contract('C13', 'loc.lh_angle_stream', LOC_FUNCS + [LOC + ':Localization._decode_lh_angle'],
          clause='lighthouse angle-stream packets decode to exactly the per-sensor sweep angles the device encoded: base station, '
                 'the binary32 base angle of sensor 0 and base - binary16(offset) for sensors 1..3, for both sweeps, for every base angle '
                 'and every offset bit pattern (zero, negative zero, subnormals, infinities, NaN)')
def lh_angle(c):
    _fp16_by_contract(c)
    payload = c.bytes('payload', 21)
    loc, pk = _localization(c, "pack('<B', 10) + payload")
    c.call((loc, '_incoming'), pk)
    if not _delivered_once(c, 10):
        return
    c.snapshot('d', 'lp.data')
    c.ensure('shape', "typename(d) == 'dict' and len(d) == 3 and typename(d['x']) == 'list' and typename(d['y']) == 'list' and "
                      "len(d['x']) == 4 and len(d['y']) == 4")
    c.ensure('basestation', "d['basestation'] == payload[0]")
    for ax, o in (('x', 1), ('y', 11)):
        c.snapshot('base_' + ax, "unpack('<f', payload[%d:%d])[0]" % (o, o + 4))
        c.ensure('%s-sensor-0-is-the-base-angle' % ax, "same_float(d['%s'][0], base_%s)" % (ax, ax))
        for s in range(3):
            c.snapshot('off_%s%d' % (ax, s), "unpack('<H', payload[%d:%d])[0]" % (o + 4 + 2 * s, o + 6 + 2 * s))
            c.ensure('%s-sensor-%d-is-base-minus-half-float-offset' % (ax, s + 1),
                     "same_float(d['%s'][%d], base_%s - fp16_value(off_%s%d))" % (ax, s + 1, ax, ax, s))


@contract('C13', 'loc.lh_angle_stream.bad_length', LOC_FUNCS + [LOC + ':Localization._decode_lh_angle'],
          clause='an angle-stream packet of the wrong size is not decoded into angles: struct.error, nothing delivered',
          bounded='payload lengths 0, 1, 20, 22, 29')
def lh_angle_bad(c):
    _fp16_by_contract(c)
    n = c.choice('n', [0, 1, 20, 22, 29])
    payload = c.bytes('payload', n)
    loc, pk = _localization(c, "pack('<B', 10) + payload")
    c.call((loc, '_incoming'), pk)
    c.ensure('struct-error', "raised == 'struct.error'")
    c.ensure('nothing-delivered', 'len(trace) == 0')


# ------------------------------------------------------------------------- (a) quaternion compression (mode R)




def _isqrt_round(num, den):
    """the integer m with (m - 1/2)**2 <= num/den < (m + 1/2)**2, i.e. sqrt(num/den) rounded half up, in exact integer arithmetic"""
    # sqrt(num/den) + 1/2 = (2*sqrt(num/den) + 1) / 2 ; floor of it: largest m with (2m - 1)**2 * den <= 4 * num
    m = (math.isqrt(4 * num // den) + 1) // 2 + 2
    while m > 0 and (2 * m - 1) ** 2 * den > 4 * num:
        m -= 1
    return m


def fw_quatcompress(cs):
    """quatcompress() of the firmware's quatcompress.h for the direction cs (integers), in exact arithmetic: top two bits = index
    of the first component of largest magnitude; then for the other three, in index order, a sign bit (set when the component's
    sign differs from the largest's) and the 9-bit magnitude round(511 * sqrt(2) * |c| / |cs|)"""
    N = sum(v * v for v in cs)
    big = max(range(4), key=lambda i: (abs(cs[i]), -i))
    comp = big
    for i in range(4):
        if i != big:
            mag = _isqrt_round(2 * 511 * 511 * cs[i] * cs[i], N)
            comp = (comp << 10) | (int((cs[i] < 0) != (cs[big] < 0)) << 9) | mag
    return comp


STEP = 1.0 / (511.0 * math.sqrt(2.0))        # one quantisation step of a component


def _dirs(seed, n, lim):
    rnd = __import__('random').Random(seed)
    out = []
    while len(out) < n:
        d = tuple(rnd.randint(-lim, lim) for _ in range(4))
        if any(d):
            out.append(d)
    return out


GRID = [d for d in __import__('itertools').product((-1, 0, 1), repeat=4) if any(d)]
GENERIC = [(1, 2, 3, 4), (-1, -2, -3, -4), (1, 2, 3, -4), (-4, 3, 2, 1), (2, -40, 3, 1), (3, 1, -4, -2), (1, -2, -3, 9), (1, 2, 3, -9),
           (10, -95, 20, 10), (5, 5, 5, -6), (7, 7, -7, 5), (0, 0, -29, 71), (0, 0, 71, -29), (100, 1, -1, -100), (-3, 0, 0, 1),
           (1000, 1, 0, -1), (-1000, 999, 0, 0), (1, 1, 1, -1000), (707, -708, 1, 0), (-500, 500, -500, 501)]
QUAT_SETS = {'signs_zeros_ties': GRID[:40], 'signs_zeros_ties_2': GRID[40:], 'generic': GENERIC + _dirs(13, 30, 9),
             'random_1': _dirs(131, 45, 100), 'random_2': _dirs(1313, 45, 1000)}


def _quat_grid(name, dirs):
    @contract('C13', 'quat.compress.' + name, [ENC + ':compress_quaternion', ENC + ':decompress_quaternion'],
              clause='compressing a non-zero quaternion q = k * d (any scale k: unnormalised input; negated inputs; ties for the largest '
                     'component) gives exactly the 32-bit word of the firmware layout (quatcompress.h): index of the first component of '
                     'largest magnitude, then, for the three others in index order, sign relative to the largest and the magnitude '
                     'round(511 * sqrt(2) * |component| / |q|) <= 511; decompressing that word yields the same rotation (q/|q| up to the '
                     'common sign) with every component within two quantisation steps',
              bounded='%d directions d (%s): components in {-1, 0, 1} (all 80 sign / zero / tie patterns), hand-picked and seeded random '
                      'integer directions; the scale k is symbolic in [0.001, 1000].  Fully symbolic directions: see the module docstring'
                      % (len(dirs), name), float_mode='R', max_paths=400)
    def k(c):
        c.float('k')
        c.require('0.001 <= k <= 1000')
        d = c.choice('d', dirs)
        q = c.snapshot('q', '[%d * k, %d * k, %d * k, %d * k]' % tuple(d))
        word = fw_quatcompress(d)
        c.let('EXPECTED', word)
        c.call(ENC + ':compress_quaternion', q)
        c.ensure('no-exception', 'raised is None')
        c.ensure('fits-32-bits', "typename(result) == 'int' and 0 <= result < 2 ** 32")
        c.ensure('firmware-layout-word', 'result == EXPECTED')
        # round trip: the word the firmware layout prescribes (just shown to be the result) through the real decompressor
        norm = math.sqrt(sum(v * v for v in d))
        big = word >> 30
        sgn = -1.0 if d[big] < 0 else 1.0
        c.let('U', [sgn * v / norm for v in d])      # the unit quaternion of the same rotation whose largest component is positive
        c.let('TWO_STEPS', 2 * STEP)
        c.call(ENC + ':decompress_quaternion', word)
        c.ensure('decompress-no-exception', 'raised is None and len(result) == 4')
        if c.get('raised') is None:
            for i in range(4):
                c.ensure('round-trip-component-%d-within-two-steps' % i, 'abs(result[%d] - U[%d]) <= TWO_STEPS' % (i, i))
    return k


for _name in sorted(QUAT_SETS):
    _quat_grid(_name, QUAT_SETS[_name])


MAG_TRIPLES = [(0, 0, 0), (511, 0, 0), (0, 0, 511), (511, 511, 0), (0, 511, 511), (361, 361, 361), (1, 2, 3), (255, 256, 300),
               (417, 100, 417), (510, 1, 511)]


@contract('C13', 'quat.decompress.fields', [ENC + ':decompress_quaternion'],
          clause='decompressing a 32-bit word whose magnitudes describe a unit quaternion: the component named by the top two bits is '
                 'sqrt(1 - sum of the squares of the others) >= 0; the others are, in index order, sign * magnitude / 511 / sqrt(2) '
                 'with the 9-bit magnitude and the sign bit of their 10-bit field',
          bounded='every index of the largest component and every sign pattern, with %d magnitude triples (zeros, full scale, the '
                  'boundary sum of squares == 1, generic); fully symbolic words are undecided for the solver (integer div/mod mixed '
                  'with non-linear real arithmetic)' % len(MAG_TRIPLES), float_mode='R', max_paths=800)
def quat_decompress(c):
    big = c.choice('big', [0, 1, 2, 3])
    negs = c.choice('negs', [(a, b, d) for a in (0, 1) for b in (0, 1) for d in (0, 1)])
    mags = c.choice('mags', MAG_TRIPLES)
    c.let('SQRT2', math.sqrt(2.0))
    c.let('TOL', 1e-9)
    comp = (big << 30) | (negs[0] << 29) | (mags[0] << 20) | (negs[1] << 19) | (mags[1] << 10) | (negs[2] << 9) | mags[2]
    c.call(ENC + ':decompress_quaternion', comp)
    c.ensure('no-exception', 'raised is None and len(result) == 4')
    if c.get('raised') is not None:
        return
    others = [i for i in range(4) if i != big]
    for pos, i in enumerate(others):
        # SQRT2 is the double nearest to sqrt(2), the code divides by the exact one: equal up to TOL
        c.ensure('component-%d-is-signed-magnitude-over-511-sqrt2' % i,
                 'abs(result[%d] * 511 * SQRT2 - (%d)) <= TOL' % (i, -mags[pos] if negs[pos] else mags[pos]))
    c.ensure('largest-component-completes-the-unit-quaternion',
             'result[%d] >= 0 and abs(result[0] ** 2 + result[1] ** 2 + result[2] ** 2 + result[3] ** 2 - 1) <= TOL' % big)
