"""C13 - numeric wire codecs."""
import math

from pyvc.api import contract

ENC = 'cflib.utils.encoding'


@contract('C13', 'fp16_to_float', [ENC + ':fp16_to_float'],
          clause='half-precision decoding returns the IEEE-754 binary16 value for every one of the 65,536 bit patterns')
def fp16(c):
    x = c.int('float16', 0, 65535)
    c.call(ENC + ':fp16_to_float', x)
    c.ensure('no-exception', 'raised is None')
    c.ensure('is-float', 'isinstance(result, float)')
    c.ensure('ieee-binary16-value', 'same_float(result, fp16_value(float16))')


# ------------------------------------------------------------------------- (b) compressed trajectories
TRJ = 'cflib.crazyflie.mem.trajectory_memory'
DEG = 180.0 / math.pi          # math.degrees(x) is x * (180 / pi) with this double constant (CPython mathmodule.c)
TRJ_CLAUSE = ('compressed-trajectory coordinates and yaw encode to millimetres and tenths of a degree with less than one unit '
              'of error and overflow raises rather than wraps')


BOUND = '|value| <= 1e6 (the 16-bit range ends at 32.768 m / 57.2 rad); the engine tracks int(float) exactly only below 2**62'


def _bounded_inputs(c, names, scaled):
    for n, e in zip(names, scaled):
        c.require('-1e6 <= %s <= 1e6' % n)
        # (implied by the bound; stated in the syntactic form in which the engine's int(float) model tests it, so that
        # the tracked-exactly case is selected without a solver call)
        c.require('%s < 4611686018427387904.0 and %s > -4611686018427387904.0' % (e, e))


def _traj_encode(name, meth, scaled, unit):
    @contract('C13', 'traj.' + name, [TRJ + ':_CompressedBase.' + meth],
              clause=TRJ_CLAUSE + ' (%s: every float; NaN and infinities raise)' % unit)
    def k(c):
        self = c.new(TRJ + ':CompressedStart', 0.0, 0.0, 0.0, 0.0)
        c.float('x')
        c.let('DEG', DEG)
        c.call((self, meth), c.get('x'))
        c.ensure('raises-iff-not-finite', 'iff(raised is None, not is_nan(%s) and not is_inf(%s))' % (scaled, scaled))
        c.ensure('declared-errors-only', "raised in (None, 'ValueError', 'OverflowError')")
        if c.get('raised') is None:
            c.ensure('is-int', "typename(result) == 'int'")
            c.ensure('same-sign-or-zero', 'implies(result > 0, x > 0) and implies(result < 0, x < 0)')

    @contract('C13', 'traj.' + name + '.error', [TRJ + ':_CompressedBase.' + meth],
              clause=TRJ_CLAUSE + ' (%s: less than one unit of error, across and far beyond the 16-bit range)' % unit,
              bounded=BOUND)
    def k2(c):
        self = c.new(TRJ + ':CompressedStart', 0.0, 0.0, 0.0, 0.0)
        c.float('x')
        c.let('DEG', DEG)
        _bounded_inputs(c, ['x'], [scaled])
        c.call((self, meth), c.get('x'))
        c.ensure('no-exception', 'raised is None')
        c.ensure('less-than-one-unit-of-error', 'abs(%s - result) < 1' % scaled)
    return k, k2


_traj_encode('encode_spatial', '_encode_spatial', 'x * 1000', 'millimetres')
_traj_encode('encode_yaw', '_encode_yaw', 'x * DEG * 10', 'tenths of a degree')


IN16 = '-32769 < %s < 32768'      # int() truncates toward zero: exactly the floats whose integer part fits a signed 16-bit field


@contract('C13', 'traj.start.pack', [TRJ + ':CompressedStart.__init__', TRJ + ':CompressedStart.pack',
                                     TRJ + ':_CompressedBase._encode_spatial', TRJ + ':_CompressedBase._encode_yaw'],
          clause=TRJ_CLAUSE + ' (start point: four little-endian signed 16-bit fields x, y, z in mm and yaw in 0.1 deg)', bounded=BOUND)
def traj_start_pack(c):
    names = ['x', 'y', 'z', 'yaw']
    for n in names:
        c.float(n)
    c.let('DEG', DEG)
    scaled = ['x * 1000', 'y * 1000', 'z * 1000', 'yaw * DEG * 10']
    _bounded_inputs(c, names, scaled)
    self = c.new(TRJ + ':CompressedStart', *[c.get(n) for n in names])
    c.call((self, 'pack'))
    c.ensure('raises-iff-a-value-does-not-fit-16-bits', 'iff(raised is None, %s)' % ' and '.join('(%s)' % (IN16 % e) for e in scaled))
    c.ensure('declared-errors-only', "raised in (None, 'struct.error', 'ValueError', 'OverflowError')")
    c.ensure('finite-overflow-raises-struct-error', "implies(raised is not None and %s, raised == 'struct.error')" % ' and '.join(
        '(not is_nan(%s) and not is_inf(%s))' % (e, e) for e in scaled))
    if c.get('raised') is None:
        c.ensure('eight-bytes', "typename(result) == 'bytearray' and len(result) == 8")
        c.snapshot('f', "unpack('<hhhh', bytes(result))")
        for i, e in enumerate(scaled):
            c.ensure('field-%s-less-than-one-unit-of-error' % names[i], 'abs(%s - f[%d]) < 1' % (e, i))
            c.ensure('field-%s-same-sign-or-zero' % names[i], 'implies(f[%d] > 0, %s > 0) and implies(f[%d] < 0, %s < 0)' % (i, names[i], i, names[i]))


@contract('C13', 'traj.segment.encode_type', [TRJ + ':CompressedSegment._encode_type', TRJ + ':CompressedSegment._validate',
                                              TRJ + ':CompressedSegment.__init__'],
          clause='segment type bits: an element of 0 / 1 / 3 / 7 control points is announced as 0 / 1 / 2 / 3 (constant, linear, '
                 'cubic, septic Bezier of the firmware piecewise-compressed format); every other length is refused by the constructor',
          bounded='element lengths 0..9 enumerated')
def traj_encode_type(c):
    n = c.choice('n', list(range(10)))
    el = c.floats('el', n)
    c.let('n', n)
    seg = c.new(TRJ + ':CompressedSegment', 1.0, [], [], [], [])
    which = c.choice('axis', [0, 1, 2, 3])
    args = [[], [], [], []]
    args[which] = el
    c.call(TRJ + ':CompressedSegment', 1.0, *args)
    c.ensure('constructor-accepts-exactly-0-1-3-7', "iff(raised is None, n in (0, 1, 3, 7)) and raised in (None, 'Exception')")
    if c.get('raised') is None:
        c.call((seg, '_encode_type'), el)
        c.ensure('type-code', 'raised is None and result == {0: 0, 1: 1, 3: 2, 7: 3}[n]')


def _pack_element(n):
    @contract('C13', 'traj.segment.pack_element.%d' % n, [TRJ + ':CompressedSegment._pack_element'],
              clause='overflow raises rather than wraps: %d encoded value(s) are laid out as little-endian signed 16-bit integers, and '
                     'struct.error is raised when one of them does not fit' % n,
              bounded='element lengths 0, 1, 3, 7 (the only ones the constructor accepts)')
    def k(c):
        seg = c.new(TRJ + ':CompressedSegment', 1.0, [], [], [], [])
        parts = c.ints('parts', n)
        c.call((seg, '_pack_element'), parts)
        c.ensure('raises-iff-a-value-does-not-fit-16-bits', 'iff(raised is None, all(-32768 <= p <= 32767 for p in parts))')
        c.ensure('struct-error-only', "raised in (None, 'struct.error')")
        if c.get('raised') is None:
            c.ensure('two-bytes-per-value', "typename(result) == 'bytearray' and len(result) == %d" % (2 * n))
            c.ensure('values-decode-exactly', "tuple(unpack('<%s', bytes(result))) == tuple(parts)" % ('h' * n))
    return k


for _n in (0, 1, 3, 7):
    _pack_element(_n)

TYPE_CODE = {0: 0, 1: 1, 3: 2, 7: 3}


SEG_FUNCS = [TRJ + ':CompressedSegment.__init__', TRJ + ':CompressedSegment.pack', TRJ + ':CompressedSegment._encode_type',
             TRJ + ':CompressedSegment._pack_element', TRJ + ':_CompressedBase._encode_spatial_element',
             TRJ + ':_CompressedBase._encode_yaw_element', TRJ + ':_CompressedBase._encode_spatial', TRJ + ':_CompressedBase._encode_yaw']
COMBOS = ((0, 0, 0, 0), (1, 1, 1, 1), (7, 0, 1, 3), (1, 3, 7, 0), (0, 7, 3, 1), (3, 1, 0, 7))


def _segment_inputs(c, lens):
    """a CompressedSegment built by its real constructor from symbolic control points; returns (segment, [(name, scaled expr)])"""
    c.let('DEG', DEG)
    c.float('duration')
    _bounded_inputs(c, ['duration'], ['duration * 1000.0'])
    els = []
    scaled = []
    for ax, n in zip(('ex', 'ey', 'ez', 'eyaw'), lens):
        els.append(c.floats(ax, n))
        for i in range(n):
            scaled.append(('%s[%d]' % (ax, i), '%s[%d] * 1000' % (ax, i) if ax != 'eyaw' else '%s[%d] * DEG * 10' % (ax, i)))
    _bounded_inputs(c, [a for a, _ in scaled], [e for _, e in scaled])
    return c.new(TRJ + ':CompressedSegment', c.get('duration'), *els), scaled


def _type_byte(lens):
    return TYPE_CODE[lens[0]] | TYPE_CODE[lens[1]] << 2 | TYPE_CODE[lens[2]] << 4 | TYPE_CODE[lens[3]] << 6


def _segment_pack_direct(lens):
    @contract('C13', 'traj.segment.pack.decoded.%d_%d_%d_%d' % lens, SEG_FUNCS,
              clause=TRJ_CLAUSE + ' (segment with %d/%d/%d/%d control points for x/y/z/yaw, end to end: the bytes decode, under the '
                     'firmware layout <type byte, duration ms, control points as little-endian int16>, to values less than one unit '
                     'from the caller\'s)' % lens, bounded=BOUND)
    def k(c):
        seg, scaled = _segment_inputs(c, lens)
        c.call((seg, 'pack'))
        fits = ['(-1 < duration * 1000.0 < 65536)'] + ['(%s)' % (IN16 % e) for _, e in scaled]
        c.ensure('raises-iff-a-value-does-not-fit-16-bits', 'iff(raised is None, %s)' % ' and '.join(fits))
        c.ensure('struct-error-only', "raised in (None, 'struct.error')")
        if c.get('raised') is None:
            total = sum(lens)
            c.ensure('length', "typename(result) == 'bytearray' and len(result) == %d" % (3 + 2 * total))
            c.snapshot('f', "unpack('<BH%s', bytes(result))" % ('h' * total))
            c.ensure('type-byte', 'f[0] == %d' % _type_byte(lens))
            c.ensure('duration-in-ms', 'f[1] == int(duration * 1000.0)')
            for i, (a, e) in enumerate(scaled):
                c.ensure('field-%s-less-than-one-unit-of-error' % a, 'abs(%s - f[%d]) < 1' % (e, i + 2))
                c.ensure('field-%s-same-sign-or-zero' % a, 'implies(f[%d] > 0, %s > 0) and implies(f[%d] < 0, %s < 0)' % (i + 2, a, i + 2, a))
    return k


def _segment_pack_layout(lens):
    @contract('C13', 'traj.segment.pack.layout.%d_%d_%d_%d' % lens, SEG_FUNCS,
              clause=TRJ_CLAUSE + ' (segment with %d/%d/%d/%d control points for x/y/z/yaw, compositional: the packet is the type byte, '
                     'the duration in ms and then exactly the values of _encode_spatial / _encode_yaw (error < 1 unit: contracts '
                     'traj.encode_*.error) as little-endian int16 in the order x, y, z, yaw; struct.error iff one does not fit)' % lens,
              bounded=BOUND + '; element length combinations %s: every axis with every length' % (COMBOS,))
    def k(c):
        seg, scaled = _segment_inputs(c, lens)
        c.call((seg, 'pack'))
        c.ensure('struct-error-only', "raised in (None, 'struct.error')")
        fits = ['(0 <= int(duration * 1000.0) <= 65535)'] + ['(-32768 <= int(%s) <= 32767)' % e for _, e in scaled]
        c.ensure('raises-iff-a-value-does-not-fit-16-bits', 'iff(raised is None, %s)' % ' and '.join(fits))
        if c.get('raised') is None:
            c.ensure('whole-packet', "bytes(result) == pack('<BH%s', %d, int(duration * 1000.0)%s)" % (
                'h' * sum(lens), _type_byte(lens), ''.join(', int(%s)' % e for _, e in scaled)))
    return k


_segment_pack_direct((1, 1, 1, 1))
for _l in COMBOS:
    _segment_pack_layout(_l)


# ------------------------------------------------------------------------- (c) RGB565 colours of the LED ring
LED = 'cflib.crazyflie.mem.led_driver_memory'
LEDT = 'cflib.crazyflie.mem.led_timings_driver_memory'
LED_CLAUSE = ('8-bit colours map monotonically onto RGB565 with black to 0 and white to full scale at full intensity')


def _rgb565_ensures(c, tag, w, r, g, b, it=None):
    """post-conditions on one 16-bit RGB565 word `w` (spec expression) for the 8-bit levels r, g, b (spec expressions)"""
    c.snapshot('R' + tag, '(%s) >> 11' % w)
    c.snapshot('G' + tag, '((%s) >> 5) & 63' % w)
    c.snapshot('B' + tag, '(%s) & 31' % w)
    full = '' if it is None else ' and %s == 100' % it
    for ch, lvl, top, bits in (('R', r, 31, 5), ('G', g, 63, 6), ('B', b, 31, 5)):
        f = ch + tag
        c.ensure('%s-black-is-0' % f, 'implies(%s == 0, %s == 0)' % (lvl, f))
        c.ensure('%s-fits-%d-bits' % (f, bits), '0 <= %s <= %d' % (f, top))
        c.ensure('%s-white-is-full-scale-at-full-intensity' % f, 'implies(%s == 255%s, %s == %d)' % (lvl, full, f, top))
        c.ensure('%s-nearest-level-at-full-intensity' % f, 'implies(%s, 2 * abs(%s * 255 - %s * %d) <= 255)' % (
            'True' if it is None else '%s == 100' % it, f, lvl, top))


@contract('C13', 'led.write_data', [LED + ':LEDDriverMemory.__init__', LED + ':LEDDriverMemory.write_data', LED + ':LED.__init__', LED + ':LED.set'],
          clause=LED_CLAUSE + ' (all 12 LEDs, all 256 levels per channel, all intensities 0..100; exactly one write of 24 bytes at '
                              'address 0: big-endian RRRRRGGG GGGBBBBB per LED; monotone in the level and in the intensity)', float_mode='R')
def led_write(c):
    mh = c.ext('mh')
    mem = c.new(LED + ':LEDDriverMemory', 4, 0x10, 24, mh)
    c.let('mem', mem)
    for i in range(12):
        led = c.snapshot('led%d' % i, 'mem.leds[%d]' % i)
        c.call((led, 'set'), c.int('r%d' % i, 0, 255), c.int('g%d' % i, 0, 255), c.int('b%d' % i, 0, 255))
        c.set(led, 'intensity', c.int('it%d' % i, 0, 100))
    c.reset_trace()
    c.call((mem, 'write_data'), c.ext('cb'))
    c.ensure('no-exception', 'raised is None')
    if c.get('raised') is not None:
        return
    c.ensure('exactly-one-write', "len(trace) == 1 and len(sent('mh.write')) == 1")
    c.snapshot('w', "sent('mh.write')[0]")
    c.ensure('write-of-this-memory-at-address-0-flushing-the-queue',
             "len(w[1]) == 3 and is_same(w[1][0], mem) and w[1][1] == 0 and len(w[2]) == 1 and w[2]['flush_queue'] is True")
    c.snapshot('data', 'w[1][2]')
    c.ensure('24-bytes', "typename(data) == 'bytearray' and len(data) == 24")
    for i in range(12):
        _rgb565_ensures(c, str(i), 'data[%d] * 256 + data[%d]' % (2 * i, 2 * i + 1), 'r%d' % i, 'g%d' % i, 'b%d' % i, 'it%d' % i)
    for i in range(12):
        j = (i + 1) % 12
        for ch, lvl in (('R', 'r'), ('G', 'g'), ('B', 'b')):
            for a, b in ((i, j), (j, i)):
                c.ensure('%s-monotone-in-level-led%d-vs-led%d' % (ch, a, b),
                         'implies(it%d == it%d and %s%d <= %s%d, %s%d <= %s%d)' % (a, b, lvl, a, lvl, b, ch, a, ch, b))
                c.ensure('%s-monotone-in-intensity-led%d-vs-led%d' % (ch, a, b),
                         'implies(%s%d == %s%d and it%d <= it%d, %s%d <= %s%d)' % (lvl, a, lvl, b, a, b, ch, a, ch, b))
