"""C18 - CPX framing and routing preserve packets under any stream fragmentation.

Wire formats (specification, stated independently of the library code; assumptions about the peer):
 * CPX header, two bytes (struct CPXRoutingPacked_t of the AI-deck / Crazyflie firmware, not in the sandbox - trusted):
   byte 0 = destination (bits 0-2) | source (bits 3-5) | lastPacket (bit 6) | reserved (bit 7),
   byte 1 = function (bits 0-5) | version (bits 6-7); the only supported version is 0;
 * CPX over TCP: every packet is preceded by a 16-bit little-endian count of the bytes that follow (header + payload);
   the library uses the unprefixed struct code 'H' -> little-endian host assumed (reported by the engine);
 * CRTP over CPX: payload = CRTP header byte followed by the CRTP payload, HOST <-> STM32, function CRTP.

Environment model (trusted, in this file): `stream_socket` / `free_stream_socket` - a connected, blocking TCP socket
whose recv(n) returns a NON-EMPTY prefix of the unread stream of length <= n chosen by the environment; with nothing left
it blocks for ever (pseudo exception Deadlock).  A peer that closes the connection (recv returning b'') is outside the
model (and outside the property: the stream carries the packets).  queue.Queue is FIFO (engine model / real queue natively).

Contract families -> clauses of DESIGN.md section C18:
 1. codec.roundtrip.*, codec.decode.*      header round trip for all 4 x 4 x 7 x 2 combinations; all 65,536 header values decoded,
                                           version != 0 -> RuntimeError (payload lengths enumerated: 0, 1, 30 / 0, 2)
 2. tcp.write.*                            frame layout of writePacket, 16-bit limit (65533 ok, 65534 refused, never wraps)
    tcp.readData.inductive                 _readData for EVERY size and EVERY fragmentation (loop invariant + variant)
    tcp.readPacket.inductive               readPacket at any frame boundary, EVERY payload length 0..65533 and fragmentation, modular
                                           on the contract of _readData (induction step of "k frames are read back as k packets")
    tcp.readPacket.short_frame.*           length field 0 / 1 (no room for a CPX header)
    tcp.readData.<n>_of_<m>, tcp.reassembly.*   the same statements on short streams with the REAL loops and no summaries:
                                           writePacket^k -> every fragmentation -> readPacket^k (exhaustive, bounded)
 3. router.dispatch.*, router.sendPacket   one queue per function value, arrival order, identical objects, only to receivers of
                                           that function (function values symbolic, 0..63); unregistered function -> dropped
    pipeline.*                             stream -> real transport -> real router loop -> receivers, incl. an unsupported-version
                                           frame in the middle of the stream (rejected, framing kept)
 4. TcpDriver.send_packet, SerialDriver.send_packet     uplink tunnel, all 256 headers x payload lengths 0..30 (complete)
    tcpdriver.receive_thread, serialdriver.receive_thread (+ .no_crtp_header)   downlink tunnel, same quantification
    tcpdriver.downlink.end_to_end          stream -> ... -> driver queue on one sequential schedule

NOT covered (and why):
 * thread interleavings: the router thread, the drivers' receive threads and the client thread run here on sequential
   schedules (service loops are run for a scripted number of events and left by the pseudo exceptions StopLoop / Deadlock);
   concurrent receivePacket / run on the same queue rely on queue.Queue being thread safe; `disconnect()` setting
   `_socket = None` while `_readData` loops, `_CPXReceiveThread.stop()` and `CPXRouter.transport()` are not analysed;
 * UARTTransport: frame layout, 100-byte limit, clear-to-send tokens and the write -> read round trip are covered by uart.*
   for payload lengths 0, 1, 30, 98 on a port model that returns exactly the requested bytes; NOT covered: the writer
   blocking on the clear-to-send lock while the reader thread releases it (interleaving), checksum errors (the code only
   prints), noise before the sync token in connect();
 * encoding (`_get_wire_data`) for a payload of symbolic length: the engine cannot extend a concrete bytearray by a
   symbolic-length sequence, so encode / writePacket are proved for the enumerated payload lengths 0, 1, 30 (and 65533/65534
   with concrete content); decoding and re-assembly ARE proved for every length (tcp.readPacket.inductive);
 * `CPXPacket.length` is fixed by the constructor: a caller that replaces `data` afterwards gets a wrong frame length from
   writePacket - not reachable through the drivers under contract (they build the packet in one go), not part of the clauses;
 * CPXRouter.makeTransaction, CPX.close, connect() of the drivers (real sockets / serial ports, URI parsing).
"""
from pyvc.api import contract

CPX = 'cflib.cpx'
TRN = 'cflib.cpx.transports'
TCP = 'cflib.crtp.tcpdriver'
SER = 'cflib.crtp.serialdriver'
STK = 'cflib.crtp.crtpstack'

TARGETS = (1, 2, 3, 4)
FUNCTIONS = (1, 2, 3, 4, 5, 14, 15)

CODEC = [CPX + ':CPXPacket.__init__', CPX + ':CPXPacket._get_wire_data', CPX + ':CPXPacket._set_wire_data']


def packet(c, tag, paylen, kind='bytearray'):
    """a real CPXPacket with symbolic source / destination / function / last-packet flag and payload"""
    src = c.int('src' + tag, 1, 4)
    dst = c.int('dst' + tag, 1, 4)
    fn = c.int('fn' + tag, 1, 15)
    c.require('fn%s in %r' % (tag, FUNCTIONS))
    c.bool('last' + tag)
    payload = c.bytearray('pay' + tag, paylen) if kind == 'bytearray' else c.ints('pay' + tag, paylen, 0, 255, kind=kind)
    p = c.new(CPX + ':CPXPacket', function=c.new(CPX + ':CPXFunction', fn), destination=c.new(CPX + ':CPXTarget', dst),
              source=c.new(CPX + ':CPXTarget', src), data=payload)
    c.let('p' + tag, p)
    c.snapshot('_', 'setattr(p%s, "lastPacket", last%s)' % (tag, tag))
    return p


def _roundtrip(paylen):
    @contract('C18', 'codec.roundtrip.len%d' % paylen, CODEC,
              clause='a CPX packet survives encoding and decoding with its source, destination, function, last-packet flag and '
                     'payload intact for every combination (4 x 4 targets, 7 functions, both flag values)',
              bounded='payload length %d' % paylen, max_paths=1000)
    def k(c):
        p = packet(c, '', paylen)
        c.call((p, '_get_wire_data'))
        c.ensure('encode-no-exception', 'raised is None')
        c.snapshot('wire', 'result')
        c.ensure('wire-layout', "bytes(wire) == pack('<BB', (src << 3) | dst | (0x40 if last else 0), fn) + bytes(pay)")
        q = c.new(CPX + ':CPXPacket')
        c.let('q', q)
        c.call((q, '_set_wire_data'), c.get('wire'))
        c.ensure('decode-no-exception', 'raised is None')
        c.ensure('five-fields', "is_same(q.source, p.source) and is_same(q.destination, p.destination) and "
                                "is_same(q.function, p.function) and q.lastPacket == last and q.version == 0")
        c.ensure('field-values', 'q.source.value == src and q.destination.value == dst and q.function.value == fn')
        c.ensure('payload-and-length', 'bytes(q.data) == bytes(pay) and q.length == %d' % paylen)
    return k


for _n in (0, 1, 30):
    _roundtrip(_n)


def _decode(paylen):
    @contract('C18', 'codec.decode.len%d' % paylen, [CPX + ':CPXPacket.__init__', CPX + ':CPXPacket._set_wire_data'],
              clause='packets of an unsupported version are rejected (RuntimeError for every header whose two version bits are '
                     'not 0); every other header with targets and function inside the enumerations decodes to exactly the fields '
                     'its bits encode; for all 65,536 header values',
              bounded='payload length %d' % paylen, max_paths=1000)
    def k(c):
        c.int('b0', 0, 255), c.int('b1', 0, 255)
        pay = c.bytes('pay', paylen)
        c.snapshot('wire', 'bytearray(pack("<BB", b0, b1) + pay)')
        q = c.new(CPX + ':CPXPacket')
        c.let('q', q)
        c.call((q, '_set_wire_data'), c.get('wire'))
        c.snapshot('ver', 'b1 >> 6')
        c.snapshot('s', '(b0 >> 3) & 7')
        c.snapshot('d', 'b0 & 7')
        c.snapshot('f', 'b1 & 0x3F')
        c.snapshot('valid', 's in %r and d in %r and f in %r' % (TARGETS, TARGETS, FUNCTIONS))
        c.ensure('unsupported-version-rejected', "implies(ver != 0, raised == 'RuntimeError')")
        c.ensure('accepted-iff-version-0-and-enumerated', 'iff(raised is None, ver == 0 and valid)')
        c.ensure('only-declared-errors', "raised in (None, 'RuntimeError', 'ValueError')")
        if c.get('raised') is None:
            c.ensure('fields', 'q.source.value == s and q.destination.value == d and q.function.value == f and '
                               'q.lastPacket == ((b0 & 0x40) != 0) and q.version == 0')
            c.ensure('field-types', "typename(q.source) == 'CPXTarget' and typename(q.destination) == 'CPXTarget' and "
                                    "typename(q.function) == 'CPXFunction' and typename(q.lastPacket) == 'bool'")
            c.ensure('payload-and-length', 'bytes(q.data) == pay and q.length == %d' % paylen)
    return k


for _n in (0, 2):
    _decode(_n)


# ------------------------------------------------------------------------- TCP transport: framing

SOCK = [TRN + ':SocketTransport.writePacket', TRN + ':SocketTransport._readData', TRN + ':SocketTransport.readPacket']


def transport(c, sock):
    """a SocketTransport on an already connected socket (the constructor opens a real TCP connection)"""
    return c.obj(TRN + ':SocketTransport', _host='peer', _port=5000, _socket=sock)


def stream_socket(c, name, stream, total):
    """Sequential model of the receiving side of a connected TCP socket carrying the byte string `stream`
    (spec name, `total` bytes): recv(n) returns a NON-EMPTY PREFIX of the unread bytes of length <= n; the length is
    chosen by the environment (one `choice` per call, so every way of cutting the stream is explored).  With
    nothing left to read a blocking socket blocks for ever: pseudo exception Deadlock."""
    st = {'pos': 0, 'calls': 0, 'log': []}
    block = c.raiser('Deadlock', 'recv on an exhausted stream blocks for ever')

    def recv(_i, args, kwargs):
        n = args[0]
        if type(n) is not int:         # symbolic back end only: a request size that depends on stream content
            from pyvc.core import OutOfSubset
            raise OutOfSubset('socket model: recv size must be a concrete int, got %r' % (n,))
        if n <= 0:
            return c.snapshot('_chunk', '%s[0:0]' % stream)
        avail = total - st['pos']
        if avail == 0:
            return block()
        k = c.choice('%s_cut%d' % (name, st['calls']), list(range(1, min(n, avail) + 1)))
        st['calls'] += 1
        lo = st['pos']
        st['pos'] = lo + k
        st['log'].append((n, k))
        return c.snapshot('_chunk', '%s[%d:%d]' % (stream, lo, lo + k))
    return c.ext(name, returns={'recv': recv}), st


def _write(paylen):
    @contract('C18', 'tcp.write.len%d' % paylen, [TRN + ':SocketTransport.writePacket'] + CODEC[:2],
              clause='writePacket puts exactly one frame on the stream: 16-bit little-endian length of the CPX wire data, then '
                     'the two header bytes and the payload; for every source/destination/function/flag combination',
              bounded='payload length %d' % paylen, max_paths=1000)
    def k(c):
        p = packet(c, '', paylen)
        tx = transport(c, c.ext('sock'))
        c.call((tx, 'writePacket'), p)
        c.ensure('no-exception', 'raised is None')
        c.ensure('one-send-nothing-else', "calls() == ('sock.send',)")
        c.ensure('frame', "bytes(sent('sock.send')[0][1][0]) == pack('<HBB', %d, (src << 3) | dst | (0x40 if last else 0), fn) + bytes(pay)"
                 % (paylen + 2))
    return k


for _n in (0, 1, 30):
    _write(_n)


@contract('C18', 'tcp.write.limit', [TRN + ':SocketTransport.writePacket'],
          clause='payload lengths up to the maximum the 16-bit frame length can express (65533) are framed with the exact length; '
                 'a longer packet is refused (struct.error) with nothing put on the stream - the length never wraps around',
          bounded='payload lengths 65533 and 65534, one header')
def write_limit(c):
    n = c.choice('n', [65533, 65534])
    p = c.new(CPX + ':CPXPacket', function=c.new(CPX + ':CPXFunction', 5), destination=c.new(CPX + ':CPXTarget', 4),
              source=c.new(CPX + ':CPXTarget', 3), data=bytearray(n))
    tx = transport(c, c.ext('sock'))
    c.call((tx, 'writePacket'), p)
    if n == 65533:
        c.ensure('sent-with-exact-length', "raised is None and calls() == ('sock.send',) and "
                 "bytes(sent('sock.send')[0][1][0])[0:4] == pack('<HBB', 65535, 0x1C, 5) and len(sent('sock.send')[0][1][0]) == 65537")
    else:
        c.ensure('refused-nothing-sent', "raised == 'struct.error' and calls() == ()")


def _read_data(size, extra):
    @contract('C18', 'tcp.readData.%d_of_%d' % (size, size + extra), [TRN + ':SocketTransport._readData'],
              clause='_readData(size) returns exactly the next `size` bytes of the stream and consumes exactly those, however the '
                     'stream is cut into receive chunks',
              bounded='size %d, %d further bytes in the stream; all %d fragmentations' % (size, extra, 2 ** max(size - 1, 0)))
    def k(c):
        c.bytes('S', size + extra)
        sock, st = stream_socket(c, 'sock', 'S', size + extra)
        rx = transport(c, sock)
        c.call((rx, '_readData'), size)
        c.let('pos', st['pos'])
        c.let('log', tuple(st['log']))
        c.ensure('no-exception', 'raised is None')
        c.ensure('exact-prefix', "typename(result) == 'bytearray' and bytes(result) == S[0:%d]" % size)
        c.ensure('consumed-exactly', 'pos == %d' % size)
        c.ensure('never-asks-for-more-than-missing', 'all(log[i][0] == %d - sum(e[1] for e in log[:i]) for i in range(len(log)))' % size)
    return k


for _a in ((0, 1), (1, 0), (2, 3), (5, 2)):
    _read_data(*_a)


def fixed_packet(c, tag, fields, paylen):
    """a real CPXPacket with the given (source, destination, function, last) and a symbolic payload"""
    src, dst, fn, last = fields
    payload = c.bytearray('pay' + tag, paylen)
    p = c.new(CPX + ':CPXPacket', function=c.new(CPX + ':CPXFunction', fn), destination=c.new(CPX + ':CPXTarget', dst),
              source=c.new(CPX + ':CPXTarget', src), data=payload)
    c.let('p' + tag, p)
    c.let('last' + tag, last)
    c.snapshot('_', 'setattr(p%s, "lastPacket", last%s)' % (tag, tag))
    return p


HEADERS = ((1, 3, 3, True), (4, 3, 5, False), (1, 3, 3, False), (2, 3, 2, True), (3, 1, 15, False))


def write_stream(c, lens, symbolic_fields):
    """the byte stream produced by the REAL writePacket for packets with the given payload lengths -> spec name S"""
    tx = transport(c, c.ext('wsock'))
    for i, n in enumerate(lens):
        p = packet(c, str(i), n) if symbolic_fields else fixed_packet(c, str(i), HEADERS[i % len(HEADERS)], n)
        c.call((tx, 'writePacket'), p)
        c.ensure('write%d-no-exception' % i, 'raised is None')
    c.snapshot('S', ' + '.join("bytes(sent('wsock.send')[%d][1][0])" % i for i in range(len(lens))))
    c.ensure('stream-is-concatenation-of-frames', "len(sent('wsock.send')) == %d and len(S) == %d" % (len(lens), sum(n + 4 for n in lens)))
    return sum(n + 4 for n in lens)


def same_packet(i):
    return ("is_same(r{0}.source, p{0}.source) and is_same(r{0}.destination, p{0}.destination) and is_same(r{0}.function, p{0}.function) "
            "and r{0}.lastPacket == last{0} and bytes(r{0}.data) == bytes(pay{0}) and r{0}.length == len(pay{0})").format(i)


def _reassembly(lens, symbolic_fields=False):
    nfrag = 1
    for n in lens:
        nfrag *= 2 * 2 ** (n + 1)
    name = 'tcp.reassembly.' + '_'.join(str(n) for n in lens) + ('.allheaders' if symbolic_fields else '')

    @contract('C18', name, SOCK + CODEC,
              clause='a TCP byte stream carrying a sequence of packets (written by writePacket) is re-assembled by readPacket into '
                     'exactly that sequence - same five fields, same payload, each read consuming exactly its frame - however the '
                     'stream is cut into receive chunks',
              bounded='%d packet(s) with payload lengths %s, %s; all %d fragmentations of the %d-byte stream (exhaustive)' % (
                  len(lens), list(lens), 'all header combinations' if symbolic_fields else 'headers %r' % (HEADERS[:len(lens)],),
                  nfrag, sum(n + 4 for n in lens)),
              max_paths=6000)
    def k(c):
        total = write_stream(c, lens, symbolic_fields)
        sock, st = stream_socket(c, 'rsock', 'S', total)
        rx = transport(c, sock)
        end = 0
        for i, n in enumerate(lens):
            end += n + 4
            c.call((rx, 'readPacket'))
            c.let('pos', st['pos'])
            c.ensure('read%d-no-exception' % i, 'raised is None')
            if c.get('raised') is not None:
                return
            c.snapshot('r%d' % i, 'result')
            c.ensure('read%d-same-packet' % i, same_packet(i))
            c.ensure('read%d-consumes-exactly-its-frame' % i, 'pos == %d' % end)
    return k


_reassembly((0,), True)
_reassembly((1,), True)
_reassembly((0, 1, 2))
_reassembly((2, 0, 1))
_reassembly((3, 3))
_reassembly((6,))


# ------------------------------------------------------------------------- router

ROUTER = [CPX + ':CPXRouter.__init__', CPX + ':CPXRouter.run', CPX + ':CPXRouter.receivePacket']


def scripted(c, items, stop='StopLoop'):
    """callable returning the items one by one; afterwards the endless service loop is left by a pseudo exception
    (a BaseException, so that `except Exception` in the loop cannot swallow it)"""
    todo = list(items)
    leave = c.raiser(stop, 'script exhausted')

    def nxt(*_a):
        if todo:
            return todo.pop(0)
        return leave()
    return nxt


def drain(c, router, fn, upto, tag):
    """receivePacket(fn) until the queue is empty -> number of packets handed out (spec names <tag>0, <tag>1, ...)"""
    got = 0
    while True:
        c.call((router, 'receivePacket'), fn, timeout=0)
        if c.get('raised') is not None or got > upto:
            return got
        c.snapshot('%s%d' % (tag, got), 'result')
        got += 1


def _dispatch(npk):
    @contract('C18', 'router.dispatch.%dpk' % npk, ROUTER,
              clause='received packets are queued per function in arrival order and handed only to receivers of that function: a '
                     'receiver of function r gets exactly the packets whose function value is r, the identical objects, in arrival '
                     'order; for all function values 0..63 of packets and receivers (also values outside the enumeration); a packet '
                     'arriving while no receiver has registered for its function is dropped (behaviour of the code, stated)',
              bounded='%d packets, two registered receivers with different functions and one late receiver' % npk)
    def k(c):
        fs = [c.int('f%d' % i, 0, 63) for i in range(npk)]
        pks = [c.ext('pk%d' % i, attrs={'function': c.ext('fn%d' % i, attrs={'value': fs[i]})}) for i in range(npk)]
        c.int('r1', 0, 63), c.int('r2', 0, 63), c.int('r3', 0, 63)
        c.require('r1 != r2 and r3 != r1 and r3 != r2')
        rcv = [c.ext('rcv%d' % j, attrs={'value': c.get('r%d' % j)}) for j in (1, 2, 3)]
        router = c.new(CPX + ':CPXRouter', c.ext('transport', returns={'readPacket': scripted(c, pks)}))
        for j in (0, 1):        # a receiver registers by waiting for a packet of its function
            c.call((router, 'receivePacket'), rcv[j], timeout=0)
            c.ensure('nothing-before-arrival-%d' % j, "raised == 'queue.Empty'")
        c.reset_trace()
        c.call((router, 'run'))
        c.ensure('loop-runs-through-the-script', "raised == 'StopLoop' and calls() == ('transport.readPacket',) * %d" % (npk + 1))
        for j, r in ((0, 'r1'), (1, 'r2')):
            tag = 'g%d_' % j
            got = drain(c, router, rcv[j], npk, tag)
            c.let('got', got)
            c.ensure('%s-ends-with-empty-queue' % r, "raised == 'queue.Empty'")
            c.ensure('%s-gets-every-packet-of-its-function' % r, 'got == ' + ' + '.join('(f%d == %s)' % (i, r) for i in range(npk)))
            for m in range(got):
                c.ensure('%s-packet%d-has-its-function' % (r, m), '%s%d.function.value == %s' % (tag, m, r))
                for i in range(npk):
                    before = ' + '.join(['0'] + ['(f%d == %s)' % (e, r) for e in range(i)])
                    c.ensure('%s-arrival-order-%d-%d' % (r, m, i),
                             'implies(f%d == %s and (%s) == %d, is_same(%s%d, pk%d))' % (i, r, before, m, tag, m, i))
        got = drain(c, router, rcv[2], npk, 'late')
        c.let('got', got)
        c.ensure('late-receiver-gets-nothing (packets without a registered receiver were dropped)', "got == 0 and raised == 'queue.Empty'")
    return k


_dispatch(1)
_dispatch(3)


# ------------------------------------------------------------------------- CRTP tunnelled through CPX

def crtp_packet(c):
    """a real CRTPPacket with any header byte and any payload of 0..30 bytes (31 paths: complete for the CRTP payload sizes)"""
    n = c.choice('n', list(range(31)))
    c.int('h', 0, 255)
    data = c.bytes('data', n)
    pk = c.new(STK + ':CRTPPacket', c.get('h'), data)
    c.let('pk', pk)
    return pk, n


UPLINK = ('uplink: a CRTP packet handed to the driver leaves as exactly one CPX packet from HOST to STM32, function CRTP, whose '
          'payload is the CRTP header byte followed by the unchanged CRTP payload; for all 256 header bytes and all payload '
          'lengths 0..30')


@contract('C18', 'TcpDriver.send_packet', [TCP + ':TcpDriver.__init__', TCP + ':TcpDriver.send_packet', CPX + ':CPX.sendPacket', CPX + ':CPXRouter.sendPacket',
                                           TRN + ':SocketTransport.writePacket'] + CODEC,
          clause=UPLINK + '; through the real CPX facade, router and TCP transport: exactly one frame on the socket, nothing else')
def tcp_uplink(c):
    pk, n = crtp_packet(c)
    router = c.new(CPX + ':CPXRouter', transport(c, c.ext('sock')))
    drv = c.new(TCP + ':TcpDriver')
    c.let('drv', drv)
    c.let('facade', c.obj(CPX + ':CPX', _router=router))        # CPX.__init__ would start the router thread
    c.snapshot('_', 'setattr(drv, "cpx", facade)')
    c.reset_trace()
    c.call((drv, 'send_packet'), pk)
    c.ensure('no-exception', 'raised is None')
    c.ensure('one-frame-nothing-else', "calls() == ('sock.send',)")
    c.snapshot('frame', "bytes(sent('sock.send')[0][1][0])")
    c.ensure('frame-on-the-stream', "frame == pack('<HBBB', %d, (3 << 3) | 1, 3, h | 0x0C) + data" % (n + 3))
    c.ensure('crtp-header-is-the-packets', 'frame[4] == pk.header and pk.header == pk.get_header()')
    q = c.new(CPX + ':CPXPacket')
    c.let('q', q)
    c.call((q, '_set_wire_data'), c.snapshot('wire', 'bytearray(frame[2:])'))
    c.ensure('peer-decodes-route-and-payload', "raised is None and q.source.value == 3 and q.destination.value == 1 and "
             "q.function.value == 3 and bytes(q.data) == pack('<B', pk.header) + data")


@contract('C18', 'SerialDriver.send_packet', [SER + ':SerialDriver.__init__', SER + ':SerialDriver.send_packet'] + CODEC[:2], clause=UPLINK)
def serial_uplink(c):
    pk, n = crtp_packet(c)
    drv = c.new(SER + ':SerialDriver')
    c.let('drv', drv)
    c.let('facade', c.ext('cpx'))
    c.snapshot('_', 'setattr(drv, "cpx", facade)')
    c.reset_trace()
    c.call((drv, 'send_packet'), pk)
    c.ensure('no-exception', 'raised is None')
    c.ensure('one-cpx-packet-nothing-else', "calls() == ('cpx.sendPacket',)")
    c.snapshot('q', "sent('cpx.sendPacket')[0][1][0]")
    c.ensure('route', "typename(q) == 'CPXPacket' and q.source.value == 3 and q.destination.value == 1 and q.function.value == 3")
    c.ensure('payload-is-header-then-data', 'bytes(q.data) == pack("<B", h | 0x0C) + data and q.length == %d' % (n + 1))
    c.ensure('crtp-header-is-the-packets', 'q.data[0] == pk.header and pk.header == pk.get_header()')
    c.call((c.get('q'), '_get_wire_data'))
    c.ensure('wire-data', "raised is None and bytes(result) == pack('<BBB', (3 << 3) | 1, 3, h | 0x0C) + data")


def _downlink(mod, poll_timeout):
    short = mod.rsplit('.', 1)[1]

    @contract('C18', '%s.receive_thread' % short, [mod + ':_CPXReceiveThread.__init__', mod + ':_CPXReceiveThread.run', CODEC[2], STK + ':CRTPPacket.__init__'],
              clause='downlink: every CPX packet of function CRTP (decoded from its wire bytes) whose payload is a CRTP header byte '
                     'followed by 0..30 payload bytes is put on the driver\'s queue as exactly one CRTP packet with that port, '
                     'channel and header (the two link bits 0x0C are always set by CRTPPacket) and the unchanged payload; the thread '
                     'asks the router for function CRTP only; the link-error callback is not used; for all 256 header bytes')
    def k(c):
        n = c.choice('n', list(range(31)))
        c.int('h', 0, 255)
        data = c.bytes('data', n)
        c.snapshot('wire', 'bytearray(pack("<BBB", (1 << 3) | 3 | 0x40, 3, h) + data)')
        cp = c.new(CPX + ':CPXPacket')
        c.invoke((cp, '_set_wire_data'), c.get('wire'))
        cpx = c.ext('cpx', returns={'receivePacket': scripted(c, [cp])})
        thr = c.new(mod + ':_CPXReceiveThread', cpx, c.queue('inq'), c.ext('link_error'))
        c.reset_trace()
        c.call((thr, 'run'))
        c.ensure('loop-runs-through-the-script', "raised == 'StopLoop' and len(sent('cpx.receivePacket')) == 2")
        c.ensure('asks-for-function-CRTP-only', "all(len(e[1]) == 1 and e[1][0].value == 3 and typename(e[1][0]) == 'CPXFunction' "
                 "and e[2] == {'timeout': %r} for e in sent('cpx.receivePacket'))" % poll_timeout)
        c.ensure('exactly-one-crtp-packet-queued', "len(inq.queue) == 1")
        c.ensure('no-link-error', "len(calls('link_error')) == 0")
        if c.snapshot('queued', 'len(inq.queue)') == 1:
            c.snapshot('pk', "inq.queue[0]")
            c.ensure('header', "typename(pk) == 'CRTPPacket' and pk.port == h >> 4 and pk.channel == h & 3 and pk.header == h | 0x0C "
                               "and pk.get_header() == ((h & 0xF3) | 0x0C)")
            c.ensure('payload-unchanged', 'bytes(pk.data) == data and len(pk.data) == %d' % n)
    return k


_downlink(TCP, 0.1)
_downlink(SER, 1)


def _downlink_empty(mod):
    short = mod.rsplit('.', 1)[1]

    @contract('C18', '%s.receive_thread.no_crtp_header' % short, [mod + ':_CPXReceiveThread.run'],
              clause='a CPX packet of function CRTP with an empty payload carries no CRTP packet: nothing is queued and no link error '
                     'is reported (frame of the downlink clause)')
    def k(c):
        cp = c.new(CPX + ':CPXPacket')
        c.invoke((cp, '_set_wire_data'), bytearray([(1 << 3) | 3, 3]))
        cpx = c.ext('cpx', returns={'receivePacket': scripted(c, [cp])})
        thr = c.new(mod + ':_CPXReceiveThread', cpx, c.queue('inq'), c.ext('link_error'))
        c.reset_trace()
        c.call((thr, 'run'))
        c.ensure('nothing-queued-no-error', "raised == 'StopLoop' and len(inq.queue) == 0 and len(calls('link_error')) == 0")
    return k


_downlink_empty(TCP)
_downlink_empty(SER)


# ------------------------------------------------------------------------- stream -> router -> receivers (integration)

def _pipeline(lens, bad_at=None):
    """HEADERS give the functions CRTP, APP, CRTP, CONSOLE, BOOTLOADER in turn; receivers: CRTP and APP registered, CONSOLE not"""
    name = 'pipeline.' + '_'.join(str(n) for n in lens) + ('' if bad_at is None else '.bad_version_at_%d' % bad_at)
    nfrag = 1
    for n in lens:
        nfrag *= 2 * 2 ** (n + 1)
    if bad_at is not None:
        nfrag *= 2 * 4

    @contract('C18', name, SOCK + CODEC + ROUTER,
              clause='a fragmented TCP stream of frames run through the real transport and the real router loop reaches the '
                     'receivers: each registered receiver gets exactly the packets of its function, in arrival order, fields and '
                     'payload intact, nothing of another function'
                     + ('' if bad_at is None else '; a frame with an unsupported version in the stream is consumed and rejected '
                        'without disturbing the framing of the packets behind it'),
              bounded='%d packets with payload lengths %s and headers %r; all %d fragmentations (exhaustive)' % (
                  len(lens), list(lens), HEADERS[:len(lens)], nfrag), max_paths=6000)
    def k(c):
        total = write_stream(c, lens, False)
        if bad_at is not None:
            c.int('badver', 1, 3), c.int('x', 0, 255)
            cut = sum(n + 4 for n in lens[:bad_at])
            c.snapshot('S', "S[0:%d] + pack('<HBBB', 3, (1 << 3) | 3, (badver << 6) | 3, x) + S[%d:]" % (cut, cut))
            total += 5
        sock, st = stream_socket(c, 'rsock', 'S', total)
        router = c.new(CPX + ':CPXRouter', transport(c, sock))
        crtp, app, console = [c.new(CPX + ':CPXFunction', v) for v in (3, 5, 2)]
        for f in (crtp, app):
            c.call((router, 'receivePacket'), f, timeout=0)
            c.ensure('nothing-before-arrival', "raised == 'queue.Empty'")
        c.call((router, 'run'))
        c.let('pos', st['pos'])
        c.ensure('loop-reads-the-whole-stream-then-blocks', "raised == 'Deadlock' and pos == %d" % total)
        for f, val, tag in ((crtp, 3, 'crtp'), (app, 5, 'app'), (console, 2, 'console')):
            want = [i for i in range(len(lens)) if HEADERS[i % len(HEADERS)][2] == val and val != 2]
            got = drain(c, router, f, len(lens), tag)
            c.let('got', got)
            c.ensure('%s-receiver-gets-%d-packets' % (tag, len(want)), "got == %d and raised == 'queue.Empty'" % len(want))
            for m, i in enumerate(want[:got]):
                c.ensure('%s-receiver-packet-%d-is-sent-packet-%d' % (tag, m, i), same_packet(i).replace('r%d.' % i, '%s%d.' % (tag, m)))
    return k


_pipeline((1, 0, 1))
_pipeline((0, 1, 0, 0))
_pipeline((1, 1), bad_at=1)
_pipeline((0, 2), bad_at=0)


# ------------------------------------------------------------------------- every fragmentation, every length (inductive)

def free_stream_socket(c, S, ghost):
    """The socket model of `stream_socket` for a stream of SYMBOLIC length and symbolic read position: recv(n) returns
    S[pos:pos+k] for an environment-chosen k with 1 <= k <= min(n, len(S) - pos) - k is universally quantified in the
    proof (fresh symbol `cut!i`); natively it is taken from the solver model, or as large as allowed when the model
    does not constrain it.  ghost.pos is the number of bytes consumed so far."""
    block = c.raiser('Deadlock', 'recv on an exhausted stream blocks for ever')
    st = {'calls': 0}

    def recv(I, args, kwargs):
        n = args[0]
        if I is None:                                           # native: concrete stream
            pos = ghost.pos
            avail = len(S) - pos
            if n <= 0:
                return b''
            if avail <= 0:
                return block()
            k = int(c.values.get('cut!%d' % st['calls'], min(n, avail)))
            st['calls'] += 1
            assert 1 <= k <= min(n, avail), 'socket model: cut %d outside 1..min(%d, %d)' % (k, n, avail)
            ghost.pos = pos + k
            return bytes(S[pos:pos + k])
        import z3
        from pyvc.values import SSeq
        from pyvc.ops import zterm, mk_int
        pos = zterm(ghost.attrs['pos'])
        avail = z3.Length(S.t) - pos
        if not I.path.decide(zterm(n) > 0):
            return SSeq(z3.Empty(S.t.sort()), 'bytes')
        if not I.path.decide(avail > 0):
            return block()
        k = I.fresh_int('cut', 1)
        I.path.assume(z3.And(k.t <= zterm(n), k.t <= avail))
        ghost.attrs['pos'] = mk_int(pos + k.t)
        return SSeq(z3.SubSeq(S.t, pos, k.t), 'bytes')
    return c.ext('sock', returns={'recv': recv})


@contract('C18', 'tcp.readData.inductive', [TRN + ':SocketTransport._readData'],
          clause='_readData(size) returns exactly the next `size` bytes of the stream and consumes exactly those for EVERY way of '
                 'cutting the stream into receive chunks and every size (loop invariant: data == S[start:start+len(data)], '
                 'pos == start + len(data), len(data) <= size; variant size - len(data); each recv length universally quantified)',
          bounded='size and stream length up to 70000 (any bound works; it only keeps the solver in linear arithmetic)')
def read_data_inductive(c):
    S = c.seq('S', 'bytes', 70000)
    c.int('size', 0, 70000), c.int('start', 0, 70000)
    c.require('start + size <= len(S)')
    ghost = c.ext('ghost', attrs={'pos': c.get('start')})
    rx = transport(c, free_stream_socket(c, S, ghost))
    if c.backend == 'sym':
        import z3
        from pyvc.values import SSeq
        c.I.spec_env = {'S': S, 'ghost': ghost, 'start': c.get('start')}

        def havoc(I, fr):
            fr.vars['data'] = SSeq(z3.Const(I.path.fresh_name('data'), S.t.sort()), 'bytearray')
            ghost.attrs['pos'] = I.fresh_int('pos')
        c.loop_invariant(TRN + ':SocketTransport._readData', '#1',
                         ['0 <= len(data) and len(data) <= size', 'ghost.pos == start + len(data)',
                          'data == S[start:start + len(data)]'], havoc, [], variant='size - len(data)')
    c.call((rx, '_readData'), c.get('size'))
    c.ensure('no-exception', 'raised is None')
    c.ensure('exact-bytes', "typename(result) == 'bytearray' and result == S[start:start + size]")
    c.ensure('consumed-exactly', 'ghost.pos == start + size')


@contract('C18', 'tcp.readPacket.inductive', [TRN + ':SocketTransport.readPacket', CPX + ':CPXPacket.__init__', CODEC[2]],
          clause='readPacket at a frame boundary of a stream <frames already read> <16-bit length><header b0 b1><payload P> <rest> consumes exactly that '
                 'frame and returns the packet it encodes (fields from the header bits, payload == P), for EVERY payload length '
                 '0..65533, every content, every fragmentation; _readData is used through its contract (tcp.readData.inductive); '
                 'frames that do not decode (unsupported version, values outside the enumerations) raise AFTER the frame has been '
                 'consumed, so the framing of the following packets is kept',
          max_paths=2000)
def read_packet_inductive(c):
    c.int('b0', 0, 255), c.int('b1', 0, 255)
    P = c.seq('P', 'bytes', 65533)
    pre = c.seq('pre', 'bytes', 100000)       # the frames already consumed ...
    rest = c.seq('rest', 'bytes', 100000)     # ... and the ones still to come (induction step over the packet sequence)
    S = c.snapshot('S', "pre + pack('<HBB', 2 + len(P), b0, b1) + P + rest")
    ghost = c.ext('ghost', attrs={'pos': c.snapshot('start', 'len(pre)')})
    rx = transport(c, free_stream_socket(c, S, ghost))
    if c.backend == 'sym':
        import z3
        from pyvc.values import SSeq, PBytearray
        from pyvc.ops import zterm, mk_int, mk_bool
        n = 2 + z3.Length(P.t)
        b0, b1, start = zterm(c.get('b0')), zterm(c.get('b1')), z3.Length(pre.t)

        def read_data(I, f, args, kwargs):
            """contract of _readData (proved in tcp.readData.inductive): returns S[pos:pos+size], pos += size.
            For the two reads that coincide with the pieces S was built from, the same value is returned in its
            structured form (obligation `structured-value-is-the-contract-value`), which keeps the header bytes out of the
            sequence theory."""
            size, pos = zterm(args[1]), zterm(ghost.attrs['pos'])
            if not I.path.decide(z3.And(size >= 0, pos + size <= z3.Length(S.t))):
                I.raise_py('Deadlock', 'stream exhausted')
            ghost.attrs['pos'] = mk_int(pos + size)
            generic = z3.SubSeq(S.t, pos, size)
            if I.path.must(z3.And(pos == start, size == 2)):
                val = PBytearray([mk_int(n % 256), mk_int((n / 256) % 256)])
                term = z3.Concat(z3.Unit(n % 256), z3.Unit((n / 256) % 256))
            elif I.path.must(z3.And(pos == start + 2, size == n)):
                term = z3.Concat(z3.Unit(b0), z3.Unit(b1), P.t)
                val = SSeq(term, 'bytearray')
            else:
                return SSeq(generic, 'bytearray')
            I.obligation('A', 'structured-value-is-the-contract-value', mk_bool(term == generic), {'expr': 'piece == S[pos:pos+size]'})
            return val
        c.summary(TRN + ':SocketTransport._readData', read_data)
    c.call((rx, 'readPacket'))
    c.snapshot('ver', 'b1 >> 6')
    c.snapshot('valid', '((b0 >> 3) & 7) in %r and (b0 & 7) in %r and (b1 & 0x3F) in %r' % (TARGETS, TARGETS, FUNCTIONS))
    c.ensure('frame-consumed-exactly-whatever-the-outcome', 'ghost.pos == start + 4 + len(P)')
    c.ensure('accepted-iff-version-0-and-enumerated', 'iff(raised is None, ver == 0 and valid)')
    c.ensure('unsupported-version-rejected', "implies(ver != 0, raised == 'RuntimeError')")
    c.ensure('only-declared-errors', "raised in (None, 'RuntimeError', 'ValueError')")
    if c.get('raised') is None:
        c.snapshot('r', 'result')
        c.ensure('fields', "typename(r) == 'CPXPacket' and r.source.value == (b0 >> 3) & 7 and r.destination.value == b0 & 7 and "
                           "r.function.value == b1 & 0x3F and r.lastPacket == ((b0 & 0x40) != 0) and r.version == 0")
        c.ensure('payload-and-length', 'r.data == P and r.length == len(P)')


def _short_frame(n):
    @contract('C18', 'tcp.readPacket.short_frame.%d' % n, SOCK[1:] + [CODEC[2]],
              clause='a frame whose length field is below the size of a CPX header (%d) is consumed and rejected (struct.error); '
                     'the stream position stays on the frame boundary' % n,
              bounded='3 further bytes in the stream; all fragmentations')
    def k(c):
        c.bytes('W', n), c.bytes('rest', 3)
        c.snapshot('S', "pack('<H', %d) + W + rest" % n)
        sock, st = stream_socket(c, 'rsock', 'S', 2 + n + 3)
        rx = transport(c, sock)
        c.call((rx, 'readPacket'))
        c.let('pos', st['pos'])
        c.ensure('rejected-after-consuming-the-frame', "raised == 'struct.error' and pos == %d" % (2 + n))
    return k


_short_frame(0)
_short_frame(1)


# ------------------------------------------------------------------------- downlink end to end (sequential schedule)

@contract('C18', 'tcpdriver.downlink.end_to_end',
          SOCK + CODEC + ROUTER + [CPX + ':CPX.receivePacket', TCP + ':_CPXReceiveThread.run', STK + ':CRTPPacket.__init__'],
          clause='CRTP packets tunnelled through CPX arrive with header and payload unchanged: frames written by the peer on the TCP '
                 'stream, cut arbitrarily, pass the real transport, router loop, CPX facade and the driver\'s receive loop and end '
                 'up on the driver\'s queue as the same CRTP packets in the same order; packets of another function do not',
          bounded='one sequential schedule (receiver registers, router loop runs until the stream is exhausted, receive loop polls twice): '
                  'frames CRTP[h0], APP[], CRTP[h2, d2] - CRTP payload lengths 0 and 1; all 512 fragmentations', max_paths=2000)
def downlink_e2e(c):
    lens = (1, 0, 2)
    total = write_stream(c, lens, False)        # headers: STM32->HOST CRTP, GAP8->HOST APP, STM32->HOST CRTP
    sock, st = stream_socket(c, 'rsock', 'S', total)
    router = c.new(CPX + ':CPXRouter', transport(c, sock))
    facade = c.obj(CPX + ':CPX', _router=router)
    stop = c.raiser('StopLoop', 'schedule: receive loop pre-empted')
    budget = {'polls': 2}

    def poll(_i, args, kwargs):
        if budget['polls'] == 0:
            return stop()
        budget['polls'] -= 1
        return c.invoke((facade, 'receivePacket'), *args, **kwargs)
    thr = c.new(TCP + ':_CPXReceiveThread', c.ext('cpx', returns={'receivePacket': poll}), c.queue('inq'), c.ext('link_error'))
    # the receive loop's first poll registers the CRTP receiver at the router; done here with timeout 0 instead of 0.1 s
    c.call((facade, 'receivePacket'), c.new(CPX + ':CPXFunction', 3), timeout=0)
    c.ensure('registered-nothing-yet', "raised == 'queue.Empty'")
    c.call((router, 'run'))
    c.let('pos', st['pos'])
    c.ensure('router-reads-the-whole-stream', "raised == 'Deadlock' and pos == %d" % total)
    c.call((thr, 'run'))
    c.ensure('receive-loop-survives', "raised == 'StopLoop' and len(calls('link_error')) == 0")
    c.ensure('two-crtp-packets-queued', 'len(inq.queue) == 2')
    if c.snapshot('queued', 'len(inq.queue)') == 2:
        c.snapshot('a', 'inq.queue[0]')
        c.snapshot('b', 'inq.queue[1]')
        c.ensure('first-packet', 'a.port == pay0[0] >> 4 and a.channel == pay0[0] & 3 and a.header == pay0[0] | 0x0C and bytes(a.data) == b""')
        c.ensure('second-packet', 'b.port == pay2[0] >> 4 and b.channel == pay2[0] & 3 and b.header == pay2[0] | 0x0C and '
                                  'bytes(b.data) == bytes(pay2[1:])')


@contract('C18', 'router.sendPacket', [CPX + ':CPXRouter.sendPacket', CPX + ':CPX.sendPacket'],
          clause='the facade and the router hand a packet to the transport unchanged, exactly once (frame of the uplink clause)')
def router_send(c):
    router = c.new(CPX + ':CPXRouter', c.ext('transport'))
    facade = c.obj(CPX + ':CPX', _router=router)
    p = c.ext('packet')
    c.let('p', p)
    c.call((facade, 'sendPacket'), p)
    c.ensure('one-write-of-the-same-object', "raised is None and calls() == ('transport.writePacket',) and "
             "is_same(sent('transport.writePacket')[0][1][0], p) and len(sent('transport.writePacket')[0][1]) == 1")


@contract('C18', 'router.dispatch.burst', ROUTER,
          clause='received packets are queued per function in arrival order, however many of them are waiting: a burst that nobody reads yet '
                 'neither blocks the router nor delays or drops packets of other functions',
          bounded='burst of 100 unread packets of one function followed by one packet of another function', unroll=300)
def dispatch_burst(c):
    n = 100
    pks = [c.ext('pk%d' % i, attrs={'function': c.ext('fn%d' % i, attrs={'value': 5})}) for i in range(n)]
    other = c.ext('pk_other', attrs={'function': c.ext('fn_other', attrs={'value': 7})})
    rcv = [c.ext('rcv5', attrs={'value': 5}), c.ext('rcv7', attrs={'value': 7})]
    router = c.new(CPX + ':CPXRouter', c.ext('transport', returns={'readPacket': scripted(c, pks + [other])}))
    for j in (0, 1):
        c.call((router, 'receivePacket'), rcv[j], timeout=0)
        c.ensure('nothing-before-arrival-%d' % j, "raised == 'queue.Empty'")
    c.reset_trace()
    c.call((router, 'run'))
    c.ensure('router-never-blocks', "raised == 'StopLoop' and len(calls()) == %d" % (n + 2))
    c.call((router, 'receivePacket'), rcv[1], timeout=0)
    c.let('other', other)
    c.ensure('other-function-not-delayed', 'raised is None and is_same(result, other)')
    got = drain(c, router, rcv[0], n, 'b')
    c.let('got', got)
    c.let('pks', tuple(pks))
    c.ensure('whole-burst-in-arrival-order', 'got == %d and all(is_same(x, y) for x, y in zip((%s), pks))' % (n, ', '.join('b%d' % i for i in range(n))))


# ------------------------------------------------------------------------- UART transport (the serial driver's CPX link)
#
# Frame: 0xFF, length of the CPX wire data, the wire data, XOR of all preceding bytes.  Flow control: a frame of length 0 is a
# clear-to-send token; the writer takes a lock per frame and the reader releases it when the token arrives.  pyserial is an
# optional dependency (not installed here): the module attribute `serial` is a contract stub whose Serial() returns a port
# model.  Port model: read(n) returns exactly the next n bytes of the scripted stream (pyserial with timeout=None blocks
# until n bytes arrived); nothing left -> pseudo exception Deadlock.

UART = [TRN + ':UARTTransport.__init__', TRN + ':UARTTransport.connect', TRN + ':UARTTransport._calcXORchecksum']


def uart(c, stream='b""', total=0):
    """a UARTTransport built by its real constructor: the peer's sync token (0xFF, 0x00) is scripted in front of `stream`"""
    st = {'pos': 0}
    block = c.raiser('Deadlock', 'read on an exhausted serial stream blocks for ever')
    c.snapshot('uart_stream', "b'\\xff\\x00' + " + stream)
    c.reset_trace()

    def read(_i, args, _k):
        n = args[0]
        if type(n) is not int:
            from pyvc.core import OutOfSubset
            raise OutOfSubset('serial model: read size must be a concrete int, got %r' % (n,))
        if st['pos'] + n > total + 2:
            return block()
        lo = st['pos']
        st['pos'] = lo + n
        return c.snapshot('_chunk', 'bytes(uart_stream[%d:%d])' % (lo, lo + n))
    port = c.ext('ser', returns={'read': read})
    c.patch(TRN + ':serial', c.ext('serial', returns={'Serial': lambda *_a: port}), create=True)
    tx = c.new(TRN + ':UARTTransport', '/dev/ttyUSB0', 576000)
    c.let('tx', tx)
    c.require("calls('ser.') == ('ser.read', 'ser.read', 'ser.write') and bytes(sent('ser.write')[0][1][0]) == b'\\xff\\x00'")
    c.reset_trace()
    return tx, st


def xor_of(expr, n):
    return ' ^ '.join(['0'] + ['%s[%d]' % (expr, i) for i in range(n)])        # same order as _calcXORchecksum


def _uart_write(paylen):
    @contract('C18', 'uart.write.len%d' % paylen, UART + [TRN + ':UARTTransport.writePacket'] + CODEC[:2],
              clause='CRTP packets tunnelled through CPX arrive unchanged (serial link): writePacket puts exactly one frame on the line - '
                     '0xFF, length of the CPX wire data, the two header bytes and the payload, XOR checksum of everything before it - for every '
                     'packet whose wire data fits the 100-byte frame limit, and holds the clear-to-send lock until the peer answers',
              bounded='payload length %d (98 = the largest that fits)' % paylen, max_paths=1000)
    def k(c):
        p = packet(c, '', paylen)
        tx, _ = uart(c)
        c.call((tx, 'writePacket'), p)
        c.ensure('no-exception', 'raised is None')
        c.ensure('one-write-nothing-else', "calls() == ('ser.write',)")
        c.snapshot('frame', "bytes(sent('ser.write')[0][1][0])")
        c.ensure('frame-start-length-data', "frame[:-1] == pack('<BBBB', 0xFF, %d, (src << 3) | dst | (0x40 if last else 0), fn) + bytes(pay)" % (paylen + 2))
        c.ensure('frame-checksum', 'len(frame) == %d and frame[-1] == (%s)' % (paylen + 5, xor_of('frame', paylen + 4)))
        c.ensure('waits-for-clear-to-send', 'tx._lock.locked()')
    return k


for _n in (0, 1, 30, 98):
    _uart_write(_n)


@contract('C18', 'uart.write.limit', UART + [TRN + ':UARTTransport.writePacket'],
          clause='a packet whose wire data exceeds the 100-byte frame limit is refused with nothing put on the line (the one-byte length never wraps)',
          bounded='payload length 99 (wire data 101 bytes), one header')
def uart_write_limit(c):
    p = c.new(CPX + ':CPXPacket', function=c.new(CPX + ':CPXFunction', 5), destination=c.new(CPX + ':CPXTarget', 4),
              source=c.new(CPX + ':CPXTarget', 3), data=bytearray(99))
    tx, _ = uart(c)
    c.call((tx, 'writePacket'), p)
    c.ensure('refused-nothing-written', "raised is not None and calls() == ()")


def _uart_read(paylen):
    @contract('C18', 'uart.read.len%d' % paylen, UART + [TRN + ':UARTTransport.readPacket', CPX + ':CPXPacket.__init__', CODEC[2]],
              clause='CRTP packets tunnelled through CPX arrive unchanged (serial link): readPacket skips clear-to-send tokens (releasing the '
                     'writer), returns the packet of the next data frame with source, destination, function, flag and payload as encoded, and '
                     'answers it with a clear-to-send token',
              bounded='payload length %d; one clear-to-send token, then one data frame, then the start of another frame' % paylen, max_paths=1000)
    def k(c):
        c.int('b0', 0, 255), c.int('fn', 0, 255)
        c.require('(b0 >> 7) == 0 and (b0 & 7) in (1, 2, 3, 4) and ((b0 >> 3) & 7) in (1, 2, 3, 4) and fn in %r' % (FUNCTIONS,))
        c.bytes('pay', paylen)
        c.snapshot('body', "pack('<BBBB', 0xFF, %d, b0, fn) + pay" % (paylen + 2))
        c.snapshot('crc', xor_of('body', paylen + 4))
        tx, st = uart(c, "b'\\xff\\x00' + body + bytes([crc]) + b'\\xff\\x05'", 2 + paylen + 5 + 2)
        held = c.choice('writer_waiting', [True])
        c.invoke((c.getfield(tx, '_lock'), 'acquire'))         # a frame was written before: the writer waits for the token
        c.call((tx, 'readPacket'))
        c.ensure('no-exception', 'raised is None')
        c.let('consumed', st['pos'])
        c.ensure('consumed-exactly-token-and-frame', 'consumed == %d' % (2 + 2 + paylen + 5))
        c.ensure('token-released-the-writer', 'not tx._lock.locked()')
        c.ensure('answered-with-clear-to-send', "calls('ser.write') == ('ser.write',) and bytes(sent('ser.write')[0][1][0]) == b'\\xff\\x00'")
        c.snapshot('q', 'result')
        c.ensure('fields', "typename(q) == 'CPXPacket' and q.destination.value == (b0 & 7) and q.source.value == ((b0 >> 3) & 7) and "
                           "q.lastPacket == ((b0 & 0x40) != 0) and q.function.value == fn and q.version == 0")
        c.ensure('payload-and-length', 'bytes(q.data) == pay and q.length == %d' % paylen)
    return k


for _n in (0, 1, 30, 98):
    _uart_read(_n)


def _uart_roundtrip(paylen):
    @contract('C18', 'uart.roundtrip.len%d' % paylen, UART + [TRN + ':UARTTransport.writePacket', TRN + ':UARTTransport.readPacket'] + CODEC,
              clause='a CPX packet survives the serial link: what writePacket puts on the line is read back by readPacket of the peer as a '
                     'packet with the same source, destination, function, last-packet flag and payload',
              bounded='payload length %d' % paylen, max_paths=1000)
    def k(c):
        p = packet(c, '', paylen)
        tx, _ = uart(c)
        c.call((tx, 'writePacket'), p)
        c.require("raised is None and len(sent('ser.write')) == 1")
        c.snapshot('line', "bytes(sent('ser.write')[0][1][0])")
        rx, st = uart(c, 'line', paylen + 5)
        c.call((rx, 'readPacket'))
        c.ensure('no-exception', 'raised is None')
        c.snapshot('q', 'result')
        c.ensure('five-fields', "is_same(q.source, p.source) and is_same(q.destination, p.destination) and "
                                "is_same(q.function, p.function) and q.lastPacket == last and q.version == 0")
        c.ensure('payload-and-length', 'bytes(q.data) == bytes(pay) and q.length == %d' % paylen)
    return k


for _n in (0, 30, 98):
    _uart_roundtrip(_n)
