"""C18 - CPX framing and routing preserve packets under any stream fragmentation.  (work in progress)"""
from pyvc.api import contract

CPX = 'cflib.cpx'
TRN = 'cflib.cpx.transports'
TCP = 'cflib.crtp.tcpdriver'
SER = 'cflib.crtp.serialdriver'
STK = 'cflib.crtp.crtpstack'

TARGETS = (1, 2, 3, 4)
FUNCTIONS = (1, 2, 3, 4, 5, 14, 15)

CODEC = [CPX + ':CPXPacket.__init__', CPX + ':CPXPacket._get_wire_data', CPX + ':CPXPacket._set_wire_data']


def packet(c, tag, paylen, kind='bytearray'):
    """a real CPXPacket with symbolic source / destination / function / last-packet flag and payload"""
    src = c.int('src' + tag, 1, 4)
    dst = c.int('dst' + tag, 1, 4)
    fn = c.int('fn' + tag, 1, 15)
    c.require('fn%s in %r' % (tag, FUNCTIONS))
    c.bool('last' + tag)
    payload = c.bytearray('pay' + tag, paylen) if kind == 'bytearray' else c.ints('pay' + tag, paylen, 0, 255, kind=kind)
    p = c.new(CPX + ':CPXPacket', function=c.new(CPX + ':CPXFunction', fn), destination=c.new(CPX + ':CPXTarget', dst),
              source=c.new(CPX + ':CPXTarget', src), data=payload)
    c.let('p' + tag, p)
    c.snapshot('_', 'setattr(p%s, "lastPacket", last%s)' % (tag, tag))
    return p


def _roundtrip(paylen):
    @contract('C18', 'codec.roundtrip.len%d' % paylen, CODEC,
              clause='a CPX packet survives encoding and decoding with its source, destination, function, last-packet flag and '
                     'payload intact for every combination (4 x 4 targets, 7 functions, both flag values)',
              bounded='payload length %d' % paylen, max_paths=1000)
    def k(c):
        p = packet(c, '', paylen)
        c.call((p, '_get_wire_data'))
        c.ensure('encode-no-exception', 'raised is None')
        c.snapshot('wire', 'result')
        c.ensure('wire-layout', "bytes(wire) == pack('<BB', (src << 3) | dst | (0x40 if last else 0), fn) + bytes(pay)")
        q = c.new(CPX + ':CPXPacket')
        c.let('q', q)
        c.call((q, '_set_wire_data'), c.get('wire'))
        c.ensure('decode-no-exception', 'raised is None')
        c.ensure('five-fields', "is_same(q.source, p.source) and is_same(q.destination, p.destination) and "
                                "is_same(q.function, p.function) and q.lastPacket == last and q.version == 0")
        c.ensure('field-values', 'q.source.value == src and q.destination.value == dst and q.function.value == fn')
        c.ensure('payload-and-length', 'bytes(q.data) == bytes(pay) and q.length == %d' % paylen)
    return k


for _n in (0, 1, 30):
    _roundtrip(_n)


def _decode(paylen):
    @contract('C18', 'codec.decode.len%d' % paylen, [CPX + ':CPXPacket.__init__', CPX + ':CPXPacket._set_wire_data'],
              clause='packets of an unsupported version are rejected (RuntimeError for every header whose two version bits are '
                     'not 0); every other header with targets and function inside the enumerations decodes to exactly the fields '
                     'its bits encode; for all 65,536 header values',
              bounded='payload length %d' % paylen, max_paths=1000)
    def k(c):
        c.int('b0', 0, 255), c.int('b1', 0, 255)
        pay = c.bytes('pay', paylen)
        c.snapshot('wire', 'bytearray(pack("<BB", b0, b1) + pay)')
        q = c.new(CPX + ':CPXPacket')
        c.let('q', q)
        c.call((q, '_set_wire_data'), c.get('wire'))
        c.snapshot('ver', 'b1 >> 6')
        c.snapshot('s', '(b0 >> 3) & 7')
        c.snapshot('d', 'b0 & 7')
        c.snapshot('f', 'b1 & 0x3F')
        c.snapshot('valid', 's in %r and d in %r and f in %r' % (TARGETS, TARGETS, FUNCTIONS))
        c.ensure('unsupported-version-rejected', "implies(ver != 0, raised == 'RuntimeError')")
        c.ensure('accepted-iff-version-0-and-enumerated', 'iff(raised is None, ver == 0 and valid)')
        c.ensure('only-declared-errors', "raised in (None, 'RuntimeError', 'ValueError')")
        if c.get('raised') is None:
            c.ensure('fields', 'q.source.value == s and q.destination.value == d and q.function.value == f and '
                               'q.lastPacket == ((b0 & 0x40) != 0) and q.version == 0')
            c.ensure('field-types', "typename(q.source) == 'CPXTarget' and typename(q.destination) == 'CPXTarget' and "
                                    "typename(q.function) == 'CPXFunction' and typename(q.lastPacket) == 'bool'")
            c.ensure('payload-and-length', 'bytes(q.data) == pay and q.length == %d' % paylen)
    return k


for _n in (0, 2):
    _decode(_n)
