"""C18 - CPX framing and routing preserve packets under any stream fragmentation.

Wire formats (specification, stated independently of the library code; assumptions about the peer):
 * CPX header, two bytes (struct CPXRoutingPacked_t of the AI-deck / Crazyflie firmware, not in the sandbox - trusted):
   byte 0 = destination (bits 0-2) | source (bits 3-5) | lastPacket (bit 6) | reserved (bit 7),
   byte 1 = function (bits 0-5) | version (bits 6-7); the only supported version is 0;
 * CPX over TCP: every packet is preceded by a 16-bit little-endian count of the bytes that follow (header + payload);
   the library uses the unprefixed struct code 'H' -> little-endian host assumed (reported by the engine);
 * CRTP over CPX: payload = CRTP header byte followed by the CRTP payload, HOST <-> STM32, function CRTP.

Environment model (trusted, in this file): `stream_socket` / `free_stream_socket` - a connected, blocking TCP socket
whose recv(n) returns a NON-EMPTY prefix of the unread stream of length <= n chosen by the environment; with nothing left
it blocks for ever (pseudo exception Deadlock).  A peer that closes the connection (recv returning b'') is outside the
model (and outside the property: the stream carries the packets).  queue.Queue is FIFO (engine model / real queue natively).

Contract families -> clauses of DESIGN.md section C18:
 1. codec.roundtrip.*, codec.decode.*      header round trip for all 4 x 4 x 7 x 2 combinations; all 65,536 header values decoded,
                                           version != 0 -> RuntimeError (payload lengths enumerated: 0, 1, 30 / 0, 2)
 2. tcp.write.*                            frame layout of writePacket, 16-bit limit (65533 ok, 65534.. refused, never wraps)
    tcp.readData.inductive                 _readData for EVERY size and EVERY fragmentation (loop invariant + variant)
    tcp.readPacket.inductive               readPacket at any frame boundary, EVERY payload length 0..65533 and fragmentation, modular
                                           on the contract of _readData (induction step of "k frames are read back as k packets")
    tcp.readPacket.short_frame.*           length field 0 / 1 (no room for a CPX header)
    tcp.readData.<n>_of_<m>, tcp.reassembly.*   the same statements on short streams with the REAL loops and no summaries:
                                           writePacket^k -> every fragmentation -> readPacket^k (exhaustive, bounded)
 3. router.dispatch.*, router.sendPacket   one queue per function value, arrival order, identical objects, only to receivers of
                                           that function (function values symbolic, 0..63); unregistered function -> dropped
    pipeline.*                             stream -> real transport -> real router loop -> receivers, incl. an unsupported-version
                                           frame in the middle of the stream (rejected, framing kept)
 4. TcpDriver.send_packet, SerialDriver.send_packet     uplink tunnel, all 256 headers x payload lengths 0..30 (complete)
    tcpdriver.receive_thread, serialdriver.receive_thread (+ .no_crtp_header)   downlink tunnel, same quantification
    tcpdriver.downlink.end_to_end          stream -> ... -> driver queue on one sequential schedule

Extension round (second half of the file):
 5. codec.roundtrip.anylen, tcp.write.anylen    encoding / framing for EVERY payload length (payload = window of symbolic length into an
                                           SMT array, `c.view`): together with tcp.readPacket.inductive the round trip writePacket ->
                                           any fragmentation -> readPacket holds for every length 0..65533, not only the enumerated ones
 6. tcp.session.reconnect, tcp.session.reconnect_after_interrupted_read     transport built by its REAL constructor on a stubbed
                                           `socket` module: one connection to (host, port); disconnect + connect -> only the new
                                           connection is used, nothing of the old stream (unread bytes, a frame cut short) leaks
 7. explicit schedules (the other thread's action runs inside a stub call of the thread under analysis):
    router.makeTransaction.*               answer dispatched while the client is inside transport.writePacket / before the send
    router.dispatch.interleaved, .late_registration     receiver drains / registers between two arrivals
    cpx.close, cpx.close.during_read.*     close() between frames / during any recv of any fragmentation
    uart.write.second_frame_waits_for_clear_to_send     writer waits on the clear-to-send lock while the reader thread runs
    <driver>.receive_thread.stop           stop() while the receive thread is inside cpx.receivePacket
 8. TcpDriver.receive_packet, SerialDriver.receive_packet, <driver>.receive_thread.sequence, tcpdriver.uplink.sequence
                                           last hop of the downlink, sequences with idle polls / errors in between, uplink sequences
 9. tcpdriver.session, serialdriver.session     whole sessions of the REAL drivers (connect - send - receive - close [- connect]) on a
                                           stubbed socket / pyserial: URI -> connection, threads started once, bridge set-up frames,
                                           clear-to-send flow control, close stops everything, no state of an old session in a new one
 thorough tier only: larger bounds of 2./3. (tcp.readData.8_of_10/.11_of_11, tcp.reassembly.2.allheaders/.3.allheaders/.1_2_1/.4_4/
    .2_2_2/.10/.0_0_0_0_0, router.dispatch.5pk/.6pk/.burst.1000/.interleaved.6pk/.late_registration.8pk, pipeline.2_1_2/.1_1_1_1/
    .0_0_0_0_0/.1_0_1.bad_version_at_2/_3/.2_2.bad_version_at_1, tcpdriver.downlink.end_to_end.4_frames, uart.*.len2/10/50/64/96/97) and the two contracts that are RED on the unchanged tree (candidate
    findings, reported to the maintainer): router.makeTransaction.first_use_of_function, cpx.close.during_read.1_3

NOT covered (and why):
 * real pre-emption between two statements of one function: the router thread, the receive threads and the client threads are run on
   sequential schedules in which a thread switch happens only inside a stub call (transport / socket / port / facade / lock wait); e.g.
   a receiver registering between the `not in self._rxQueues` test and the `put` in CPXRouter.run cannot be expressed; concurrent
   receivePacket / run on one queue rely on queue.Queue being thread safe;
 * UARTTransport: frame layout, 100-byte limit, clear-to-send tokens and the write -> read round trip are covered by uart.* for payload
   lengths 0, 1, 30, 98 (thorough: + 2, 10, 50, 64, 96, 97) on a port model that returns exactly the requested bytes - `_calcXORchecksum` iterates
   over the frame (`for i in data`), for which the engine has no loop invariants, so no every-length contract; NOT covered: checksum
   errors (the code only prints and still delivers the packet), noise before the sync token in connect() (a noise byte 0xFF directly in
   front of the token makes connect() miss it - outside the clauses); an oversized packet leaves the clear-to-send lock held
   (uart.write.limit states the refusal only; not reachable through the serial driver, whose packets are at most 34 bytes);
 * the codec has no every-length contract for lengths above 4096 that is REPLAYABLE (the native witness of a `c.view` is cut at 4096
   elements): a violation that needs a longer payload shows as ENGINE-MISMATCH (exit 3, never green) instead of VIOLATION;
 * `CPXPacket.length` is fixed by the constructor and the default `data=bytearray()` is one shared object: a caller that replaces or
   extends `data` afterwards gets a wrong frame length from writePacket - not reachable through the drivers under contract (they build
   each packet in one go: tcpdriver.uplink.sequence), not part of the clauses;
 * router dispatch is bounded in the number of packets (3, 5, bursts of 100 / 1000): the queues of the router are a dict of
   queue.Queue objects, for which the engine has no symbolic-size model, so there is no inductive contract of CPXRouter.run;
 * deliberately without contract: CPXPacket.__str__ (formatting), CPXTransport.* (abstract: every method raises NotImplementedError),
   CRTPTransport.* (empty placeholders), the dead nested `__del__` in SocketTransport.readPacket, TcpDriver.scan_interface /
   SerialDriver.scan_interface / get_status (hardware scan, constants); URI validation of connect() (wrong scheme) belongs to C11.
"""
from pyvc.api import contract

CPX = 'cflib.cpx'
TRN = 'cflib.cpx.transports'
TCP = 'cflib.crtp.tcpdriver'
SER = 'cflib.crtp.serialdriver'
STK = 'cflib.crtp.crtpstack'

TARGETS = (1, 2, 3, 4)
FUNCTIONS = (1, 2, 3, 4, 5, 14, 15)

CODEC = [CPX + ':CPXPacket.__init__', CPX + ':CPXPacket._get_wire_data', CPX + ':CPXPacket._set_wire_data']


def packet(c, tag, paylen, kind='bytearray'):
    """a real CPXPacket with symbolic source / destination / function / last-packet flag and payload"""
    src = c.int('src' + tag, 1, 4)
    dst = c.int('dst' + tag, 1, 4)
    fn = c.int('fn' + tag, 1, 15)
    c.require('fn%s in %r' % (tag, FUNCTIONS))
    c.bool('last' + tag)
    payload = c.bytearray('pay' + tag, paylen) if kind == 'bytearray' else c.ints('pay' + tag, paylen, 0, 255, kind=kind)
    p = c.new(CPX + ':CPXPacket', function=c.new(CPX + ':CPXFunction', fn), destination=c.new(CPX + ':CPXTarget', dst),
              source=c.new(CPX + ':CPXTarget', src), data=payload)
    c.let('p' + tag, p)
    c.snapshot('_', 'setattr(p%s, "lastPacket", last%s)' % (tag, tag))
    return p


def _roundtrip(paylen):
    @contract('C18', 'codec.roundtrip.len%d' % paylen, CODEC,
              clause='a CPX packet survives encoding and decoding with its source, destination, function, last-packet flag and '
                     'payload intact for every combination (4 x 4 targets, 7 functions, both flag values)',
              bounded='payload length %d' % paylen, max_paths=1000)
    def k(c):
        p = packet(c, '', paylen)
        c.call((p, '_get_wire_data'))
        c.ensure('encode-no-exception', 'raised is None')
        c.snapshot('wire', 'result')
        c.ensure('wire-layout', "bytes(wire) == pack('<BB', (src << 3) | dst | (0x40 if last else 0), fn) + bytes(pay)")
        q = c.new(CPX + ':CPXPacket')
        c.let('q', q)
        c.call((q, '_set_wire_data'), c.get('wire'))
        c.ensure('decode-no-exception', 'raised is None')
        c.ensure('five-fields', "is_same(q.source, p.source) and is_same(q.destination, p.destination) and "
                                "is_same(q.function, p.function) and q.lastPacket == last and q.version == 0")
        c.ensure('field-values', 'q.source.value == src and q.destination.value == dst and q.function.value == fn')
        c.ensure('payload-and-length', 'bytes(q.data) == bytes(pay) and q.length == %d' % paylen)
    return k


for _n in (0, 1, 30):
    _roundtrip(_n)


def _decode(paylen):
    @contract('C18', 'codec.decode.len%d' % paylen, [CPX + ':CPXPacket.__init__', CPX + ':CPXPacket._set_wire_data'],
              clause='packets of an unsupported version are rejected (RuntimeError for every header whose two version bits are '
                     'not 0); every other header with targets and function inside the enumerations decodes to exactly the fields '
                     'its bits encode; for all 65,536 header values',
              bounded='payload length %d' % paylen, max_paths=1000)
    def k(c):
        c.int('b0', 0, 255), c.int('b1', 0, 255)
        pay = c.bytes('pay', paylen)
        c.snapshot('wire', 'bytearray(pack("<BB", b0, b1) + pay)')
        q = c.new(CPX + ':CPXPacket')
        c.let('q', q)
        c.call((q, '_set_wire_data'), c.get('wire'))
        c.snapshot('ver', 'b1 >> 6')
        c.snapshot('s', '(b0 >> 3) & 7')
        c.snapshot('d', 'b0 & 7')
        c.snapshot('f', 'b1 & 0x3F')
        c.snapshot('valid', 's in %r and d in %r and f in %r' % (TARGETS, TARGETS, FUNCTIONS))
        c.ensure('unsupported-version-rejected', "implies(ver != 0, raised == 'RuntimeError')")
        c.ensure('accepted-iff-version-0-and-enumerated', 'iff(raised is None, ver == 0 and valid)')
        c.ensure('only-declared-errors', "raised in (None, 'RuntimeError', 'ValueError')")
        if c.get('raised') is None:
            c.ensure('fields', 'q.source.value == s and q.destination.value == d and q.function.value == f and '
                               'q.lastPacket == ((b0 & 0x40) != 0) and q.version == 0')
            c.ensure('field-types', "typename(q.source) == 'CPXTarget' and typename(q.destination) == 'CPXTarget' and "
                                    "typename(q.function) == 'CPXFunction' and typename(q.lastPacket) == 'bool'")
            c.ensure('payload-and-length', 'bytes(q.data) == pay and q.length == %d' % paylen)
    return k


for _n in (0, 2):
    _decode(_n)


# ------------------------------------------------------------------------- TCP transport: framing

SOCK = [TRN + ':SocketTransport.writePacket', TRN + ':SocketTransport._readData', TRN + ':SocketTransport.readPacket']


def transport(c, sock):
    """a SocketTransport on an already connected socket (the constructor opens a real TCP connection)"""
    return c.obj(TRN + ':SocketTransport', _host='peer', _port=5000, _socket=sock)


def stream_socket(c, name, stream, total, greedy=False):
    """Sequential model of the receiving side of a connected TCP socket carrying the byte string `stream`
    (spec name, `total` bytes): recv(n) returns a NON-EMPTY PREFIX of the unread bytes of length <= n; the length is
    chosen by the environment (one `choice` per call, so every way of cutting the stream is explored).  With
    nothing left to read a blocking socket blocks for ever: pseudo exception Deadlock."""
    st = {'pos': 0, 'calls': 0, 'log': []}
    block = c.raiser('Deadlock', 'recv on an exhausted stream blocks for ever')

    def recv(_i, args, kwargs):
        n = args[0]
        if type(n) is not int:         # symbolic back end only: a request size that depends on stream content
            from pyvc.core import OutOfSubset
            raise OutOfSubset('socket model: recv size must be a concrete int, got %r' % (n,))
        if n <= 0:
            return c.snapshot('_chunk', '%s[0:0]' % stream)
        avail = total - st['pos']
        if avail == 0:
            return block()
        # greedy: one schedule only (every recv returns as much as it may) - for contracts whose subject is not the fragmentation
        k = min(n, avail) if greedy else c.choice('%s_cut%d' % (name, st['calls']), list(range(1, min(n, avail) + 1)))
        st['calls'] += 1
        lo = st['pos']
        st['pos'] = lo + k
        st['log'].append((n, k))
        return c.snapshot('_chunk', '%s[%d:%d]' % (stream, lo, lo + k))
    return c.ext(name, returns={'recv': recv}), st


def _write(paylen):
    @contract('C18', 'tcp.write.len%d' % paylen, [TRN + ':SocketTransport.writePacket'] + CODEC[:2],
              clause='writePacket puts exactly one frame on the stream: 16-bit little-endian length of the CPX wire data, then '
                     'the two header bytes and the payload; for every source/destination/function/flag combination',
              bounded='payload length %d' % paylen, max_paths=1000)
    def k(c):
        p = packet(c, '', paylen)
        tx = transport(c, c.ext('sock'))
        c.call((tx, 'writePacket'), p)
        c.ensure('no-exception', 'raised is None')
        c.ensure('one-send-nothing-else', "calls() == ('sock.send',)")
        c.ensure('frame', "bytes(sent('sock.send')[0][1][0]) == pack('<HBB', %d, (src << 3) | dst | (0x40 if last else 0), fn) + bytes(pay)"
                 % (paylen + 2))
    return k


for _n in (0, 1, 30):
    _write(_n)


@contract('C18', 'tcp.write.limit', [TRN + ':SocketTransport.writePacket'],
          clause='payload lengths up to the maximum the 16-bit frame length can express (65533) are framed with the exact length; '
                 'a longer packet is refused (struct.error) with nothing put on the stream - the length never wraps around',
          bounded='payload lengths 65533 (accepted), 65534, 65535, 65536, 70000 and 131070 (length + 2 == 0 modulo 2**16), one header')
def write_limit(c):
    n = c.choice('n', [65533, 65534, 65535, 65536, 70000, 131070])
    p = c.new(CPX + ':CPXPacket', function=c.new(CPX + ':CPXFunction', 5), destination=c.new(CPX + ':CPXTarget', 4),
              source=c.new(CPX + ':CPXTarget', 3), data=bytearray(n))
    tx = transport(c, c.ext('sock'))
    c.call((tx, 'writePacket'), p)
    if n == 65533:
        c.ensure('sent-with-exact-length', "raised is None and calls() == ('sock.send',) and "
                 "bytes(sent('sock.send')[0][1][0])[0:4] == pack('<HBB', 65535, 0x1C, 5) and len(sent('sock.send')[0][1][0]) == 65537")
    else:
        c.ensure('refused-nothing-sent', "raised == 'struct.error' and calls() == ()")


def _read_data(size, extra, thorough=False):
    @contract('C18', 'tcp.readData.%d_of_%d' % (size, size + extra), [TRN + ':SocketTransport._readData'],
              clause='_readData(size) returns exactly the next `size` bytes of the stream and consumes exactly those, however the '
                     'stream is cut into receive chunks',
              bounded='size %d, %d further bytes in the stream; all %d fragmentations' % (size, extra, 2 ** max(size - 1, 0)),
              max_paths=6000, thorough_only=thorough)
    def k(c):
        c.bytes('S', size + extra)
        sock, st = stream_socket(c, 'sock', 'S', size + extra)
        rx = transport(c, sock)
        c.call((rx, '_readData'), size)
        c.let('pos', st['pos'])
        c.let('log', tuple(st['log']))
        c.ensure('no-exception', 'raised is None')
        c.ensure('exact-prefix', "typename(result) == 'bytearray' and bytes(result) == S[0:%d]" % size)
        c.ensure('consumed-exactly', 'pos == %d' % size)
        c.ensure('never-asks-for-more-than-missing', 'all(log[i][0] == %d - sum(e[1] for e in log[:i]) for i in range(len(log)))' % size)
    return k


for _a in ((0, 1), (1, 0), (2, 3), (5, 2)):
    _read_data(*_a)
_read_data(8, 2, thorough=True)
_read_data(11, 0, thorough=True)


def fixed_packet(c, tag, fields, paylen):
    """a real CPXPacket with the given (source, destination, function, last) and a symbolic payload"""
    src, dst, fn, last = fields
    payload = c.bytearray('pay' + tag, paylen)
    p = c.new(CPX + ':CPXPacket', function=c.new(CPX + ':CPXFunction', fn), destination=c.new(CPX + ':CPXTarget', dst),
              source=c.new(CPX + ':CPXTarget', src), data=payload)
    c.let('p' + tag, p)
    c.let('last' + tag, last)
    c.snapshot('_', 'setattr(p%s, "lastPacket", last%s)' % (tag, tag))
    return p


HEADERS = ((1, 3, 3, True), (4, 3, 5, False), (1, 3, 3, False), (2, 3, 2, True), (3, 1, 15, False))


def write_stream(c, lens, symbolic_fields):
    """the byte stream produced by the REAL writePacket for packets with the given payload lengths -> spec name S"""
    tx = transport(c, c.ext('wsock'))
    for i, n in enumerate(lens):
        p = packet(c, str(i), n) if symbolic_fields else fixed_packet(c, str(i), HEADERS[i % len(HEADERS)], n)
        c.call((tx, 'writePacket'), p)
        c.ensure('write%d-no-exception' % i, 'raised is None')
    c.snapshot('S', ' + '.join("bytes(sent('wsock.send')[%d][1][0])" % i for i in range(len(lens))))
    c.ensure('stream-is-concatenation-of-frames', "len(sent('wsock.send')) == %d and len(S) == %d" % (len(lens), sum(n + 4 for n in lens)))
    return sum(n + 4 for n in lens)


def same_packet(i):
    return ("is_same(r{0}.source, p{0}.source) and is_same(r{0}.destination, p{0}.destination) and is_same(r{0}.function, p{0}.function) "
            "and r{0}.lastPacket == last{0} and bytes(r{0}.data) == bytes(pay{0}) and r{0}.length == len(pay{0})").format(i)


def _reassembly(lens, symbolic_fields=False, thorough=False):
    nfrag = 1
    for n in lens:
        nfrag *= 2 * 2 ** (n + 1)
    name = 'tcp.reassembly.' + '_'.join(str(n) for n in lens) + ('.allheaders' if symbolic_fields else '')

    @contract('C18', name, SOCK + CODEC,
              clause='a TCP byte stream carrying a sequence of packets (written by writePacket) is re-assembled by readPacket into '
                     'exactly that sequence - same five fields, same payload, each read consuming exactly its frame - however the '
                     'stream is cut into receive chunks',
              bounded='%d packet(s) with payload lengths %s, %s; all %d fragmentations of the %d-byte stream (exhaustive)' % (
                  len(lens), list(lens), 'all header combinations' if symbolic_fields else 'headers %r' % (HEADERS[:len(lens)],),
                  nfrag, sum(n + 4 for n in lens)),
              max_paths=8000, thorough_only=thorough)
    def k(c):
        total = write_stream(c, lens, symbolic_fields)
        sock, st = stream_socket(c, 'rsock', 'S', total)
        rx = transport(c, sock)
        end = 0
        for i, n in enumerate(lens):
            end += n + 4
            c.call((rx, 'readPacket'))
            c.let('pos', st['pos'])
            c.ensure('read%d-no-exception' % i, 'raised is None')
            if c.get('raised') is not None:
                return
            c.snapshot('r%d' % i, 'result')
            c.ensure('read%d-same-packet' % i, same_packet(i))
            c.ensure('read%d-consumes-exactly-its-frame' % i, 'pos == %d' % end)
    return k


_reassembly((0,), True)
_reassembly((1,), True)
_reassembly((0, 1, 2))
_reassembly((2, 0, 1))
_reassembly((3, 3))
_reassembly((6,))
_reassembly((2,), True, thorough=True)
_reassembly((1, 2, 1), thorough=True)
_reassembly((4, 4), thorough=True)
_reassembly((0, 0, 0, 0, 0), thorough=True)
_reassembly((3,), True, thorough=True)
_reassembly((2, 2, 2), thorough=True)
_reassembly((10,), thorough=True)


# ------------------------------------------------------------------------- router

ROUTER = [CPX + ':CPXRouter.__init__', CPX + ':CPXRouter.run', CPX + ':CPXRouter.receivePacket']


def scripted(c, items, stop='StopLoop'):
    """callable returning the items one by one; afterwards the endless service loop is left by a pseudo exception
    (a BaseException, so that `except Exception` in the loop cannot swallow it)"""
    todo = list(items)
    leave = c.raiser(stop, 'script exhausted')

    def nxt(*_a):
        if todo:
            return todo.pop(0)
        return leave()
    return nxt


def drain(c, router, fn, upto, tag):
    """receivePacket(fn) until the queue is empty -> number of packets handed out (spec names <tag>0, <tag>1, ...)"""
    got = 0
    while True:
        c.call((router, 'receivePacket'), fn, timeout=0)
        if c.get('raised') is not None or got > upto:
            return got
        c.snapshot('%s%d' % (tag, got), 'result')
        got += 1


def _dispatch(npk, thorough=False):
    @contract('C18', 'router.dispatch.%dpk' % npk, ROUTER,
              clause='received packets are queued per function in arrival order and handed only to receivers of that function: a '
                     'receiver of function r gets exactly the packets whose function value is r, the identical objects, in arrival '
                     'order; for all function values 0..63 of packets and receivers (also values outside the enumeration); a packet '
                     'arriving while no receiver has registered for its function is dropped (behaviour of the code, stated)',
              bounded='%d packets, two registered receivers with different functions and one late receiver' % npk, max_paths=3000, thorough_only=thorough)
    def k(c):
        fs = [c.int('f%d' % i, 0, 63) for i in range(npk)]
        pks = [c.ext('pk%d' % i, attrs={'function': c.ext('fn%d' % i, attrs={'value': fs[i]})}) for i in range(npk)]
        c.int('r1', 0, 63), c.int('r2', 0, 63), c.int('r3', 0, 63)
        c.require('r1 != r2 and r3 != r1 and r3 != r2')
        rcv = [c.ext('rcv%d' % j, attrs={'value': c.get('r%d' % j)}) for j in (1, 2, 3)]
        router = c.new(CPX + ':CPXRouter', c.ext('transport', returns={'readPacket': scripted(c, pks)}))
        for j in (0, 1):        # a receiver registers by waiting for a packet of its function
            c.call((router, 'receivePacket'), rcv[j], timeout=0)
            c.ensure('nothing-before-arrival-%d' % j, "raised == 'queue.Empty'")
        c.reset_trace()
        c.call((router, 'run'))
        c.ensure('loop-runs-through-the-script', "raised == 'StopLoop' and calls() == ('transport.readPacket',) * %d" % (npk + 1))
        for j, r in ((0, 'r1'), (1, 'r2')):
            tag = 'g%d_' % j
            got = drain(c, router, rcv[j], npk, tag)
            c.let('got', got)
            c.ensure('%s-ends-with-empty-queue' % r, "raised == 'queue.Empty'")
            c.ensure('%s-gets-every-packet-of-its-function' % r, 'got == ' + ' + '.join('(f%d == %s)' % (i, r) for i in range(npk)))
            for m in range(got):
                c.ensure('%s-packet%d-has-its-function' % (r, m), '%s%d.function.value == %s' % (tag, m, r))
                for i in range(npk):
                    before = ' + '.join(['0'] + ['(f%d == %s)' % (e, r) for e in range(i)])
                    c.ensure('%s-arrival-order-%d-%d' % (r, m, i),
                             'implies(f%d == %s and (%s) == %d, is_same(%s%d, pk%d))' % (i, r, before, m, tag, m, i))
        got = drain(c, router, rcv[2], npk, 'late')
        c.let('got', got)
        c.ensure('late-receiver-gets-nothing (packets without a registered receiver were dropped)', "got == 0 and raised == 'queue.Empty'")
    return k


_dispatch(1)
_dispatch(3)
_dispatch(5, thorough=True)
_dispatch(6, thorough=True)


# ------------------------------------------------------------------------- CRTP tunnelled through CPX

def crtp_packet(c):
    """a real CRTPPacket with any header byte and any payload of 0..30 bytes (31 paths: complete for the CRTP payload sizes)"""
    n = c.choice('n', list(range(31)))
    c.int('h', 0, 255)
    data = c.bytes('data', n)
    pk = c.new(STK + ':CRTPPacket', c.get('h'), data)
    c.let('pk', pk)
    return pk, n


UPLINK = ('uplink: a CRTP packet handed to the driver leaves as exactly one CPX packet from HOST to STM32, function CRTP, whose '
          'payload is the CRTP header byte followed by the unchanged CRTP payload; for all 256 header bytes and all payload '
          'lengths 0..30')


@contract('C18', 'TcpDriver.send_packet', [TCP + ':TcpDriver.__init__', TCP + ':TcpDriver.send_packet', CPX + ':CPX.sendPacket', CPX + ':CPXRouter.sendPacket',
                                           TRN + ':SocketTransport.writePacket'] + CODEC,
          clause=UPLINK + '; through the real CPX facade, router and TCP transport: exactly one frame on the socket, nothing else')
def tcp_uplink(c):
    pk, n = crtp_packet(c)
    router = c.new(CPX + ':CPXRouter', transport(c, c.ext('sock')))
    drv = c.new(TCP + ':TcpDriver')
    c.let('drv', drv)
    c.let('facade', c.obj(CPX + ':CPX', _router=router))        # CPX.__init__ would start the router thread
    c.snapshot('_', 'setattr(drv, "cpx", facade)')
    c.reset_trace()
    c.call((drv, 'send_packet'), pk)
    c.ensure('no-exception', 'raised is None')
    c.ensure('one-frame-nothing-else', "calls() == ('sock.send',)")
    c.snapshot('frame', "bytes(sent('sock.send')[0][1][0])")
    c.ensure('frame-on-the-stream', "frame == pack('<HBBB', %d, (3 << 3) | 1, 3, h | 0x0C) + data" % (n + 3))
    c.ensure('crtp-header-is-the-packets', 'frame[4] == pk.header and pk.header == pk.get_header()')
    q = c.new(CPX + ':CPXPacket')
    c.let('q', q)
    c.call((q, '_set_wire_data'), c.snapshot('wire', 'bytearray(frame[2:])'))
    c.ensure('peer-decodes-route-and-payload', "raised is None and q.source.value == 3 and q.destination.value == 1 and "
             "q.function.value == 3 and bytes(q.data) == pack('<B', pk.header) + data")


@contract('C18', 'SerialDriver.send_packet', [SER + ':SerialDriver.__init__', SER + ':SerialDriver.send_packet'] + CODEC[:2], clause=UPLINK)
def serial_uplink(c):
    pk, n = crtp_packet(c)
    drv = c.new(SER + ':SerialDriver')
    c.let('drv', drv)
    c.let('facade', c.ext('cpx'))
    c.snapshot('_', 'setattr(drv, "cpx", facade)')
    c.reset_trace()
    c.call((drv, 'send_packet'), pk)
    c.ensure('no-exception', 'raised is None')
    c.ensure('one-cpx-packet-nothing-else', "calls() == ('cpx.sendPacket',)")
    c.snapshot('q', "sent('cpx.sendPacket')[0][1][0]")
    c.ensure('route', "typename(q) == 'CPXPacket' and q.source.value == 3 and q.destination.value == 1 and q.function.value == 3")
    c.ensure('payload-is-header-then-data', 'bytes(q.data) == pack("<B", h | 0x0C) + data and q.length == %d' % (n + 1))
    c.ensure('crtp-header-is-the-packets', 'q.data[0] == pk.header and pk.header == pk.get_header()')
    c.call((c.get('q'), '_get_wire_data'))
    c.ensure('wire-data', "raised is None and bytes(result) == pack('<BBB', (3 << 3) | 1, 3, h | 0x0C) + data")


def _downlink(mod, poll_timeout):
    short = mod.rsplit('.', 1)[1]

    @contract('C18', '%s.receive_thread' % short, [mod + ':_CPXReceiveThread.__init__', mod + ':_CPXReceiveThread.run', CODEC[2], STK + ':CRTPPacket.__init__'],
              clause='downlink: every CPX packet of function CRTP (decoded from its wire bytes) whose payload is a CRTP header byte '
                     'followed by 0..30 payload bytes is put on the driver\'s queue as exactly one CRTP packet with that port, '
                     'channel and header (the two link bits 0x0C are always set by CRTPPacket) and the unchanged payload; the thread '
                     'asks the router for function CRTP only; the link-error callback is not used; for all 256 header bytes')
    def k(c):
        n = c.choice('n', list(range(31)))
        c.int('h', 0, 255)
        data = c.bytes('data', n)
        c.snapshot('wire', 'bytearray(pack("<BBB", (1 << 3) | 3 | 0x40, 3, h) + data)')
        cp = c.new(CPX + ':CPXPacket')
        c.invoke((cp, '_set_wire_data'), c.get('wire'))
        cpx = c.ext('cpx', returns={'receivePacket': scripted(c, [cp])})
        thr = c.new(mod + ':_CPXReceiveThread', cpx, c.queue('inq'), c.ext('link_error'))
        c.reset_trace()
        c.call((thr, 'run'))
        c.ensure('loop-runs-through-the-script', "raised == 'StopLoop' and len(sent('cpx.receivePacket')) == 2")
        c.ensure('asks-for-function-CRTP-only', "all(len(e[1]) == 1 and e[1][0].value == 3 and typename(e[1][0]) == 'CPXFunction' "
                 "and e[2] == {'timeout': %r} for e in sent('cpx.receivePacket'))" % poll_timeout)
        c.ensure('exactly-one-crtp-packet-queued', "len(inq.queue) == 1")
        c.ensure('no-link-error', "len(calls('link_error')) == 0")
        if c.snapshot('queued', 'len(inq.queue)') == 1:
            c.snapshot('pk', "inq.queue[0]")
            c.ensure('header', "typename(pk) == 'CRTPPacket' and pk.port == h >> 4 and pk.channel == h & 3 and pk.header == h | 0x0C "
                               "and pk.get_header() == ((h & 0xF3) | 0x0C)")
            c.ensure('payload-unchanged', 'bytes(pk.data) == data and len(pk.data) == %d' % n)
    return k


_downlink(TCP, 0.1)
_downlink(SER, 1)


def _downlink_empty(mod):
    short = mod.rsplit('.', 1)[1]

    @contract('C18', '%s.receive_thread.no_crtp_header' % short, [mod + ':_CPXReceiveThread.run'],
              clause='a CPX packet of function CRTP with an empty payload carries no CRTP packet: nothing is queued and no link error '
                     'is reported (frame of the downlink clause)')
    def k(c):
        cp = c.new(CPX + ':CPXPacket')
        c.invoke((cp, '_set_wire_data'), bytearray([(1 << 3) | 3, 3]))
        cpx = c.ext('cpx', returns={'receivePacket': scripted(c, [cp])})
        thr = c.new(mod + ':_CPXReceiveThread', cpx, c.queue('inq'), c.ext('link_error'))
        c.reset_trace()
        c.call((thr, 'run'))
        c.ensure('nothing-queued-no-error', "raised == 'StopLoop' and len(inq.queue) == 0 and len(calls('link_error')) == 0")
    return k


_downlink_empty(TCP)
_downlink_empty(SER)


# ------------------------------------------------------------------------- stream -> router -> receivers (integration)

def _pipeline(lens, bad_at=None, thorough=False):
    """HEADERS give the functions CRTP, APP, CRTP, CONSOLE, BOOTLOADER in turn; receivers: CRTP and APP registered, CONSOLE not"""
    name = 'pipeline.' + '_'.join(str(n) for n in lens) + ('' if bad_at is None else '.bad_version_at_%d' % bad_at)
    nfrag = 1
    for n in lens:
        nfrag *= 2 * 2 ** (n + 1)
    if bad_at is not None:
        nfrag *= 2 * 4

    @contract('C18', name, SOCK + CODEC + ROUTER,
              clause='a fragmented TCP stream of frames run through the real transport and the real router loop reaches the '
                     'receivers: each registered receiver gets exactly the packets of its function, in arrival order, fields and '
                     'payload intact, nothing of another function'
                     + ('' if bad_at is None else '; a frame with an unsupported version in the stream is consumed and rejected '
                        'without disturbing the framing of the packets behind it'),
              bounded='%d packets with payload lengths %s and headers %r; all %d fragmentations (exhaustive)' % (
                  len(lens), list(lens), HEADERS[:len(lens)], nfrag), max_paths=6000, thorough_only=thorough)
    def k(c):
        total = write_stream(c, lens, False)
        if bad_at is not None:
            c.int('badver', 1, 3), c.int('x', 0, 255)
            cut = sum(n + 4 for n in lens[:bad_at])
            c.snapshot('S', "S[0:%d] + pack('<HBBB', 3, (1 << 3) | 3, (badver << 6) | 3, x) + S[%d:]" % (cut, cut))
            total += 5
        sock, st = stream_socket(c, 'rsock', 'S', total)
        router = c.new(CPX + ':CPXRouter', transport(c, sock))
        crtp, app, console = [c.new(CPX + ':CPXFunction', v) for v in (3, 5, 2)]
        for f in (crtp, app):
            c.call((router, 'receivePacket'), f, timeout=0)
            c.ensure('nothing-before-arrival', "raised == 'queue.Empty'")
        c.call((router, 'run'))
        c.let('pos', st['pos'])
        c.ensure('loop-reads-the-whole-stream-then-blocks', "raised == 'Deadlock' and pos == %d" % total)
        for f, val, tag in ((crtp, 3, 'crtp'), (app, 5, 'app'), (console, 2, 'console')):
            want = [i for i in range(len(lens)) if HEADERS[i % len(HEADERS)][2] == val and val != 2]
            got = drain(c, router, f, len(lens), tag)
            c.let('got', got)
            c.ensure('%s-receiver-gets-%d-packets' % (tag, len(want)), "got == %d and raised == 'queue.Empty'" % len(want))
            for m, i in enumerate(want[:got]):
                c.ensure('%s-receiver-packet-%d-is-sent-packet-%d' % (tag, m, i), same_packet(i).replace('r%d.' % i, '%s%d.' % (tag, m)))
    return k


_pipeline((1, 0, 1))
_pipeline((0, 1, 0, 0))
_pipeline((1, 1), bad_at=1)
_pipeline((0, 2), bad_at=0)
_pipeline((2, 1, 2), thorough=True)
_pipeline((0, 0, 0, 0, 0), thorough=True)
_pipeline((1, 0, 1), bad_at=2, thorough=True)
_pipeline((1, 0, 1), bad_at=3, thorough=True)
_pipeline((1, 1, 1, 1), thorough=True)
_pipeline((2, 2), bad_at=1, thorough=True)


# ------------------------------------------------------------------------- every fragmentation, every length (inductive)

def free_stream_socket(c, S, ghost):
    """The socket model of `stream_socket` for a stream of SYMBOLIC length and symbolic read position: recv(n) returns
    S[pos:pos+k] for an environment-chosen k with 1 <= k <= min(n, len(S) - pos) - k is universally quantified in the
    proof (fresh symbol `cut!i`); natively it is taken from the solver model, or as large as allowed when the model
    does not constrain it.  ghost.pos is the number of bytes consumed so far."""
    block = c.raiser('Deadlock', 'recv on an exhausted stream blocks for ever')
    st = {'calls': 0}

    def recv(I, args, kwargs):
        n = args[0]
        if I is None:                                           # native: concrete stream
            pos = ghost.pos
            avail = len(S) - pos
            if n <= 0:
                return b''
            if avail <= 0:
                return block()
            k = int(c.values.get('cut!%d' % st['calls'], min(n, avail)))
            st['calls'] += 1
            assert 1 <= k <= min(n, avail), 'socket model: cut %d outside 1..min(%d, %d)' % (k, n, avail)
            ghost.pos = pos + k
            return bytes(S[pos:pos + k])
        import z3
        from pyvc.values import SSeq
        from pyvc.ops import zterm, mk_int
        pos = zterm(ghost.attrs['pos'])
        avail = z3.Length(S.t) - pos
        if not I.path.decide(zterm(n) > 0):
            return SSeq(z3.Empty(S.t.sort()), 'bytes')
        if not I.path.decide(avail > 0):
            return block()
        k = I.fresh_int('cut', 1)
        I.path.assume(z3.And(k.t <= zterm(n), k.t <= avail))
        ghost.attrs['pos'] = mk_int(pos + k.t)
        return SSeq(z3.SubSeq(S.t, pos, k.t), 'bytes')
    return c.ext('sock', returns={'recv': recv})


@contract('C18', 'tcp.readData.inductive', [TRN + ':SocketTransport._readData'],
          clause='_readData(size) returns exactly the next `size` bytes of the stream and consumes exactly those for EVERY way of '
                 'cutting the stream into receive chunks and every size (loop invariant: data == S[start:start+len(data)], '
                 'pos == start + len(data), len(data) <= size; variant size - len(data); each recv length universally quantified)',
          bounded='size and stream length up to 70000 (any bound works; it only keeps the solver in linear arithmetic)')
def read_data_inductive(c):
    S = c.seq('S', 'bytes', 70000)
    c.int('size', 0, 70000), c.int('start', 0, 70000)
    c.require('start + size <= len(S)')
    ghost = c.ext('ghost', attrs={'pos': c.get('start')})
    rx = transport(c, free_stream_socket(c, S, ghost))
    if c.backend == 'sym':
        import z3
        from pyvc.values import SSeq
        c.I.spec_env = {'S': S, 'ghost': ghost, 'start': c.get('start')}

        def havoc(I, fr):
            fr.vars['data'] = SSeq(z3.Const(I.path.fresh_name('data'), S.t.sort()), 'bytearray')
            ghost.attrs['pos'] = I.fresh_int('pos')
        c.loop_invariant(TRN + ':SocketTransport._readData', '#1',
                         ['0 <= len(data) and len(data) <= size', 'ghost.pos == start + len(data)',
                          'data == S[start:start + len(data)]'], havoc, [], variant='size - len(data)')
    c.call((rx, '_readData'), c.get('size'))
    c.ensure('no-exception', 'raised is None')
    c.ensure('exact-bytes', "typename(result) == 'bytearray' and result == S[start:start + size]")
    c.ensure('consumed-exactly', 'ghost.pos == start + size')


@contract('C18', 'tcp.readPacket.inductive', [TRN + ':SocketTransport.readPacket', CPX + ':CPXPacket.__init__', CODEC[2]],
          clause='readPacket at a frame boundary of a stream <frames already read> <16-bit length><header b0 b1><payload P> <rest> consumes exactly that '
                 'frame and returns the packet it encodes (fields from the header bits, payload == P), for EVERY payload length '
                 '0..65533, every content, every fragmentation; _readData is used through its contract (tcp.readData.inductive); '
                 'frames that do not decode (unsupported version, values outside the enumerations) raise AFTER the frame has been '
                 'consumed, so the framing of the following packets is kept',
          max_paths=2000)
def read_packet_inductive(c):
    c.int('b0', 0, 255), c.int('b1', 0, 255)
    P = c.seq('P', 'bytes', 65533)
    pre = c.seq('pre', 'bytes', 100000)       # the frames already consumed ...
    rest = c.seq('rest', 'bytes', 100000)     # ... and the ones still to come (induction step over the packet sequence)
    S = c.snapshot('S', "pre + pack('<HBB', 2 + len(P), b0, b1) + P + rest")
    ghost = c.ext('ghost', attrs={'pos': c.snapshot('start', 'len(pre)')})
    rx = transport(c, free_stream_socket(c, S, ghost))
    if c.backend == 'sym':
        import z3
        from pyvc.values import SSeq, PBytearray
        from pyvc.ops import zterm, mk_int, mk_bool
        n = 2 + z3.Length(P.t)
        b0, b1, start = zterm(c.get('b0')), zterm(c.get('b1')), z3.Length(pre.t)

        def read_data(I, f, args, kwargs):
            """contract of _readData (proved in tcp.readData.inductive): returns S[pos:pos+size], pos += size.
            For the two reads that coincide with the pieces S was built from, the same value is returned in its
            structured form (obligation `structured-value-is-the-contract-value`), which keeps the header bytes out of the
            sequence theory."""
            size, pos = zterm(args[1]), zterm(ghost.attrs['pos'])
            if not I.path.decide(z3.And(size >= 0, pos + size <= z3.Length(S.t))):
                I.raise_py('Deadlock', 'stream exhausted')
            ghost.attrs['pos'] = mk_int(pos + size)
            generic = z3.SubSeq(S.t, pos, size)
            if I.path.must(z3.And(pos == start, size == 2)):
                val = PBytearray([mk_int(n % 256), mk_int((n / 256) % 256)])
                term = z3.Concat(z3.Unit(n % 256), z3.Unit((n / 256) % 256))
            elif I.path.must(z3.And(pos == start + 2, size == n)):
                term = z3.Concat(z3.Unit(b0), z3.Unit(b1), P.t)
                val = SSeq(term, 'bytearray')
            else:
                return SSeq(generic, 'bytearray')
            I.obligation('A', 'structured-value-is-the-contract-value', mk_bool(term == generic), {'expr': 'piece == S[pos:pos+size]'})
            return val
        c.summary(TRN + ':SocketTransport._readData', read_data)
    c.call((rx, 'readPacket'))
    c.snapshot('ver', 'b1 >> 6')
    c.snapshot('valid', '((b0 >> 3) & 7) in %r and (b0 & 7) in %r and (b1 & 0x3F) in %r' % (TARGETS, TARGETS, FUNCTIONS))
    c.ensure('frame-consumed-exactly-whatever-the-outcome', 'ghost.pos == start + 4 + len(P)')
    c.ensure('accepted-iff-version-0-and-enumerated', 'iff(raised is None, ver == 0 and valid)')
    c.ensure('unsupported-version-rejected', "implies(ver != 0, raised == 'RuntimeError')")
    c.ensure('only-declared-errors', "raised in (None, 'RuntimeError', 'ValueError')")
    if c.get('raised') is None:
        c.snapshot('r', 'result')
        c.ensure('fields', "typename(r) == 'CPXPacket' and r.source.value == (b0 >> 3) & 7 and r.destination.value == b0 & 7 and "
                           "r.function.value == b1 & 0x3F and r.lastPacket == ((b0 & 0x40) != 0) and r.version == 0")
        c.ensure('payload-and-length', 'r.data == P and r.length == len(P)')


def _short_frame(n):
    @contract('C18', 'tcp.readPacket.short_frame.%d' % n, SOCK[1:] + [CODEC[2]],
              clause='a frame whose length field is below the size of a CPX header (%d) is consumed and rejected (struct.error); '
                     'the stream position stays on the frame boundary' % n,
              bounded='3 further bytes in the stream; all fragmentations')
    def k(c):
        c.bytes('W', n), c.bytes('rest', 3)
        c.snapshot('S', "pack('<H', %d) + W + rest" % n)
        sock, st = stream_socket(c, 'rsock', 'S', 2 + n + 3)
        rx = transport(c, sock)
        c.call((rx, 'readPacket'))
        c.let('pos', st['pos'])
        c.ensure('rejected-after-consuming-the-frame', "raised == 'struct.error' and pos == %d" % (2 + n))
    return k


_short_frame(0)
_short_frame(1)


# ------------------------------------------------------------------------- downlink end to end (sequential schedule)

def _downlink_e2e(lens, suffix='', thorough=False):
    nfrag = 1
    for n in lens:
        nfrag *= 2 * 2 ** (n + 1)

    @contract('C18', 'tcpdriver.downlink.end_to_end' + suffix,
              SOCK + CODEC + ROUTER + [CPX + ':CPX.receivePacket', TCP + ':_CPXReceiveThread.run', STK + ':CRTPPacket.__init__'],
              clause='CRTP packets tunnelled through CPX arrive with header and payload unchanged: frames written by the peer on the TCP '
                     'stream, cut arbitrarily, pass the real transport, router loop, CPX facade and the driver\'s receive loop and end '
                     'up on the driver\'s queue as the same CRTP packets in the same order; packets of another function do not',
              bounded='one sequential schedule (receiver registers, router loop runs until the stream is exhausted, receive loop polls twice): '
                      'frames CRTP[h0], APP[], CRTP[h2, d2]%s - CRTP payload lengths 0 and 1; all %d fragmentations' % (
                          ', CONSOLE[]' if len(lens) > 3 else '', nfrag), max_paths=6000, thorough_only=thorough)
    def downlink_e2e(c):
        total = write_stream(c, lens, False)        # headers: STM32->HOST CRTP, GAP8->HOST APP, STM32->HOST CRTP
        sock, st = stream_socket(c, 'rsock', 'S', total)
        router = c.new(CPX + ':CPXRouter', transport(c, sock))
        facade = c.obj(CPX + ':CPX', _router=router)
        stop = c.raiser('StopLoop', 'schedule: receive loop pre-empted')
        budget = {'polls': 2}

        def poll(_i, args, kwargs):
            if budget['polls'] == 0:
                return stop()
            budget['polls'] -= 1
            return c.invoke((facade, 'receivePacket'), *args, **kwargs)
        thr = c.new(TCP + ':_CPXReceiveThread', c.ext('cpx', returns={'receivePacket': poll}), c.queue('inq'), c.ext('link_error'))
        # the receive loop's first poll registers the CRTP receiver at the router; done here with timeout 0 instead of 0.1 s
        c.call((facade, 'receivePacket'), c.new(CPX + ':CPXFunction', 3), timeout=0)
        c.ensure('registered-nothing-yet', "raised == 'queue.Empty'")
        c.call((router, 'run'))
        c.let('pos', st['pos'])
        c.ensure('router-reads-the-whole-stream', "raised == 'Deadlock' and pos == %d" % total)
        c.call((thr, 'run'))
        c.ensure('receive-loop-survives', "raised == 'StopLoop' and len(calls('link_error')) == 0")
        c.ensure('two-crtp-packets-queued', 'len(inq.queue) == 2')
        if c.snapshot('queued', 'len(inq.queue)') == 2:
            c.snapshot('a', 'inq.queue[0]')
            c.snapshot('b', 'inq.queue[1]')
            c.ensure('first-packet', 'a.port == pay0[0] >> 4 and a.channel == pay0[0] & 3 and a.header == pay0[0] | 0x0C and bytes(a.data) == b""')
            c.ensure('second-packet', 'b.port == pay2[0] >> 4 and b.channel == pay2[0] & 3 and b.header == pay2[0] | 0x0C and '
                                      'bytes(b.data) == bytes(pay2[1:])')
    return downlink_e2e


_downlink_e2e((1, 0, 2))
_downlink_e2e((1, 0, 2, 0), '.4_frames', thorough=True)


@contract('C18', 'router.sendPacket', [CPX + ':CPXRouter.sendPacket', CPX + ':CPX.sendPacket'],
          clause='the facade and the router hand a packet to the transport unchanged, exactly once (frame of the uplink clause)')
def router_send(c):
    router = c.new(CPX + ':CPXRouter', c.ext('transport'))
    facade = c.obj(CPX + ':CPX', _router=router)
    p = c.ext('packet')
    c.let('p', p)
    c.call((facade, 'sendPacket'), p)
    c.ensure('one-write-of-the-same-object', "raised is None and calls() == ('transport.writePacket',) and "
             "is_same(sent('transport.writePacket')[0][1][0], p) and len(sent('transport.writePacket')[0][1]) == 1")


def _burst(n, thorough=False):
    @contract('C18', 'router.dispatch.burst' + ('' if n == 100 else '.%d' % n), ROUTER,
              clause='received packets are queued per function in arrival order, however many of them are waiting: a burst that nobody reads yet '
                     'neither blocks the router nor delays or drops packets of other functions',
              bounded='burst of %d unread packets of one function followed by one packet of another function' % n, unroll=3 * n, thorough_only=thorough)
    def dispatch_burst(c):
        pks = [c.ext('pk%d' % i, attrs={'function': c.ext('fn%d' % i, attrs={'value': 5})}) for i in range(n)]
        other = c.ext('pk_other', attrs={'function': c.ext('fn_other', attrs={'value': 7})})
        rcv = [c.ext('rcv5', attrs={'value': 5}), c.ext('rcv7', attrs={'value': 7})]
        router = c.new(CPX + ':CPXRouter', c.ext('transport', returns={'readPacket': scripted(c, pks + [other])}))
        for j in (0, 1):
            c.call((router, 'receivePacket'), rcv[j], timeout=0)
            c.ensure('nothing-before-arrival-%d' % j, "raised == 'queue.Empty'")
        c.reset_trace()
        c.call((router, 'run'))
        c.ensure('router-never-blocks', "raised == 'StopLoop' and len(calls()) == %d" % (n + 2))
        c.call((router, 'receivePacket'), rcv[1], timeout=0)
        c.let('other', other)
        c.ensure('other-function-not-delayed', 'raised is None and is_same(result, other)')
        got = drain(c, router, rcv[0], n, 'b')
        c.let('got', got)
        c.let('pks', tuple(pks))
        c.ensure('whole-burst-in-arrival-order', 'got == %d and all(is_same(x, y) for x, y in zip((%s), pks))' % (n, ', '.join('b%d' % i for i in range(n))))
    return dispatch_burst


_burst(100)
_burst(1000, thorough=True)


# ------------------------------------------------------------------------- UART transport (the serial driver's CPX link)
#
# Frame: 0xFF, length of the CPX wire data, the wire data, XOR of all preceding bytes.  Flow control: a frame of length 0 is a
# clear-to-send token; the writer takes a lock per frame and the reader releases it when the token arrives.  pyserial is an
# optional dependency (not installed here): the module attribute `serial` is a contract stub whose Serial() returns a port
# model.  Port model: read(n) returns exactly the next n bytes of the scripted stream (pyserial with timeout=None blocks
# until n bytes arrived); nothing left -> pseudo exception Deadlock.

UART = [TRN + ':UARTTransport.__init__', TRN + ':UARTTransport.connect', TRN + ':UARTTransport._calcXORchecksum']


def uart(c, stream='b""', total=0, lock=None):
    """a UARTTransport built by its real constructor: the peer's sync token (0xFF, 0x00) is scripted in front of `stream`;
    lock: the clear-to-send lock the transport is to create (a `c.lock` with an explicit schedule) instead of threading.Lock"""
    st = {'pos': 0, 'wpos': []}
    block = c.raiser('Deadlock', 'read on an exhausted serial stream blocks for ever')
    c.snapshot('uart_stream', "b'\\xff\\x00' + " + stream)
    c.reset_trace()

    def read(_i, args, _k):
        n = args[0]
        if type(n) is not int:
            from pyvc.core import OutOfSubset
            raise OutOfSubset('serial model: read size must be a concrete int, got %r' % (n,))
        if st['pos'] + n > st.get('limit', total + 2):       # 'limit': how much the peer has sent so far (moved by st['on_write'])
            return block()
        lo = st['pos']
        st['pos'] = lo + n
        return c.snapshot('_chunk', 'bytes(uart_stream[%d:%d])' % (lo, lo + n))
    def write(_i, args, _k):
        st['wpos'].append(st['pos'])        # how much of the peer's stream had been consumed when this write was made
        if 'on_write' in st:
            st['on_write'](args[0])
    port = c.ext('ser', returns={'read': read, 'write': write})
    c.patch(TRN + ':serial', c.ext('serial', returns={'Serial': lambda *_a: port}), create=True)
    if lock is not None:
        c.patch(TRN + ':Lock', c.ext('Lock', returns={'()': lambda *_a: lock}))
    tx = c.new(TRN + ':UARTTransport', '/dev/ttyUSB0', 576000)
    c.let('tx', tx)
    c.require("calls('ser.') == ('ser.read', 'ser.read', 'ser.write') and bytes(sent('ser.write')[0][1][0]) == b'\\xff\\x00'")
    c.reset_trace()
    return tx, st


def xor_of(expr, n):
    return ' ^ '.join(['0'] + ['%s[%d]' % (expr, i) for i in range(n)])        # same order as _calcXORchecksum


def _uart_write(paylen, thorough=False):
    @contract('C18', 'uart.write.len%d' % paylen, UART + [TRN + ':UARTTransport.writePacket'] + CODEC[:2],
              clause='CRTP packets tunnelled through CPX arrive unchanged (serial link): writePacket puts exactly one frame on the line - '
                     '0xFF, length of the CPX wire data, the two header bytes and the payload, XOR checksum of everything before it - for every '
                     'packet whose wire data fits the 100-byte frame limit, and holds the clear-to-send lock until the peer answers',
              bounded='payload length %d (98 = the largest that fits)' % paylen, max_paths=1000, thorough_only=thorough)
    def k(c):
        p = packet(c, '', paylen)
        tx, _ = uart(c)
        c.call((tx, 'writePacket'), p)
        c.ensure('no-exception', 'raised is None')
        c.ensure('one-write-nothing-else', "calls() == ('ser.write',)")
        c.snapshot('frame', "bytes(sent('ser.write')[0][1][0])")
        c.ensure('frame-start-length-data', "frame[:-1] == pack('<BBBB', 0xFF, %d, (src << 3) | dst | (0x40 if last else 0), fn) + bytes(pay)" % (paylen + 2))
        c.ensure('frame-checksum', 'len(frame) == %d and frame[-1] == (%s)' % (paylen + 5, xor_of('frame', paylen + 4)))
        c.ensure('waits-for-clear-to-send', 'tx._lock.locked()')
    return k


for _n in (0, 1, 30, 98):
    _uart_write(_n)
for _n in (2, 10, 50, 64, 96, 97):
    _uart_write(_n, thorough=True)


@contract('C18', 'uart.write.limit', UART + [TRN + ':UARTTransport.writePacket'],
          clause='a packet whose wire data exceeds the 100-byte frame limit is refused with nothing put on the line (the one-byte length never wraps)',
          bounded='payload length 99 (wire data 101 bytes), one header')
def uart_write_limit(c):
    p = c.new(CPX + ':CPXPacket', function=c.new(CPX + ':CPXFunction', 5), destination=c.new(CPX + ':CPXTarget', 4),
              source=c.new(CPX + ':CPXTarget', 3), data=bytearray(99))
    tx, _ = uart(c)
    c.call((tx, 'writePacket'), p)
    c.ensure('refused-nothing-written', "raised is not None and calls() == ()")


def _uart_read(paylen, thorough=False):
    @contract('C18', 'uart.read.len%d' % paylen, UART + [TRN + ':UARTTransport.readPacket', CPX + ':CPXPacket.__init__', CODEC[2]],
              clause='CRTP packets tunnelled through CPX arrive unchanged (serial link): readPacket skips clear-to-send tokens (releasing the '
                     'writer), returns the packet of the next data frame with source, destination, function, flag and payload as encoded, and '
                     'answers it with a clear-to-send token',
              bounded='payload length %d; one clear-to-send token, then one data frame, then the start of another frame' % paylen, max_paths=1000,
              thorough_only=thorough)
    def k(c):
        c.int('b0', 0, 255), c.int('fn', 0, 255)
        c.require('(b0 >> 7) == 0 and (b0 & 7) in (1, 2, 3, 4) and ((b0 >> 3) & 7) in (1, 2, 3, 4) and fn in %r' % (FUNCTIONS,))
        c.bytes('pay', paylen)
        c.snapshot('body', "pack('<BBBB', 0xFF, %d, b0, fn) + pay" % (paylen + 2))
        c.snapshot('crc', xor_of('body', paylen + 4))
        tx, st = uart(c, "b'\\xff\\x00' + body + bytes([crc]) + b'\\xff\\x05'", 2 + paylen + 5 + 2)
        held = c.choice('writer_waiting', [True])
        c.invoke((c.getfield(tx, '_lock'), 'acquire'))         # a frame was written before: the writer waits for the token
        c.call((tx, 'readPacket'))
        c.ensure('no-exception', 'raised is None')
        c.let('consumed', st['pos'])
        c.ensure('consumed-exactly-token-and-frame', 'consumed == %d' % (2 + 2 + paylen + 5))
        c.ensure('token-released-the-writer', 'not tx._lock.locked()')
        c.ensure('answered-with-clear-to-send', "calls('ser.write') == ('ser.write',) and bytes(sent('ser.write')[0][1][0]) == b'\\xff\\x00'")
        c.snapshot('q', 'result')
        c.ensure('fields', "typename(q) == 'CPXPacket' and q.destination.value == (b0 & 7) and q.source.value == ((b0 >> 3) & 7) and "
                           "q.lastPacket == ((b0 & 0x40) != 0) and q.function.value == fn and q.version == 0")
        c.ensure('payload-and-length', 'bytes(q.data) == pay and q.length == %d' % paylen)
    return k


for _n in (0, 1, 30, 98):
    _uart_read(_n)
for _n in (2, 10, 50, 64, 96, 97):
    _uart_read(_n, thorough=True)


def _uart_roundtrip(paylen, thorough=False):
    @contract('C18', 'uart.roundtrip.len%d' % paylen, UART + [TRN + ':UARTTransport.writePacket', TRN + ':UARTTransport.readPacket'] + CODEC,
              clause='a CPX packet survives the serial link: what writePacket puts on the line is read back by readPacket of the peer as a '
                     'packet with the same source, destination, function, last-packet flag and payload',
              bounded='payload length %d' % paylen, max_paths=1000, thorough_only=thorough)
    def k(c):
        p = packet(c, '', paylen)
        tx, _ = uart(c)
        c.call((tx, 'writePacket'), p)
        c.require("raised is None and len(sent('ser.write')) == 1")
        c.snapshot('line', "bytes(sent('ser.write')[0][1][0])")
        rx, st = uart(c, 'line', paylen + 5)
        c.call((rx, 'readPacket'))
        c.ensure('no-exception', 'raised is None')
        c.snapshot('q', 'result')
        c.ensure('five-fields', "is_same(q.source, p.source) and is_same(q.destination, p.destination) and "
                                "is_same(q.function, p.function) and q.lastPacket == last and q.version == 0")
        c.ensure('payload-and-length', 'bytes(q.data) == bytes(pay) and q.length == %d' % paylen)
    return k


for _n in (0, 30, 98):
    _uart_roundtrip(_n)
for _n in (1, 10, 50, 64, 96, 97):
    _uart_roundtrip(_n, thorough=True)



# ========================================================================= extension round
#
# ------------------------------------------------------------------------- every payload length (array-window payloads)

def any_packet(c, maxlen=None):
    """a real CPXPacket with symbolic source / destination / function / flag and a payload of SYMBOLIC length (window into an SMT
    array, `c.view`): one path covers every payload length"""
    src, dst, fn = c.int('src', 1, 4), c.int('dst', 1, 4), c.int('fn', 1, 15)
    c.require('fn in %r' % (FUNCTIONS,))
    c.bool('last')
    pay = c.view('pay', 'bytearray', maxlen=maxlen)
    p = c.new(CPX + ':CPXPacket', function=c.new(CPX + ':CPXFunction', fn), destination=c.new(CPX + ':CPXTarget', dst),
              source=c.new(CPX + ':CPXTarget', src), data=pay)
    c.let('p', p)
    c.snapshot('_', 'setattr(p, "lastPacket", last)')
    return p


HDR = "pack('<BB', (src << 3) | dst | (0x40 if last else 0), fn)"


@contract('C18', 'codec.roundtrip.anylen', CODEC,
          clause='a CPX packet survives encoding and decoding with its source, destination, function, last-packet flag and payload '
                 'intact for every combination (4 x 4 targets, 7 functions, both flag values) and EVERY payload length (no bound: the '
                 'codec itself has no maximum; the transports add theirs)', max_paths=1000)
def roundtrip_anylen(c):
    p = any_packet(c)
    c.call((p, '_get_wire_data'))
    c.ensure('encode-no-exception', 'raised is None')
    c.snapshot('wire', 'result')
    c.ensure('wire-layout', "typename(wire) == 'bytearray' and len(wire) == 2 + len(pay) and bytes(wire[0:2]) == %s and bytes(wire[2:]) == bytes(pay)" % HDR)
    c.ensure('packet-not-modified-by-encoding', 'bytes(p.data) == bytes(pay) and p.length == len(pay) and p.lastPacket == last')
    q = c.new(CPX + ':CPXPacket')
    c.let('q', q)
    c.call((q, '_set_wire_data'), c.get('wire'))
    c.ensure('decode-no-exception', 'raised is None')
    c.ensure('five-fields', "is_same(q.source, p.source) and is_same(q.destination, p.destination) and "
                            "is_same(q.function, p.function) and q.lastPacket == last and q.version == 0")
    c.ensure('field-values', 'q.source.value == src and q.destination.value == dst and q.function.value == fn')
    c.ensure('payload-and-length', 'bytes(q.data) == bytes(pay) and q.length == len(pay)')


@contract('C18', 'tcp.write.anylen', [TRN + ':SocketTransport.writePacket'] + CODEC[:2],
          clause='writePacket puts exactly one frame on the stream - 16-bit little-endian length of the CPX wire data, the two header '
                 'bytes, the payload - for every source/destination/function/flag combination and EVERY payload length 0..65533 (the '
                 'maximum the 16-bit length can express; refusal of longer packets: tcp.write.limit)', max_paths=1000)
def write_anylen(c):
    p = any_packet(c, 65533)
    tx = transport(c, c.ext('sock'))
    c.call((tx, 'writePacket'), p)
    c.ensure('no-exception', 'raised is None')
    c.ensure('one-send-nothing-else', "calls() == ('sock.send',)")
    if c.get('trace'):
        c.snapshot('frame', "sent('sock.send')[0][1][0]")
        c.ensure('frame', "len(frame) == 4 + len(pay) and bytes(frame[0:4]) == pack('<H', 2 + len(pay)) + %s and bytes(frame[4:]) == bytes(pay)" % HDR)


# ------------------------------------------------------------------------- TCP transport: connection life cycle

CONN = [TRN + ':SocketTransport.__init__', TRN + ':SocketTransport.connect', TRN + ':SocketTransport.disconnect']


def socket_module(c, socks):
    """the `socket` module of cflib.cpx.transports replaced by a stub whose socket() hands out the given connection stubs one
    by one (a further socket() call fails the contract with IndexError)"""
    todo = list(socks)

    def make(_i, args, kwargs):
        return todo.pop(0)
    mod = c.ext('socket', attrs={'AF_INET': 2, 'AF_INET6': 10, 'SOCK_STREAM': 1, 'SOCK_DGRAM': 2, 'SHUT_RD': 0, 'SHUT_WR': 1, 'SHUT_RDWR': 2},
                returns={'socket': make})
    c.patch(TRN + ':socket', mod)
    return mod


@contract('C18', 'tcp.session.reconnect', CONN + SOCK + CODEC,
          clause='a TCP byte stream carrying a sequence of packets is re-assembled into exactly that sequence: a transport built by its '
                 'real constructor opens ONE stream connection to (host, port) and frames / re-assembles on that connection; after '
                 'disconnect() + connect() it frames and re-assembles on the NEW connection only - bytes of the old stream that were '
                 'not consumed (a partial frame) do not leak into the new one, the old connection is shut down and closed and is never '
                 'used again',
          bounded='two sessions, one packet each way per session (payload lengths 1 and 0), 3 unread bytes left in the first stream; '
                  'all fragmentations', max_paths=2000)
def tcp_reconnect(c):
    tx0 = transport(c, c.ext('wsock'))          # the peer's writer (produces the two streams)
    a = fixed_packet(c, '0', HEADERS[0], 1)
    b = fixed_packet(c, '1', HEADERS[1], 0)
    c.call((tx0, 'writePacket'), a)
    c.call((tx0, 'writePacket'), b)
    c.bytes('junk', 3)
    c.snapshot('S0', "bytes(sent('wsock.send')[0][1][0]) + junk")
    c.snapshot('S1', "bytes(sent('wsock.send')[1][1][0])")
    s0, st0 = stream_socket(c, 'sock0', 'S0', 5 + 3)
    s1, st1 = stream_socket(c, 'sock1', 'S1', 4)
    c.let('s0', s0), c.let('s1', s1)
    socket_module(c, [s0, s1])
    c.reset_trace()
    tx = c.new(TRN + ':SocketTransport', 'aideck.local', 5000)
    c.let('tx', tx)
    c.ensure('one-stream-connection-to-host-and-port',
             "calls('socket.socket') == ('socket.socket',) and sent('socket.socket')[0][1] == (2, 1) and len(sent('sock0.connect')) == 1 "
             "and sent('sock0.connect')[0][1] == (('aideck.local', 5000),) and len(calls('sock1')) == 0")
    c.call((tx, 'writePacket'), b)
    c.call((tx, 'readPacket'))
    c.ensure('session0-read', 'raised is None')
    if c.get('raised') is not None:
        return
    c.snapshot('r0', 'result')
    c.ensure('session0-same-packet', same_packet(0))
    c.ensure('session0-frame-written-on-connection-0', "len(sent('sock0.send')) == 1 and bytes(sent('sock0.send')[0][1][0]) == S1 and len(calls('sock1')) == 0")
    c.reset_trace()
    c.call((tx, 'disconnect'))
    c.ensure('old-connection-shut-down-and-closed', "raised is None and calls('sock0')[-1] == 'sock0.close' and len(sent('sock0.close')) == 1 "
             "and len(calls('sock1')) == 0")
    c.call((tx, 'connect'))
    c.ensure('new-connection', "raised is None and len(sent('socket.socket')) == 1 and len(sent('sock1.connect')) == 1 and "
             "sent('sock1.connect')[0][1] == (('aideck.local', 5000),)")
    c.reset_trace()
    c.call((tx, 'writePacket'), a)
    c.call((tx, 'readPacket'))
    c.let('pos0', st0['pos']), c.let('pos1', st1['pos'])
    c.ensure('session1-read', 'raised is None')
    if c.get('raised') is not None:
        return
    c.snapshot('r1', 'result')
    c.ensure('session1-same-packet (nothing of the old stream in front of it)', same_packet(1))
    c.ensure('session1-uses-the-new-connection-only', "len(calls('sock0')) == 0 and pos0 == 5 and pos1 == 4 and "
             "len(sent('sock1.send')) == 1 and bytes(sent('sock1.send')[0][1][0]) == S0[0:5]")



@contract('C18', 'tcp.session.reconnect_after_interrupted_read', CONN + SOCK + CODEC,
          clause='a TCP byte stream carrying a sequence of packets is re-assembled into exactly that sequence: a read that was cut short by '
                 'disconnect() in the middle of a frame leaves nothing behind - after connect() the packets of the NEW stream are re-assembled '
                 'intact from its first byte (no bytes of the broken frame in front of them)',
          bounded='old stream: one frame with a 3-byte payload, disconnect() is called by another thread during the k-th recv of its readPacket, '
                  'k = every recv of every fragmentation (explicit schedule: inside sock.recv, which still returns its chunk); new stream: one '
                  'frame with a 1-byte payload, every recv returns as much as it may', max_paths=2000)
def tcp_reconnect_after_interrupted_read(c):
    tx0 = transport(c, c.ext('wsock'))
    c.call((tx0, 'writePacket'), fixed_packet(c, '0', HEADERS[0], 3))
    c.call((tx0, 'writePacket'), fixed_packet(c, '1', HEADERS[1], 1))
    c.snapshot('S0', "bytes(sent('wsock.send')[0][1][0])")
    c.snapshot('S1', "bytes(sent('wsock.send')[1][1][0])")
    s0, st0 = stream_socket(c, 'sock0', 'S0', 7)
    s1, st1 = stream_socket(c, 'sock1', 'S1', 5, greedy=True)
    when = c.choice('disconnect_during_recv', list(range(7)))
    holder = {'n': 0}
    inner = s0.returns['recv'] if c.backend == 'sym' else s0.__dict__['_returns']['recv']

    def recv(i_, args, kwargs):
        if holder['n'] == when:
            c.invoke((holder['tx'], 'disconnect'))
        holder['n'] += 1
        return inner(i_, args, kwargs)
    (s0.returns if c.backend == 'sym' else s0.__dict__['_returns'])['recv'] = recv
    socket_module(c, [s0, s1])
    tx = holder['tx'] = c.new(TRN + ':SocketTransport', 'aideck.local', 5000)
    c.call((tx, 'readPacket'))                      # cut short (whatever it returns or raises is the subject of cpx.close.during_read.*)
    c.require('%d > %d' % (holder['n'], when))      # schedules in which the frame was complete before the k-th recv: no interruption
    c.reset_trace()
    c.call((tx, 'connect'))
    c.ensure('new-connection', "raised is None and len(sent('sock1.connect')) == 1")
    c.call((tx, 'readPacket'))
    c.let('pos1', st1['pos'])
    c.ensure('new-stream-read', 'raised is None')
    if c.get('raised') is None:
        c.snapshot('r1', 'result')
        c.ensure('first-packet-of-the-new-stream-intact', same_packet(1))
        c.ensure('consumed-exactly-its-frame-old-connection-untouched', "pos1 == 5 and len(calls('sock0')) == 0")


# ------------------------------------------------------------------------- router: transactions and explicit schedules
#
# The router thread (CPXRouter.run) and the client threads (receivePacket / makeTransaction) run concurrently in the library.  Here
# the OTHER thread's action is put inside a stub call of the thread under analysis (an explicit schedule): the router dispatches its
# scripted arrivals while the client is inside transport.writePacket, or a client registers / drains between two arrivals, inside
# transport.readPacket.  queue.Queue is replaced by the sequential queue model in both back ends, so that waiting for ever is
# reported at once (pseudo exception Deadlock) instead of blocking the native replay.

def model_queues(c):
    made = []

    def mkq(_i, args, kwargs):
        made.append(c.queue('rxq%d' % len(made)))
        return made[-1]
    c.patch(CPX + ':queue', c.ext('queue', returns={'Queue': mkq}))
    return made


def stub_packet(c, name, fval):
    return c.ext(name, attrs={'function': c.ext(name + '_fn', attrs={'value': fval})})


def _transaction(when):
    @contract('C18', 'router.makeTransaction.' + when, ROUTER + [CPX + ':CPXRouter.makeTransaction', CPX + ':CPXRouter.sendPacket', CPX + ':CPX.makeTransaction'],
              clause='received packets are queued per function in arrival order and handed only to receivers of that function: a '
                     'transaction writes its packet exactly once and returns the FIRST not yet delivered packet of the packet\'s own function; '
                     'packets of other functions that arrive meanwhile are not returned and stay queued for their receivers, a second '
                     'packet of the function stays queued for the next receive; for all function values 0..63',
              bounded='the function was registered before; three arrivals (other function, same function, same function) dispatched by the '
                      'router ' + {'during-send': 'while the client is still inside transport.writePacket (earliest schedule)',
                                   'before-send': 'before the transaction starts (they are already waiting)'}[when])
    def k(c):
        c.int('f', 0, 63), c.int('g', 0, 63)
        c.require('f != g')
        model_queues(c)
        x, y, z = stub_packet(c, 'x', c.get('g')), stub_packet(c, 'y', c.get('f')), stub_packet(c, 'z', c.get('f'))
        c.let('x', x), c.let('y', y), c.let('z', z)
        p = stub_packet(c, 'p', c.get('f'))
        c.let('p', p)
        holder = {}

        def router_runs(*_a):
            holder['ended'] = c.invoke_catch((holder['router'], 'run'))
        tr = c.ext('transport', returns={'readPacket': scripted(c, [x, y, z]), 'writePacket': router_runs if when == 'during-send' else None})
        router = holder['router'] = c.new(CPX + ':CPXRouter', tr)
        facade = c.obj(CPX + ':CPX', _router=router)
        fn_f, fn_g = c.ext('fn_f', attrs={'value': c.get('f')}), c.ext('fn_g', attrs={'value': c.get('g')})
        for fn in (fn_f, fn_g):
            c.call((router, 'receivePacket'), fn, timeout=0)
            c.ensure('registered-nothing-yet', "raised == 'queue.Empty'")
        if when == 'before-send':
            router_runs()
        c.reset_trace()
        c.call((facade, 'makeTransaction'), p)
        c.ensure('returns-first-packet-of-its-function', 'raised is None and is_same(result, y)')
        c.ensure('request-written-exactly-once', "len(sent('transport.writePacket')) == 1 and is_same(sent('transport.writePacket')[0][1][0], p)")
        c.let('ended', holder.get('ended'))
        c.ensure('router-dispatched-the-three-arrivals', "ended == 'StopLoop'")
        c.call((router, 'receivePacket'), fn_f, timeout=0)
        c.ensure('second-packet-of-the-function-is-next', 'raised is None and is_same(result, z)')
        c.call((router, 'receivePacket'), fn_f, timeout=0)
        c.ensure('then-nothing', "raised == 'queue.Empty'")
        c.call((router, 'receivePacket'), fn_g, timeout=0)
        c.ensure('other-function-packet-kept-for-its-receiver', 'raised is None and is_same(result, x)')
    return k


_transaction('during-send')
_transaction('before-send')


def _interleaved(n, thorough=False):
    @contract('C18', 'router.dispatch.interleaved' + ('' if n == 4 else '.%dpk' % n), ROUTER,
              clause='received packets are queued per function in arrival order and handed only to receivers of that function, also when the '
                     'receiver drains its queue WHILE the router keeps dispatching: what a receiver gets over time is exactly the arrival-order '
                     'subsequence of its function, nothing twice, nothing lost; for all function values 0..63',
              bounded='%d arrivals with symbolic functions; the receiver of r polls (timeout 0) between any two arrivals, inside '
                      'transport.readPacket (explicit schedule), and drains at the end' % n, max_paths=3000, thorough_only=thorough)
    def dispatch_interleaved(c):
        model_queues(c)
        fs = [c.int('f%d' % i, 0, 63) for i in range(n)]
        pks = [stub_packet(c, 'pk%d' % i, fs[i]) for i in range(n)]
        c.int('r', 0, 63)
        rcv = c.ext('rcv', attrs={'value': c.get('r')})
        holder = {'got': []}
        feed = scripted(c, pks)

        def read(*_a):
            # the client thread polls once before the next arrival is read
            if 'router' in holder:
                try_get(holder)
            return feed()

        def try_get(h):
            c.call((h['router'], 'receivePacket'), rcv, timeout=0)
            if c.get('raised') is None:
                h['got'].append(c.get('result'))
        router = c.new(CPX + ':CPXRouter', c.ext('transport', returns={'readPacket': read}))
        c.call((router, 'receivePacket'), rcv, timeout=0)
        c.ensure('registered-nothing-yet', "raised == 'queue.Empty'")
        holder['router'] = router
        ended = c.invoke_catch((router, 'run'))
        c.let('ended', ended)
        c.ensure('router-dispatched-all-arrivals', "ended == 'StopLoop'")
        for _ in range(n + 1):
            try_get(holder)
        c.ensure('ends-with-empty-queue', "raised == 'queue.Empty'")
        got = holder['got']
        c.let('got', tuple(got))
        c.let('pks', tuple(pks))
        c.ensure('gets-every-packet-of-its-function-once', 'len(got) == ' + ' + '.join('(f%d == r)' % i for i in range(n)))
        for m in range(len(got)):
            for i in range(n):
                before = ' + '.join(['0'] + ['(f%d == r)' % e for e in range(i)])
                c.ensure('arrival-order-%d-%d' % (m, i), 'implies(f%d == r and (%s) == %d, is_same(got[%d], pks[%d]))' % (i, before, m, m, i))
    return dispatch_interleaved


_interleaved(4)
_interleaved(6, thorough=True)


def _late_registration(n, thorough=False):
    @contract('C18', 'router.dispatch.late_registration' + ('' if n == 4 else '.%dpk' % n), ROUTER,
              clause='received packets are queued per function in arrival order and handed only to receivers of that function: a receiver that '
                     'registers while the router is already running gets exactly the packets of its function that arrive AFTER its registration, '
                     'in arrival order (packets that arrived before nobody had asked for their function are dropped - behaviour of the code, stated)',
              bounded='%d arrivals of one function; the receiver registers (first receivePacket, timeout 0) before arrival k, k = 0..%d, '
                      'inside transport.readPacket (explicit schedule)' % (n, n), thorough_only=thorough)
    def dispatch_late_registration(c):
        model_queues(c)
        c.int('f', 0, 63)
        pks = [stub_packet(c, 'pk%d' % i, c.get('f')) for i in range(n)]
        k = c.choice('registers_before_arrival', list(range(n + 1)))
        rcv = c.ext('rcv', attrs={'value': c.get('f')})
        holder = {'reads': 0, 'first': None}
        feed = scripted(c, pks)

        def read(*_a):
            if holder['reads'] == k:
                holder['first'] = c.invoke_catch((holder['router'], 'receivePacket'), rcv, timeout=0)
            holder['reads'] += 1
            return feed()
        router = holder['router'] = c.new(CPX + ':CPXRouter', c.ext('transport', returns={'readPacket': read}))
        ended = c.invoke_catch((router, 'run'))
        c.let('ended', ended), c.let('first', holder['first'])
        c.ensure('router-dispatched-all-arrivals', "ended == 'StopLoop' and first == 'queue.Empty'")
        got = drain(c, router, rcv, n, 'late')
        c.let('got', got)
        c.let('pks', tuple(pks))
        c.ensure('gets-exactly-the-arrivals-after-registration', "got == %d and raised == 'queue.Empty'" % (n - k))
        for m in range(min(got, n - k)):
            c.ensure('in-arrival-order-%d' % m, 'is_same(late%d, pks[%d])' % (m, k + m))
    return dispatch_late_registration


_late_registration(4)
_late_registration(8, thorough=True)


def waiting_queues(c, while_waiting):
    """queue.Queue of cflib.cpx replaced by a FIFO model of this file whose blocking get(), on an empty queue, first lets the other
    threads run (`while_waiting()`); if the queue is still empty it blocks for ever (Deadlock) without time-out and gives up
    (queue.Empty) with one; a get with time-out 0 or block=False polls"""
    empty = c.raiser('queue.Empty')
    block = c.raiser('Deadlock', 'get on a queue that stays empty')
    made = []

    def mkq(_i, args, kwargs):
        items = []

        def put(_i2, a, k):
            items.append(a[0])

        def get(_i2, a, k):
            blocking = a[0] if a else k.get('block', True)
            timeout = a[1] if len(a) > 1 else k.get('timeout')
            if not items and blocking is True and (timeout is None or timeout > 0):
                while_waiting()
                if not items and timeout is None:
                    return block()
            if not items:
                return empty()
            return items.pop(0)
        made.append(c.ext('rxq%d' % len(made), returns={'put': put, 'get': get}))
        return made[-1]
    c.patch(CPX + ':queue', c.ext('queue', returns={'Queue': mkq}))


@contract('C18', 'router.makeTransaction.answer_while_waiting', ROUTER + [CPX + ':CPXRouter.makeTransaction', CPX + ':CPXRouter.sendPacket', CPX + ':CPX.makeTransaction'],
          clause='received packets are queued per function in arrival order and handed only to receivers of that function: a transaction whose '
                 'answer has not arrived when the request has been written WAITS for it (it does not give up or return something else) and '
                 'returns the first packet of its function that arrives; packets of other functions arriving first are kept for their receivers',
          bounded='the function was registered before; the router dispatches the arrivals (other function, same function) only while the client '
                  'waits inside the queue get of receivePacket (explicit schedule, FIFO queue model of this file)')
def transaction_waits(c):
    c.int('f', 0, 63), c.int('g', 0, 63)
    c.require('f != g')
    x, y = stub_packet(c, 'x', c.get('g')), stub_packet(c, 'y', c.get('f'))
    p = stub_packet(c, 'p', c.get('f'))
    c.let('x', x), c.let('y', y), c.let('p', p)
    holder = {'sent_before_wait': None}

    def router_runs():
        if 'router' in holder and holder['sent_before_wait'] is None:
            holder['sent_before_wait'] = holder.get('writes', 0)
            holder['ended'] = c.invoke_catch((holder['router'], 'run'))
    waiting_queues(c, router_runs)

    def written(*_a):
        holder['writes'] = holder.get('writes', 0) + 1
    tr = c.ext('transport', returns={'readPacket': scripted(c, [x, y]), 'writePacket': written})
    router = c.new(CPX + ':CPXRouter', tr)
    facade = c.obj(CPX + ':CPX', _router=router)
    fn_f, fn_g = c.ext('fn_f', attrs={'value': c.get('f')}), c.ext('fn_g', attrs={'value': c.get('g')})
    for fn in (fn_f, fn_g):
        c.call((router, 'receivePacket'), fn, timeout=0)
        c.ensure('registered-nothing-yet', "raised == 'queue.Empty'")
    holder['router'] = router
    c.reset_trace()
    c.call((facade, 'makeTransaction'), p)
    c.let('sent_before_wait', holder['sent_before_wait']), c.let('ended', holder.get('ended'))
    c.ensure('waited-and-got-the-answer', 'raised is None and is_same(result, y)')
    c.ensure('request-was-on-its-way-before-the-wait-and-written-once', "sent_before_wait == 1 and len(sent('transport.writePacket')) == 1 and "
             "is_same(sent('transport.writePacket')[0][1][0], p) and ended == 'StopLoop'")
    c.call((router, 'receivePacket'), fn_g, timeout=0)
    c.ensure('other-function-packet-kept-for-its-receiver', 'raised is None and is_same(result, x)')


@contract('C18', 'router.makeTransaction.first_use_of_function', ROUTER + [CPX + ':CPXRouter.makeTransaction', CPX + ':CPXRouter.sendPacket', CPX + ':CPX.makeTransaction'],
          clause='received packets are queued per function in arrival order and handed to receivers of that function: the answer to a '
                 'transaction is handed to the transaction also when this is the first use of the function on this router and the router '
                 'thread reads the answer before the client thread has returned from the transport write',
          bounded='one arrival (the answer), dispatched by the router while the client is still inside transport.writePacket (explicit schedule)',
          thorough_only=True)
def transaction_first_use(c):
    """RED ON THE UNCHANGED TREE (candidate finding, see the report of the extension round): makeTransaction creates the queue of
    the function only AFTER the request has been written (receivePacket does it), so an answer the router thread reads before
    that is dropped by run() ("function not in _rxQueues") and the transaction waits for ever."""
    c.int('f', 0, 63)
    model_queues(c)
    y = stub_packet(c, 'y', c.get('f'))
    p = stub_packet(c, 'p', c.get('f'))
    c.let('y', y), c.let('p', p)
    holder = {}

    def router_runs(*_a):
        holder['ended'] = c.invoke_catch((holder['router'], 'run'))
    tr = c.ext('transport', returns={'readPacket': scripted(c, [y]), 'writePacket': router_runs})
    router = holder['router'] = c.new(CPX + ':CPXRouter', tr)
    facade = c.obj(CPX + ':CPX', _router=router)
    c.call((facade, 'makeTransaction'), p)
    c.ensure('answer-is-handed-to-the-transaction', 'raised is None and is_same(result, y)')


# ------------------------------------------------------------------------- closing the link

CLOSE = [CPX + ':CPX.close', CPX + ':CPXRouter.transport', TRN + ':SocketTransport.disconnect']


@contract('C18', 'cpx.close', CLOSE + ROUTER + CONN + SOCK + CODEC,
          clause='closing the link ends the re-assembly: CPX.close() shuts down and closes the connection of the transport exactly once and '
                 'the router loop terminates (its next turn does not touch the closed connection); packets dispatched before the close '
                 'stay available to their receivers, intact and in order',
          bounded='one sequential schedule: two frames (payload lengths 1 and 0, function CRTP) are dispatched, then the loop blocks on the '
                  'exhausted stream, then close(), then the loop is resumed; all fragmentations', max_paths=2000)
def cpx_close(c):
    lens = (1, 0)
    tx0 = transport(c, c.ext('wsock'))
    for i, n in enumerate(lens):
        c.call((tx0, 'writePacket'), fixed_packet(c, str(i), HEADERS[0], n))
    c.snapshot('S', "bytes(sent('wsock.send')[0][1][0]) + bytes(sent('wsock.send')[1][1][0])")
    sock, st = stream_socket(c, 'sock0', 'S', 9)
    socket_module(c, [sock])
    router = c.new(CPX + ':CPXRouter', c.new(TRN + ':SocketTransport', 'aideck.local', 5000))
    facade = c.obj(CPX + ':CPX', _router=router)
    crtp = c.new(CPX + ':CPXFunction', 3)
    c.call((facade, 'receivePacket'), crtp, timeout=0)
    c.call((router, 'run'))
    c.let('pos', st['pos'])
    c.ensure('loop-reads-the-whole-stream-then-blocks', "raised == 'Deadlock' and pos == 9")
    c.reset_trace()
    c.call((facade, 'close'))
    c.ensure('connection-closed-exactly-once', "raised is None and len(sent('sock0.close')) == 1 and calls('sock0')[-1] == 'sock0.close'")
    c.reset_trace()
    c.call((router, 'run'))
    c.ensure('router-loop-terminates-without-touching-the-closed-connection', "raised is None and len(calls('sock0')) == 0")
    got = drain(c, router, crtp, 2, 'r')
    c.let('got', got)
    c.ensure('both-packets-still-delivered', "got == 2 and raised == 'queue.Empty'")
    for i in range(min(got, 2)):
        c.ensure('packet-%d-intact' % i, same_packet(i))


def _close_during_read(lens):
    total = sum(n + 4 for n in lens)

    @contract('C18', 'cpx.close.during_read.' + '_'.join(str(n) for n in lens), CLOSE + ROUTER + CONN + SOCK + CODEC,
              clause='a TCP byte stream carrying a sequence of packets is re-assembled into exactly that sequence however the stream is '
                     'fragmented - also when the link is closed in the middle of a frame: every packet handed to a receiver is a packet of '
                     'the stream with fields and payload intact, in order (a prefix of the sequence); a frame cut short by close() is never '
                     'delivered as a (truncated) packet; the router loop terminates',
              bounded='frames with payload lengths %s (function CRTP); close() is called by the application thread during the k-th recv, '
                      'k = every recv of every fragmentation (explicit schedule: inside sock.recv, which then still returns its chunk)' % (list(lens),),
              max_paths=6000, thorough_only=True)
    def k(c):
        """RED ON THE UNCHANGED TREE (candidate finding, see the report of the extension round): disconnect() sets _socket = None,
        _readData leaves its loop with the bytes it has, and readPacket decodes a frame whose payload is cut short."""
        tx0 = transport(c, c.ext('wsock'))
        for i, n in enumerate(lens):
            c.call((tx0, 'writePacket'), fixed_packet(c, str(i), HEADERS[0], n))
        c.snapshot('S', ' + '.join("bytes(sent('wsock.send')[%d][1][0])" % i for i in range(len(lens))))
        sock, st = stream_socket(c, 'sock0', 'S', total)
        inner = sock.returns['recv'] if c.backend == 'sym' else sock.__dict__['_returns']['recv']
        when = c.choice('close_during_recv', list(range(total)))
        holder = {'n': 0, 'closed': False}

        def recv(i_, args, kwargs):
            if holder['closed']:
                return c.raiser('OSError', 'recv on a closed socket')()
            if holder['n'] == when:
                holder['closed'] = True
                c.invoke((holder['facade'], 'close'))
            holder['n'] += 1
            return inner(i_, args, kwargs)
        if c.backend == 'sym':
            sock.returns['recv'] = recv
        else:
            sock.__dict__['_returns']['recv'] = recv
        socket_module(c, [sock])
        router = c.new(CPX + ':CPXRouter', c.new(TRN + ':SocketTransport', 'aideck.local', 5000))
        facade = holder['facade'] = c.obj(CPX + ':CPX', _router=router)
        crtp = c.new(CPX + ':CPXFunction', 3)
        c.call((facade, 'receivePacket'), crtp, timeout=0)
        c.call((router, 'run'))
        c.require("raised != 'Deadlock'")           # schedules in which the stream ended before the k-th recv: no close happened
        c.ensure('router-loop-terminates', 'raised is None')
        got = drain(c, router, crtp, len(lens), 'r')
        c.let('got', got)
        c.ensure('at-most-the-packets-of-the-stream', "got <= %d and raised == 'queue.Empty'" % len(lens))
        for i in range(min(got, len(lens))):
            c.ensure('delivered-packet-%d-is-packet-%d-of-the-stream-intact' % (i, i), same_packet(i))
    return k


_close_during_read((1, 3))


# ------------------------------------------------------------------------- the application's end of the downlink

def _receive_packet(mod, cls):
    short = mod.rsplit('.', 1)[1]

    @contract('C18', '%s.receive_packet' % cls, [mod + ':%s.receive_packet' % cls],
              clause='CRTP packets tunnelled through CPX arrive unchanged (last hop of the downlink): receive_packet hands the application '
                     'the packets the receive thread queued - the identical objects, each exactly once, in arrival order - for every wait '
                     'mode (0 = poll, negative = wait for ever, positive = wait that long); an empty queue gives None in the modes that may '
                     'give up and keeps waiting (never a made-up packet) in the wait-for-ever mode',
              bounded='three queued packets, four calls in one mode; wait values: 0, any negative, any positive number')
    def k(c):
        mode = c.choice('mode', ['poll', 'forever', 'timed', 'default'])
        if mode == 'forever':
            c.int('wait', -1000, -1)
        elif mode == 'timed':
            c.int('wait', 1, 1000)
        pks = [c.ext('crtp%d' % i) for i in range(3)]
        c.let('pks', tuple(pks))
        drv = c.new(mod + ':' + cls)
        c.let('drv', drv)
        c.let('inq', c.queue('inq', pks))
        c.snapshot('_', 'setattr(drv, "in_queue", inq)')
        args = (0,) if mode == 'poll' else () if mode == 'default' else (c.get('wait'),)
        for i in range(3):
            c.call((drv, 'receive_packet'), *args)
            c.ensure('packet-%d-in-arrival-order' % i, 'raised is None and is_same(result, pks[%d]) and inq.qsize() == %d' % (i, 2 - i))
        c.call((drv, 'receive_packet'), *args)
        if mode == 'forever':
            c.ensure('keeps-waiting', "raised == 'Deadlock'")
        else:
            c.ensure('empty-queue-gives-None', 'raised is None and result is None')
    return k


_receive_packet(TCP, 'TcpDriver')
_receive_packet(SER, 'SerialDriver')


# ------------------------------------------------------------------------- UART flow control: writer and reader thread (explicit schedule)

@contract('C18', 'uart.write.second_frame_waits_for_clear_to_send', UART + [TRN + ':UARTTransport.writePacket', TRN + ':UARTTransport.readPacket'] + CODEC[:2],
          clause='CRTP packets tunnelled through CPX arrive unchanged (serial link, flow control): a second packet is put on the line only '
                 'after the peer answered the first frame with a clear-to-send token and the reader thread consumed it; then it goes out as '
                 'one intact frame, after the first; without the token nothing more is written (the writer keeps waiting)',
          bounded='two packets (payload lengths 1 and 2); schedule: while the writer waits for the clear-to-send lock the reader thread '
                  'runs readPacket on the peer\'s bytes (token or nothing) until it blocks on the port', max_paths=200)
def uart_second_frame(c):
    answered = c.choice('peer_sends_clear_to_send', [True, False])
    a = fixed_packet(c, '0', HEADERS[1], 1)
    b = fixed_packet(c, '1', HEADERS[3], 2)
    holder = {'runs': 0}

    def reader_thread():
        holder['runs'] += 1
        holder['reader'] = c.invoke_catch((holder['tx'], 'readPacket'))
    lk = c.lock('cts', on_block=reader_thread)
    c.let('cts', lk)
    tx, st = uart(c, "b'\\xff\\x00'" if answered else 'b""', 2 if answered else 0, lock=lk)
    holder['tx'] = tx
    c.call((tx, 'writePacket'), a)
    c.ensure('first-frame-written-at-once', "raised is None and len(sent('ser.write')) == 1 and cts.locked()")
    c.call((tx, 'writePacket'), b)
    c.let('runs', holder['runs']), c.let('reader', holder.get('reader')), c.let('wpos', tuple(st['wpos'][1:]))
    c.ensure('writer-had-to-wait-reader-ran-until-it-blocked-on-the-port', "runs == 1 and reader == 'Deadlock'")
    c.snapshot('f0', "bytes(sent('ser.write')[0][1][0])")
    c.ensure('first-frame-intact', "f0[:-1] == pack('<BBBB', 0xFF, 3, (%d << 3) | %d, %d) + bytes(pay0) and f0[-1] == (%s)" % (
        HEADERS[1][0], HEADERS[1][1], HEADERS[1][2], xor_of('f0', 5)))
    if answered:
        c.ensure('second-frame-written-after-the-token-was-consumed', "raised is None and len(sent('ser.write')) == 2 and wpos == (2, 4)")
        if len(c.get('trace')) and c.snapshot('nw', "len(sent('ser.write'))") == 2:
            c.snapshot('f1', "bytes(sent('ser.write')[1][1][0])")
            c.ensure('second-frame-intact', "f1[:-1] == pack('<BBBB', 0xFF, 4, (%d << 3) | %d | 0x40, %d) + bytes(pay1) and f1[-1] == (%s)" % (
                HEADERS[3][0], HEADERS[3][1], HEADERS[3][2], xor_of('f1', 6)))
        c.ensure('waits-for-the-next-token', 'cts.locked()')
    else:
        c.ensure('nothing-more-written-writer-keeps-waiting', "raised == 'Deadlock' and len(sent('ser.write')) == 1 and wpos == (2,)")


# ------------------------------------------------------------------------- whole sessions of the drivers (connect - use - close - connect)

def budgeted_facade(c, modref, holder):
    """`CPX` of a driver module replaced by a factory that builds the REAL facade (router thread recorded, not started) and hands the
    driver a forwarding stub: sendPacket / close / makeTransaction go to the real facade unchanged; receivePacket is forwarded while
    holder['polls'] > 0 and afterwards leaves the endless receive loop with StopLoop (the schedule: receive thread pre-empted)."""
    stop = c.raiser('StopLoop', 'schedule: receive loop pre-empted')

    def make(_i, args, kwargs):
        real = c.new(CPX + ':CPX', *args, **kwargs)
        holder.setdefault('facades', []).append(real)

        def fwd(meth):
            return lambda _i2, a, k: c.invoke((real, meth), *a, **k)

        def poll(_i2, a, k):
            if holder.get('polls', 0) <= 0:
                return stop()
            holder['polls'] -= 1
            return c.invoke((real, 'receivePacket'), *a, **k)
        return c.ext('cpx%d' % (len(holder['facades']) - 1),
                     returns={'sendPacket': fwd('sendPacket'), 'close': fwd('close'), 'makeTransaction': fwd('makeTransaction'), 'receivePacket': poll})
    c.patch(modref + ':CPX', c.ext('CPX', returns={'()': make}))


def run_thread(c, holder, thr, polls):
    holder['polls'] = polls
    return c.invoke_catch((thr, 'run'))


SESSION_TCP = [TCP + ':TcpDriver.__init__', TCP + ':TcpDriver.connect', TCP + ':TcpDriver.send_packet', TCP + ':TcpDriver.receive_packet', TCP + ':TcpDriver.close',
               TCP + ':_CPXReceiveThread.__init__', TCP + ':_CPXReceiveThread.run', TCP + ':_CPXReceiveThread.stop', CPX + ':CPX.__init__',
               CPX + ':CPX.sendPacket', CPX + ':CPX.receivePacket', CPX + ':CPX.close', CPX + ':CPXRouter.transport', CPX + ':CPXRouter.sendPacket',
               STK + ':CRTPPacket.__init__'] + ROUTER + CONN + SOCK + CODEC


@contract('C18', 'tcpdriver.session', SESSION_TCP,
          clause='CRTP packets tunnelled through CPX arrive with header and payload unchanged in both directions, over whole sessions of the '
                 'real driver (real facade, router, TCP transport on a stubbed socket module): connect opens one connection to the host and '
                 'port of the URI, starts the router thread and the receive thread once each and switches the peer\'s bridge on with the first '
                 'frame; an uplink packet is the next frame; downlink frames reach receive_packet in order, intact; close stops the receive '
                 'thread (it polls no more), ends the router loop and closes the connection; a second connect works on a NEW connection, '
                 'and the application then receives exactly the packets of the new stream (a packet of the old session that was never '
                 'fetched is not delivered into the new one)',
          bounded='one sequential schedule per step (receive thread polls once to register, router loop runs until the stream is exhausted, receive '
                  'thread polls twice), recv returns as much as it may (fragmentation: tcp.reassembly.*, pipeline.*); session 0: frames CRTP[h, d], '
                  'APP[], CRTP[h], CRTP[h] - the application fetches one, one stays in the driver\'s queue, one in the router\'s; session 1: '
                  'CRTP[h, d, d]; one uplink packet with any header and two payload bytes', max_paths=200)
def tcp_session(c):
    c.virtual_time()
    peer = transport(c, c.ext('wsock'))         # the peer's writer
    lens = (2, 0, 1, 1, 3)
    heads = (HEADERS[0], HEADERS[1], HEADERS[2], HEADERS[0], HEADERS[0])
    for i, n in enumerate(lens):
        c.call((peer, 'writePacket'), fixed_packet(c, str(i), heads[i], n))
    c.snapshot('S0', ' + '.join("bytes(sent('wsock.send')[%d][1][0])" % i for i in range(4)))
    c.snapshot('S1', "bytes(sent('wsock.send')[4][1][0])")
    s0, st0 = stream_socket(c, 'sock0', 'S0', 6 + 4 + 5 + 5, greedy=True)
    s1, st1 = stream_socket(c, 'sock1', 'S1', 7, greedy=True)
    socket_module(c, [s0, s1])
    holder = {}
    budgeted_facade(c, TCP, holder)
    c.int('h', 0, 255)
    up = c.new(STK + ':CRTPPacket', c.get('h'), c.bytes('data', 2))
    link_error = c.ext('link_error')
    drv = c.new(TCP + ':TcpDriver')
    c.let('drv', drv)
    c.reset_trace()

    def connect(session):
        c.call((drv, 'connect'), 'tcp://192.168.4.1:5123', None, link_error)
        sk = 'sock%d' % session
        c.ensure('s%d-connect-no-exception' % session, 'raised is None')
        c.ensure('s%d-one-connection-to-the-host-and-port-of-the-uri' % session,
                 "len(sent('socket.socket')) == 1 and sent('socket.socket')[0][1] == (2, 1) and sent('%s.connect')[0][1] == (('192.168.4.1', 5123),)" % sk)
        c.ensure('s%d-router-and-receive-thread-started-once-each' % session,
                 "len(sent('thread:CPXRouter.start')) == 1 and len(sent('thread:_CPXReceiveThread.start')) == 1")
        c.ensure('s%d-first-frame-switches-the-bridge-to-cpx' % session,
                 "len(sent('%s.send')) >= 1 and bytes(sent('%s.send')[0][1][0]) == pack('<HBBBB', 4, (3 << 3) | 1, 1, 0x21, 0x01)" % (sk, sk))
        router = c.snapshot('router%d' % session, "sent('thread:CPXRouter.start')[0][1][0]")
        thr = c.snapshot('thr%d' % session, "sent('thread:_CPXReceiveThread.start')[0][1][0]")
        return router, thr

    router, thr = connect(0)
    c.reset_trace()
    c.call((drv, 'send_packet'), up)
    c.ensure('s0-uplink-is-the-next-frame', "raised is None and calls('sock0') == ('sock0.send',) and "
             "bytes(sent('sock0.send')[0][1][0]) == pack('<HBBB', 5, (3 << 3) | 1, 3, h | 0x0C) + data")
    c.let('e1', run_thread(c, holder, thr, 1))                  # registers the CRTP receiver, nothing there yet
    c.call((router, 'run'))
    c.let('pos0', st0['pos'])
    c.ensure('s0-router-reads-the-whole-stream', "raised == 'Deadlock' and pos0 == 20")
    c.let('e2', run_thread(c, holder, thr, 2))
    c.ensure('s0-receive-loop-survives', "e1 == 'StopLoop' and e2 == 'StopLoop' and len(calls('link_error')) == 0")
    c.call((drv, 'receive_packet'), 0)
    c.snapshot('a', 'result')
    c.ensure('s0-first-crtp-packet', "raised is None and typename(a) == 'CRTPPacket' and a.header == pay0[0] | 0x0C and a.port == pay0[0] >> 4 and "
             "a.channel == pay0[0] & 3 and bytes(a.data) == bytes(pay0[1:])")
    # the second CRTP packet of session 0 (pay2) stays in the driver's queue - the application never fetched it - and the third (pay3)
    # in the router's queue: the receive thread never fetched it
    c.reset_trace()
    c.call((drv, 'close'))
    c.ensure('s0-close', "raised is None and len(sent('sock0.close')) == 1 and calls('sock0')[-1] == 'sock0.close' and "
             "len(sent('thread:_CPXReceiveThread.join')) >= 1")
    c.reset_trace()
    c.let('e3', run_thread(c, holder, thr, 5))
    c.let('left', holder['polls'])
    c.ensure('s0-receive-thread-stopped-polls-no-more', 'e3 is None and left == 5')
    c.call((router, 'run'))
    c.ensure('s0-router-loop-ended-old-connection-untouched', "raised is None and len(calls('sock0')) == 0")
    c.reset_trace()
    router1, thr1 = connect(1)
    c.ensure('s1-new-threads', 'not is_same(router1, router0) and not is_same(thr1, thr0)')
    c.let('e4', run_thread(c, holder, thr1, 1))
    c.call((router1, 'run'))
    c.let('pos1', st1['pos'])
    c.ensure('s1-router-reads-the-new-stream', "raised == 'Deadlock' and pos1 == 7")
    c.let('e5', run_thread(c, holder, thr1, 2))
    c.ensure('s1-receive-loop-survives', "e4 == 'StopLoop' and e5 == 'StopLoop' and len(calls('link_error')) == 0")
    c.call((drv, 'receive_packet'), 0)
    c.snapshot('b', 'result')
    c.ensure('s1-application-gets-the-packet-of-the-new-stream', "raised is None and typename(b) == 'CRTPPacket' and b.header == pay4[0] | 0x0C and "
             "bytes(b.data) == bytes(pay4[1:])")
    c.call((drv, 'receive_packet'), 0)
    c.ensure('s1-and-nothing-else', 'raised is None and result is None')
    c.ensure('s1-old-connection-never-used-again', "len(calls('sock0')) == 0")


SESSION_SER = [SER + ':SerialDriver.__init__', SER + ':SerialDriver.connect', SER + ':SerialDriver.get_devices', SER + ':SerialDriver.send_packet',
               SER + ':SerialDriver.receive_packet', SER + ':SerialDriver.close', SER + ':_CPXReceiveThread.__init__', SER + ':_CPXReceiveThread.run',
               SER + ':_CPXReceiveThread.stop', CPX + ':CPX.__init__', CPX + ':CPX.sendPacket', CPX + ':CPX.receivePacket', CPX + ':CPX.close',
               CPX + ':CPXRouter.transport', CPX + ':CPXRouter.sendPacket', TRN + ':UARTTransport.writePacket', TRN + ':UARTTransport.readPacket',
               TRN + ':UARTTransport.disconnect', STK + ':CRTPPacket.__init__'] + UART + ROUTER + CODEC


def uart_frame(body):
    """spec expression: the UART frame around the CPX wire data `body` (a spec expression of known length is not needed)"""
    return "(lambda w: bytes([0xFF, len(w)]) + w + bytes([xor_all(bytes([0xFF, len(w)]) + w)]))(%s)" % body


@contract('C18', 'serialdriver.session', SESSION_SER,
          clause='CRTP packets tunnelled through CPX arrive with header and payload unchanged in both directions, over a whole session of the '
                 'real serial driver (real facade, router, UART transport on a stubbed pyserial): connect opens the device the URI names, '
                 'synchronises, starts the router thread and the receive thread once each and sends the two bridge set-up packets as two intact '
                 'frames, the second only after the peer\'s clear-to-send; an uplink packet is the next frame, again after a clear-to-send; a '
                 'downlink frame between the tokens reaches receive_packet intact and is answered with a clear-to-send; close stops the receive '
                 'thread, ends the router loop and closes the port',
          bounded='one schedule: whenever the writer waits for the clear-to-send lock, the receive thread polls once and the router thread reads '
                  'what the peer has sent so far until it blocks on the port; the peer answers every data frame with one token and sends one '
                  'CRTP frame [h, d0, d1] after the second set-up frame; one uplink packet with any header and two payload bytes', max_paths=200)
def serial_session(c):
    c.virtual_time()
    c.int('hd', 0, 255), c.bytes('dd', 2)
    c.snapshot('down_wire', "pack('<BBB', (1 << 3) | 3, 3, hd) + dd")
    c.snapshot('down_frame', "bytes([0xFF, 5]) + down_wire + bytes([%s])" % xor_of("(bytes([0xFF, 5]) + down_wire)", 7))
    cts = "b'\\xff\\x00'"
    holder = {'hooks': 0, 'log': []}

    def other_threads():
        holder['hooks'] += 1
        lk.on_block = other_threads                 # the schedule applies to every wait
        if 'thr' not in holder:
            holder['thr'] = c.snapshot('thr', "sent('thread:_CPXReceiveThread.start')[0][1][0]")
            holder['router'] = c.snapshot('router', "sent('thread:CPXRouter.start')[0][1][0]")
        holder['log'].append((run_thread(c, holder, holder['thr'], 1), c.invoke_catch((holder['router'], 'run'))))
    lk = c.lock('cts', on_block=other_threads)
    c.let('cts', lk)
    port_dev = c.ext('portinfo', attrs={'name': 'ttyUSB0', 'device': '/dev/ttyUSB0'})
    other_dev = c.ext('portinfo2', attrs={'name': '', 'device': '/dev/ttyS0'})
    c.patch(SER + ':list_ports', c.ext('list_ports', returns={'comports': lambda *_a: c.list([other_dev, port_dev])}), create=True)
    budgeted_facade(c, SER, holder)
    model_queues(c)                                 # the router's queues: an empty poll gives up at once instead of after a real second
    gates = [2 + 2, 2 + 2 + 2 + 8, 2 + 2 + 2 + 8 + 2]      # what the peer has sent after the host's 1st, 2nd, 3rd data frame
    c.int('h', 0, 255)
    up = c.new(STK + ':CRTPPacket', c.get('h'), c.bytes('data', 2))
    link_error = c.ext('link_error')
    drv = c.new(SER + ':SerialDriver')
    c.let('drv', drv)

    # uart(): builds nothing here - the driver does; it installs the port model and the lock
    st = {'pos': 0, 'wpos': [], 'dpos': [], 'limit': 2, 'frames': 0}
    block = c.raiser('Deadlock', 'read on a serial port with nothing to read blocks for ever')
    c.snapshot('uart_stream', "b'\\xff\\x00' + %s + %s + down_frame + %s" % (cts, cts, cts))

    def read(_i, args, _k):
        n = args[0]
        if type(n) is not int:
            from pyvc.core import OutOfSubset
            raise OutOfSubset('serial model: read size must be a concrete int, got %r' % (n,))
        if st['pos'] + n > st['limit']:
            return block()
        lo = st['pos']
        st['pos'] = lo + n
        return c.snapshot('_chunk', 'bytes(uart_stream[%d:%d])' % (lo, lo + n))

    def write(_i, args, _k):
        st['wpos'].append(st['pos'])
        if c.snapshot('_wl', "len(sent('ser.write')[-1][1][0])") > 2:          # a data frame: the peer answers / goes on
            st['dpos'].append(st['pos'])
            st['limit'] = gates[min(st['frames'], len(gates) - 1)]
            st['frames'] += 1
    port = c.ext('ser', returns={'read': read, 'write': write})
    c.patch(TRN + ':serial', c.ext('serial', returns={'Serial': lambda *_a: port}), create=True)
    c.patch(TRN + ':Lock', c.ext('Lock', returns={'()': lambda *_a: lk}))
    c.reset_trace()
    c.call((drv, 'connect'), 'serial://ttyUSB0', None, link_error)
    c.ensure('connect-no-exception', 'raised is None')
    c.ensure('opens-the-device-the-uri-names', "len(sent('serial.Serial')) == 1 and sent('serial.Serial')[0][1][0] == '/dev/ttyUSB0'")
    c.ensure('router-and-receive-thread-started-once-each', "len(sent('thread:CPXRouter.start')) == 1 and len(sent('thread:_CPXReceiveThread.start')) == 1")
    c.snapshot('w', "tuple(bytes(e[1][0]) for e in sent('ser.write') if len(e[1][0]) > 2)")
    c.let('wpos', tuple(st['dpos']))             # how much of the peer's stream had been consumed when each data frame was written
    c.ensure('two-set-up-frames-intact-in-order', "len(w) == 2 and w[0][:-1] == pack('<BBBBBB', 0xFF, 4, (3 << 3) | 1, 1, 0x21, 0x01) and "
             "w[1][:-1] == pack('<BBBBBB', 0xFF, 4, (3 << 3) | 1, 1, 0x20, 0x01) and w[0][-1] == (%s) and w[1][-1] == (%s)" % (
                 xor_of('w[0]', 6), xor_of('w[1]', 6)))
    c.ensure('second-frame-only-after-the-first-clear-to-send', 'wpos == (2, 4)')
    c.reset_trace()
    c.call((drv, 'send_packet'), up)
    c.snapshot('w', "tuple(bytes(e[1][0]) for e in sent('ser.write') if len(e[1][0]) > 2)")
    c.ensure('uplink-frame-intact', "raised is None and len(w) == 1 and w[0][:-1] == pack('<BBBBB', 0xFF, 5, (3 << 3) | 1, 3, h | 0x0C) + data "
             "and w[0][-1] == (%s)" % xor_of('w[0]', 7))
    c.ensure('downlink-frame-answered-with-clear-to-send', "len([e for e in sent('ser.write') if bytes(e[1][0]) == b'\\xff\\x00']) == 1")
    c.let('hooks', holder['hooks']), c.let('log', tuple(holder['log']))
    c.ensure('schedule-ran-as-described', "hooks == 2 and log == (('StopLoop', 'Deadlock'), ('StopLoop', 'Deadlock'))")
    thr, router = c.get('thr'), c.get('router')
    c.let('e1', run_thread(c, holder, thr, 2))
    c.ensure('receive-loop-survives', "e1 == 'StopLoop' and len(calls('link_error')) == 0")
    c.call((drv, 'receive_packet'), 0)
    c.snapshot('a', 'result')
    c.ensure('downlink-packet-intact', "raised is None and typename(a) == 'CRTPPacket' and a.header == hd | 0x0C and a.port == hd >> 4 and "
             "a.channel == hd & 3 and bytes(a.data) == dd")
    c.call((drv, 'receive_packet'), 0)
    c.ensure('and-nothing-else', 'raised is None and result is None')
    c.reset_trace()
    c.call((drv, 'close'))
    c.ensure('close', "raised is None and len(sent('ser.close')) == 1 and calls('ser')[-1] == 'ser.close'")
    c.reset_trace()
    c.let('e2', run_thread(c, holder, thr, 5))
    c.let('left', holder['polls'])
    c.ensure('receive-thread-stopped-polls-no-more', 'e2 is None and left == 5')
    c.call((router, 'run'))
    c.ensure('router-loop-ended-port-untouched', "raised is None and len(calls('ser')) == 0")


# ------------------------------------------------------------------------- receive threads: sequences, idle polls, errors, stop

def decoded(c, wire_expr):
    cp = c.new(CPX + ':CPXPacket')
    c.invoke((cp, '_set_wire_data'), c.snapshot('_wire', 'bytearray(%s)' % wire_expr))
    return cp


def _thread_sequence(mod):
    short = mod.rsplit('.', 1)[1]

    @contract('C18', '%s.receive_thread.sequence' % short, [mod + ':_CPXReceiveThread.__init__', mod + ':_CPXReceiveThread.run', CODEC[2], STK + ':CRTPPacket.__init__'],
              clause='downlink: a SEQUENCE of CPX packets of function CRTP becomes exactly that sequence of CRTP packets on the driver\'s queue - '
                     'same order, headers and payloads unchanged, none twice - also when polls in between find nothing (queue.Empty), when a packet '
                     'without a CRTP header comes in between (skipped), and when the router raises: that error is reported through the link-error '
                     'callback exactly once, is not taken for a packet, and the packets behind it are still delivered',
              bounded='events in this order: packet [h0, d0 d1], idle poll, packet [] (no CRTP header), packet [h1], RuntimeError from the facade, idle '
                      'poll, packet [h2, d2]; all header bytes')
    def k(c):
        c.int('h0', 0, 255), c.int('h1', 0, 255), c.int('h2', 0, 255)
        c.bytes('d0', 2), c.bytes('d2', 1)
        hdr = "pack('<BB', (1 << 3) | 3, 3)"
        p0 = decoded(c, hdr + " + pack('<B', h0) + d0")
        pe = decoded(c, hdr)
        p1 = decoded(c, hdr + " + pack('<B', h1)")
        p2 = decoded(c, hdr + " + pack('<B', h2) + d2")
        empty = c.raiser('queue.Empty')
        boom = c.raiser('RuntimeError', 'router failed')
        events = [p0, empty, pe, p1, boom, empty, p2]
        leave = c.raiser('StopLoop', 'script exhausted')

        def nxt(*_a):
            if not events:
                return leave()
            e = events.pop(0)
            return e() if callable(e) and e in (empty, boom) else e
        thr = c.new(mod + ':_CPXReceiveThread', c.ext('cpx', returns={'receivePacket': nxt}), c.queue('inq'), c.ext('link_error'))
        c.reset_trace()
        c.call((thr, 'run'))
        c.ensure('loop-survives-everything-in-the-script', "raised == 'StopLoop' and len(sent('cpx.receivePacket')) == 8")
        c.ensure('error-reported-exactly-once', "len(calls('link_error')) == 1")
        c.ensure('exactly-the-three-crtp-packets-queued', 'len(inq.queue) == 3')
        if c.snapshot('queued', 'len(inq.queue)') == 3:
            c.snapshot('a', 'inq.queue[0]'), c.snapshot('b', 'inq.queue[1]'), c.snapshot('d', 'inq.queue[2]')
            c.ensure('in-order-headers', 'a.header == h0 | 0x0C and b.header == h1 | 0x0C and d.header == h2 | 0x0C and '
                                         'a.port == h0 >> 4 and b.port == h1 >> 4 and d.port == h2 >> 4 and '
                                         'a.channel == h0 & 3 and b.channel == h1 & 3 and d.channel == h2 & 3')
            c.ensure('in-order-payloads', 'bytes(a.data) == d0 and bytes(b.data) == b"" and bytes(d.data) == d2')
    return k


_thread_sequence(TCP)
_thread_sequence(SER)


def _thread_stop(mod):
    short = mod.rsplit('.', 1)[1]

    @contract('C18', '%s.receive_thread.stop' % short, [mod + ':_CPXReceiveThread.__init__', mod + ':_CPXReceiveThread.run', mod + ':_CPXReceiveThread.stop',
                                                        CODEC[2], STK + ':CRTPPacket.__init__'],
              clause='downlink, stopping the link: a packet the receive thread has already taken from the router when stop() is called is still '
                     'put on the driver\'s queue unchanged (taken from the router == delivered, nothing is lost in between); after that the loop '
                     'ends without asking the router again; a thread stopped before it runs asks for nothing',
              bounded='stop() is called by the application thread while the receive thread is inside cpx.receivePacket, which then returns a '
                      'packet [h, d0 d1] (explicit schedule), or before run(); the join of the real stop() is recorded, not executed')
    def k(c):
        c.virtual_time()
        c.int('h', 0, 255), c.bytes('d', 2)
        early = c.choice('stop_before_run', [False, True])
        p = decoded(c, "pack('<BBB', (1 << 3) | 3, 3, h) + d")
        holder = {}

        def poll(*_a):
            c.invoke((holder['thr'], 'stop'))
            return p
        thr = holder['thr'] = c.new(mod + ':_CPXReceiveThread', c.ext('cpx', returns={'receivePacket': poll}), c.queue('inq'), c.ext('link_error'))
        if early:
            c.invoke((thr, 'stop'))
        c.reset_trace()
        c.call((thr, 'run'))
        if early:
            c.ensure('asks-for-nothing', "raised is None and len(sent('cpx.receivePacket')) == 0 and len(inq.queue) == 0")
        else:
            c.ensure('loop-ends-after-the-packet', "raised is None and len(sent('cpx.receivePacket')) == 1 and len(calls('link_error')) == 0")
            c.ensure('taken-packet-is-delivered', 'len(inq.queue) == 1')
            if c.snapshot('queued', 'len(inq.queue)') == 1:
                c.snapshot('a', 'inq.queue[0]')
                c.ensure('unchanged', 'a.header == h | 0x0C and a.port == h >> 4 and a.channel == h & 3 and bytes(a.data) == d')
    return k


_thread_stop(TCP)
_thread_stop(SER)


@contract('C18', 'tcpdriver.uplink.sequence', [TCP + ':TcpDriver.__init__', TCP + ':TcpDriver.send_packet', CPX + ':CPX.sendPacket', CPX + ':CPXRouter.sendPacket',
                                               TRN + ':SocketTransport.writePacket'] + CODEC,
          clause='uplink: a SEQUENCE of CRTP packets handed to the driver leaves as exactly that sequence of frames on the stream - one frame per '
                 'packet, in order, each with its own header byte and payload (nothing of an earlier packet in a later frame), and the peer '
                 're-assembles the stream into the same sequence',
          bounded='three packets with payload lengths 2, 0, 1 and any header bytes on one driver / facade / router / transport; the peer reads '
                  'with every recv returning as much as it may (fragmentation: tcp.reassembly.*)')
def tcp_uplink_sequence(c):
    lens = (2, 0, 1)
    pks = []
    for i, n in enumerate(lens):
        c.int('h%d' % i, 0, 255)
        pks.append(c.new(STK + ':CRTPPacket', c.get('h%d' % i), c.bytes('d%d' % i, n)))
    router = c.new(CPX + ':CPXRouter', transport(c, c.ext('sock')))
    drv = c.new(TCP + ':TcpDriver')
    c.let('drv', drv)
    c.let('facade', c.obj(CPX + ':CPX', _router=router))
    c.snapshot('_', 'setattr(drv, "cpx", facade)')
    c.reset_trace()
    for i, pk in enumerate(pks):
        c.call((drv, 'send_packet'), pk)
        c.ensure('send%d-no-exception' % i, 'raised is None')
    c.ensure('one-frame-per-packet-nothing-else', "calls() == ('sock.send',) * 3")
    if len(c.get('trace')) != 3:
        return
    for i, n in enumerate(lens):
        c.ensure('frame-%d' % i, "bytes(sent('sock.send')[%d][1][0]) == pack('<HBBB', %d, (3 << 3) | 1, 3, h%d | 0x0C) + d%d" % (i, n + 3, i, i))
    total = sum(n + 5 for n in lens)
    c.snapshot('S', ' + '.join("bytes(sent('sock.send')[%d][1][0])" % i for i in range(3)))
    rsock, st = stream_socket(c, 'rsock', 'S', total, greedy=True)
    rx = transport(c, rsock)
    for i, n in enumerate(lens):
        c.call((rx, 'readPacket'))
        c.snapshot('q', 'result')
        c.ensure('peer-reads-packet-%d' % i, "raised is None and q.source.value == 3 and q.destination.value == 1 and q.function.value == 3 and "
                 "bytes(q.data) == pack('<B', h%d | 0x0C) + d%d" % (i, i))
