"""C04 - parameter writes and reads are typed correctly and never cross-attributed.

All contracts drive a REAL Crazyflie object (real constructor, hence the real Param, _ParamUpdater, Toc and dispatcher)
whose link is a recording stub.  The updater thread's service loop `run()` is executed by the contract itself on a
sequential queue / lock model (`c.queue`, `c.lock`): it runs until it would block (pseudo exception Deadlock), which is
exactly "waits for the answer before the next request goes out".  Replies are delivered through the real dispatcher
(`_IncomingPacketHandler.run()` on a scripted link), so every registered port callback sees them, as in reality.

Decided: typed encoding of set_value for the 10 numeric types the firmware defines (protocol V2 and V1), refusal paths,
range errors, one request on the wire at a time in issue order and release only by the matching reply, value cache /
get_value / update callbacks after a reply, attribution of default-value and persistent store/clear/state replies to
the request with the same parameter id, unsolicited value-changed notifications.

Extension round (second half of the file): set_value_raw (set by name, any name length, no padding); a history from the
constructor state through "all parameters fetched" for every protocol version (the generation is taken from the platform,
not preset); one exchange step for ANY request and ANY well-formed packet (induction over the queue replaces "three
requests"); decoding of write answers / read answers / notifications for all 10 types; every reply variant of
persistent_get_state / get_default_value (stored, not stored, error) and any status byte of store / clear; update callbacks
added and removed; unknown names for reads and queries; requests before the connection is complete (never waits on the
dispatcher thread); disconnect with pending / queued requests followed by a new connection of the same object; explicit
schedules of several issuing threads (a whole set_value inside another thread's queue.put; requests issued while the
updater is inside the transmitting call); retransmission on links that need resending stops with the answer.

Assumed: queue.Queue is FIFO and thread safe; threading.Lock / Event semantics (sequential models).  Not covered:
pre-emption INSIDE queue.Queue.put / Lock.acquire themselves; malformed replies (wrong length for the declared type - the
decoding error then keeps the updater waiting); the table download and the extended-type (persistence marker) replies,
which are decided under C03 (param.refresh_toc.*, xtype.*); symbolic float bit patterns in the text form of cached values
(eight concrete patterns instead).  Findings kept in the thorough tier: same-parameter-twice.*, reconnect.late-answer-while-idle.
"""
from pyvc.api import contract

CF = 'cflib.crazyflie'
PRM = 'cflib.crazyflie.param'
STK = 'cflib.crtp.crtpstack'

TYPES = {0x08: ('<B', 0, 2 ** 8 - 1), 0x09: ('<H', 0, 2 ** 16 - 1), 0x0A: ('<L', 0, 2 ** 32 - 1), 0x0B: ('<Q', 0, 2 ** 64 - 1),
         0x00: ('<b', -2 ** 7, 2 ** 7 - 1), 0x01: ('<h', -2 ** 15, 2 ** 15 - 1), 0x02: ('<i', -2 ** 31, 2 ** 31 - 1),
         0x03: ('<q', -2 ** 63, 2 ** 63 - 1), 0x06: ('<f', None, None), 0x07: ('<d', None, None)}
NAMES = {0x08: 'uint8', 0x09: 'uint16', 0x0A: 'uint32', 0x0B: 'uint64', 0x00: 'int8', 0x01: 'int16', 0x02: 'int32', 0x03: 'int64',
         0x06: 'float', 0x07: 'double'}

SET_F = [PRM + ':Param.set_value', PRM + ':_ParamUpdater.request_param_setvalue', PRM + ':_ParamUpdater.run']


def toc_entry(code, group, name):
    return bytes([code]) + group.encode() + b'\x00' + name.encode() + b'\x00'


def world(c):
    """real Crazyflie as its constructor leaves it, plus: link stub, sequential queue/lock in the updater.  Nothing of the
    connection state (protocol generation, TOC, 'all parameters fetched') is preset.  Returns (cf, param, updater)."""
    cf = c.new(CF + ':Crazyflie')
    link = c.ext('link', attrs={'needs_resending': False})
    c.set(cf, 'link', link)
    param = c.getfield(cf, 'param')
    upd = c.getfield(param, 'param_updater')
    c.set(upd, 'request_queue', c.queue('rq'))
    c.set(upd, 'wait_lock', c.lock('wait_lock'))
    # sequential model of the 'all parameters fetched' event as well: a wait with timeout on the unset event returns False
    # at once instead of sleeping 60 s in the native replay
    c.set(param, '_initialized', c.event('initialized'))
    c.let('cf', cf), c.let('param', param), c.let('upd', upd)
    return cf, param, upd


def fill_toc(c, param, entries):
    toc = c.getfield(param, 'toc')
    for ident, code, group, name in entries:
        el = c.new(PRM + ':ParamTocElement', ident, toc_entry(code, group, name))
        c.invoke((toc, 'add_element'), el)


def setup(c, entries, v2=True):
    """real Crazyflie with a parameter TOC [(ident_input_name, type_code_with_flags, group, name)], link stub,
    sequential queue/lock in the updater.  Returns (cf, param, updater)."""
    cf, param, upd = world(c)
    c.set(c.getfield(cf, 'platform'), '_protocolVersion', 9 if v2 else 1)     # negotiated protocol generation
    c.set(param, '_useV2', v2)
    c.set(upd, '_useV2', v2)
    fill_toc(c, param, entries)
    c.invoke((c.getfield(param, '_initialized'), 'set'))
    c.reset_trace()
    return cf, param, upd


def run_updater(c, upd):
    """Run the real service loop until it blocks.  The loop dequeues a request and THEN waits for the lock; when it
    blocks there, the real thread keeps that request and continues with it once the lock is released.  The contract
    cannot resume a Python frame, so it puts the dequeued-but-not-yet-sent request back at the head of the queue
    before the next run (the statements in between have no other effect)."""
    q = c.getfield(upd, 'request_queue')
    before = list(q.items)
    c.call((upd, 'run'))
    c.ensure('updater-loop-only-blocks', "raised == 'Deadlock'", cls='A')
    if c.get('raised') == 'Deadlock' and c.concretize("'acquire' in str(exc)"):
        # (requests queued DURING the run - by another thread's action inside a stub - are at the tail and do not count)
        gone = [x for x in before if not any(x is y for y in q.items)]
        if gone:
            q.items.insert(0, gone[-1])


def deliver(c, cf, channel, data_expr):
    """hand one packet from the device to the real dispatcher"""
    c.snapshot('rx_data', data_expr)
    pk = c.new(STK + ':CRTPPacket', (2 << 4) | channel, c.get('rx_data'))
    pending = [pk]
    stop = c.raiser('StopLoop')

    def rx(*_a):
        if pending:
            return pending.pop(0)
        return stop()
    link = c.getfield(cf, 'link')
    if link is None:
        raise AssertionError('link closed')
    c.set(cf, 'link', c.ext('link', attrs={'needs_resending': False}, returns={'receive_packet': rx}))
    c.call((c.getfield(cf, 'incoming'), 'run'))
    c.ensure('dispatcher-survives', "raised == 'StopLoop'", cls='A')


def _set_value(code, v2):
    fmt, lo, hi = TYPES[code]

    @contract('C04', 'set_value.%s.%s' % (NAMES[code], 'v2' if v2 else 'v1'), SET_F,
              clause='setting a parameter transmits exactly the requested value encoded in the declared type to the parameter index; '
                     'values outside the type range raise instead of being wrapped, and nothing is transmitted')
    def k(c):
        ident = c.int('ident', 0, 65535 if v2 else 255)
        cf, param, upd = setup(c, [(ident, code, 'grp', 'par')], v2)
        if lo is None:
            c.float('value')
        else:
            # every in-range value of every type and out-of-range values up to +-2**66; the bound keeps integer <-> float
            # conversions (should the code introduce any) within reach of the bit-vector lowering
            c.int('value', -2 ** 66, 2 ** 66)
        c.call((param, 'set_value'), 'grp.par', c.get('value'))
        if lo is None:
            ok = "fits_f32(value)" if fmt == '<f' else 'True'
        else:
            ok = '%d <= value <= %d' % (lo, hi)
        c.ensure('raises-iff-out-of-range', "iff(raised is None, %s)" % ok)
        c.ensure('declared-errors-only', "raised in (None, 'struct.error', 'OverflowError')")
        if c.get('raised') is not None:
            c.ensure('nothing-queued-or-sent-on-error', "upd.request_queue.qsize() == 0 and len(trace) == 0")
            run_updater(c, upd)
            c.ensure('still-nothing-transmitted', "len(sent('link.send_packet')) == 0")
            return
        c.ensure('exactly-one-request-queued', 'upd.request_queue.qsize() == 1')
        run_updater(c, upd)
        c.ensure('transmitted-exactly-once', "len(sent('link.send_packet')) == 1")
        c.snapshot('pk', "sent('link.send_packet')[0][1][0]")
        c.ensure('port-channel', 'pk.port == 2 and pk.channel == 2')
        idfmt = '<H' if v2 else '<B'
        c.ensure('payload-is-index-then-typed-value', "bytes(pk.data) == pack('%s', ident) + pack('%s', value)" % (idfmt, fmt))
        c.ensure('waiting-for-this-reply', "upd.wait_lock.locked() and bytes(upd._lock_pattern) == pack('%s', ident)" % idfmt)
    return k


for _code in TYPES:
    _set_value(_code, True)
for _code in (0x08, 0x02, 0x06):
    _set_value(_code, False)


RAW_NAMES = ['a.b', 'ab.c', 'g.abc', 'pid.kp', 'ring.effect']      # value field at offsets 6, 7, 8, 9, 14 of the payload


def _set_value_raw(code):
    fmt, lo, hi = TYPES[code]

    @contract('C04', 'set_value_raw.%s' % NAMES[code], [PRM + ':Param.set_value_raw', CF + ':Crazyflie.send_packet'],
              clause='setting a parameter by name (no TOC needed) transmits exactly the requested value encoded little-endian in the '
                     'given type, preceded by the set-by-name command 0, the zero-terminated group and name and the type code, with no '
                     'padding, whatever the length of the name; values outside the type range raise and nothing is transmitted',
              bounded='five names (value field at payload offsets 6, 7, 8, 9 and 14, i.e. every alignment class of 2, 4 and 8)')
    def k(c):
        cf, param, upd = setup(c, [])
        name = c.choice('name', RAW_NAMES)
        c.let('wire_name', name.replace('.', '\0').encode() + b'\0')
        c.let('code', code)
        if lo is None:
            c.float('value')
        else:
            c.int('value', -2 ** 66, 2 ** 66)
        c.call((param, 'set_value_raw'), name, code, c.get('value'))
        if lo is None:
            ok = "fits_f32(value)" if fmt == '<f' else 'True'
        else:
            ok = '%d <= value <= %d' % (lo, hi)
        c.ensure('raises-iff-out-of-range', "iff(raised is None, %s)" % ok)
        c.ensure('declared-errors-only', "raised in (None, 'struct.error', 'OverflowError')")
        if c.get('raised') is not None:
            c.ensure('nothing-transmitted-on-error', "len(sent('link.send_packet')) == 0 and upd.request_queue.qsize() == 0")
            return
        c.ensure('transmitted-exactly-once', "len(sent('link.send_packet')) == 1")
        c.snapshot('pk', "sent('link.send_packet')[0][1][0]")
        c.ensure('port-channel', 'pk.port == 2 and pk.channel == 3')
        c.ensure('payload-is-command-name-type-then-typed-value',
                 "bytes(pk.data) == bytes([0]) + wire_name + bytes([code]) + pack('%s', value)" % fmt)
        c.ensure('no-answer-awaited', 'not upd.wait_lock.locked() and upd.request_queue.qsize() == 0')
    return k


for _code in TYPES:
    _set_value_raw(_code)


@contract('C04', 'set_value.string-and-bool-values', SET_F,
          clause='values given as decimal strings (as the library itself does for kalman.resetEstimation) are converted, not reinterpreted')
def set_value_str(c):
    cf, param, upd = setup(c, [(5, 0x08, 'kalman', 'resetEstimation')])
    v = c.choice('value', ['1', '0', '255', True, 7])
    c.call((param, 'set_value'), 'kalman.resetEstimation', v)
    c.ensure('no-exception', 'raised is None')
    run_updater(c, upd)
    c.let('num', int(v))
    c.ensure('payload', "bytes(sent('link.send_packet')[0][1][0].data) == pack('<HB', 5, num)")


@contract('C04', 'set_value.refused', [PRM + ':Param.set_value'],
          clause='read-only or unknown parameters are refused without any transmission')
def set_refused(c):
    cf, param, upd = setup(c, [(1, 0x08 | 0x40, 'g', 'ro'), (2, 0x08, 'g', 'rw')])
    which = c.choice('name', ['g.ro', 'g.missing', 'x.rw', 'nodot', 'g.rw.x', ''])
    c.call((param, 'set_value'), which, 1)
    c.let('which', which)
    c.ensure('refused', "raised == ('AttributeError' if which == 'g.ro' else 'KeyError')")
    c.ensure('nothing-queued', 'upd.request_queue.qsize() == 0 and len(trace) == 0')
    run_updater(c, upd)
    c.ensure('nothing-transmitted', "len(sent('link.send_packet')) == 0")


@contract('C04', 'one-at-a-time', [PRM + ':_ParamUpdater.run', PRM + ':_ParamUpdater._new_packet_cb', PRM + ':_ParamUpdater.request_param_update',
                                  PRM + ':Param.request_param_update', PRM + ':Param.set_value', PRM + ':Param._param_updated'],
          clause='requests go on the wire one at a time in issue order, each answered before the next is sent; a reply releases only the '
                 'request it answers; cached value, get_value and every update callback carry the device value, once',
          bounded='three requests (set, read, set) on three parameters; stale / foreign replies in between')
def one_at_a_time(c):
    ids = [c.int('id%d' % i, 0, 65535) for i in range(3)]
    c.require('id0 != id1 and id1 != id2 and id0 != id2')
    cf, param, upd = setup(c, [(ids[0], 0x09, 'g', 'a'), (ids[1], 0x02, 'g', 'b'), (ids[2], 0x08, 'h', 'c')])
    c.use_stubs(PRM, [])
    note_a, note_g, note_all = c.ext('cb_a'), c.ext('cb_group_g'), c.ext('cb_all')
    c.invoke((param, 'add_update_callback'), 'g', 'a', note_a)
    c.invoke((param, 'add_update_callback'), 'g', None, note_g)
    c.invoke((param, 'add_update_callback'), None, None, note_all)
    c.int('va', 0, 65535), c.int('vb', -2 ** 31, 2 ** 31 - 1), c.int('vc', 0, 255)
    c.reset_trace()
    c.call((param, 'set_value'), 'g.a', c.get('va'))
    c.call((param, 'request_param_update'), 'g.b')
    c.call((param, 'set_value'), 'h.c', c.get('vc'))
    c.ensure('three-queued-nothing-sent', "upd.request_queue.qsize() == 3 and len(sent('link.send_packet')) == 0")
    run_updater(c, upd)
    c.ensure('only-first-on-the-wire', "len(sent('link.send_packet')) == 1 and bytes(sent('link.send_packet')[0][1][0].data) == pack('<HH', id0, va)")
    # replies for other parameters (on either channel) do not release the request
    deliver(c, cf, 2, "pack('<HB', id1, 0)")
    deliver(c, cf, 1, "pack('<HBB', id2, 0, 7)")
    c.ensure('foreign-replies-release-nothing', "upd.wait_lock.locked() and len(sent('cb_all')) == 0")
    run_updater(c, upd)
    c.ensure('still-only-first-on-the-wire', "len(sent('link.send_packet')) == 1")
    # the device answers the write with the value it now holds
    c.int('dev_a', 0, 65535)
    deliver(c, cf, 2, "pack('<HH', id0, dev_a)")
    c.ensure('released-by-own-reply', 'not upd.wait_lock.locked()')
    c.ensure('cache-holds-device-value', "param.values['g']['a'] == str(dev_a)")
    c.call((param, 'get_value'), 'g.a')
    c.ensure('get_value-returns-device-value', 'raised is None and result == str(dev_a)')
    c.ensure('callbacks-once-with-name-and-value', "len(sent('cb_a')) == 1 and len(sent('cb_group_g')) == 1 and len(sent('cb_all')) == 1 and "
             "all(e[1][0] == 'g.a' and e[1][1] == str(dev_a) for e in trace if e[0].startswith('cb_'))")
    run_updater(c, upd)
    c.ensure('second-request-goes-out-next', "len(sent('link.send_packet')) == 2 and sent('link.send_packet')[1][1][0].channel == 1 and "
             "bytes(sent('link.send_packet')[1][1][0].data) == pack('<H', id1)")
    # read reply: id, status byte, value
    deliver(c, cf, 1, "pack('<HBi', id1, 0, vb)")
    c.ensure('read-reply-cached', "param.values['g']['b'] == str(vb) and not upd.wait_lock.locked()")
    c.ensure('group-and-all-callbacks-only', "len(sent('cb_a')) == 1 and len(sent('cb_group_g')) == 2 and len(sent('cb_all')) == 2")
    run_updater(c, upd)
    c.ensure('third-request-last', "len(sent('link.send_packet')) == 3 and bytes(sent('link.send_packet')[2][1][0].data) == pack('<HB', id2, vc)")
    # unsolicited value-changed notification for g.a while h.c is pending: delivered, does not release
    c.int('dev_a2', 0, 65535)
    deliver(c, cf, 3, "pack('<BHH', 1, id0, dev_a2)")
    c.ensure('notification-updates-cache-without-release', "param.values['g']['a'] == str(dev_a2) and upd.wait_lock.locked() and len(sent('cb_a')) == 2")
    deliver(c, cf, 2, "pack('<HB', id2, vc)")
    c.ensure('all-done', "not upd.wait_lock.locked() and param.values['h']['c'] == str(vc) and upd.request_queue.qsize() == 0")
    c.ensure('every-answer-delivered-once-to-the-registered-callbacks-of-its-parameter-only',
             "len(sent('cb_a')) == 2 and len(sent('cb_group_g')) == 3 and len(sent('cb_all')) == 4 and sent('cb_all')[-1][1] == ('h.c', str(vc))")
    # a late duplicate of the last reply (with whatever value) while the updater is idle is delivered to nobody
    c.int('late', 0, 255)
    c.require('late != vc')
    c.reset_trace()
    deliver(c, cf, 2, "pack('<HB', id2, late)")
    c.ensure('late-duplicate-not-delivered-again', "len(calls('cb_')) == 0 and param.values['h']['c'] == str(vc) and not upd.wait_lock.locked()")


MISC = {'persistent_get_state': 4, 'persistent_store': 3, 'persistent_clear': 5, 'get_default_value': 6}


def _attribution(api):
    cmd = MISC[api]

    @contract('C04', 'attribution.' + api, [PRM + ':Param.' + api, PRM + ':_ParamUpdater.send_param_misc', PRM + ':_ParamUpdater._new_packet_cb',
                                           PRM + ':_ParamUpdater.run'],
              clause='every %s reply is delivered exactly once to the request it answers (same parameter id) and to no other, '
                     'with several such requests outstanding; the callback gets what the device answered (any status byte for store / clear)' % api,
              bounded='three outstanding requests on three persistent parameters, answered in issue order')
    def k(c):
        ids = [c.int('id%d' % i, 0, 65535) for i in range(3)]
        c.require('id0 != id1 and id1 != id2 and id0 != id2')
        cf, param, upd = setup(c, [(ids[0], 0x09 | 0x10, 'g', 'a'), (ids[1], 0x09 | 0x10, 'g', 'b'), (ids[2], 0x09 | 0x10, 'g', 'c')])
        toc = c.getfield(param, 'toc')
        for n in 'abc':
            c.invoke((c.invoke((toc, 'get_element'), 'g', n), 'mark_persistent'))
        notes = [c.ext('note_%s' % n) for n in 'abc']
        for n, note in zip('abc', notes):
            c.call((param, api), 'g.' + n, note)
            c.ensure('request-%s-accepted' % n, 'raised is None')
        c.ensure('three-queued', 'upd.request_queue.qsize() == 3')
        c.reset_trace()
        for i, n in enumerate('abc'):
            run_updater(c, upd)
            c.ensure('request-%s-on-wire-in-order' % n, "len(sent('link.send_packet')) == %d and bytes(sent('link.send_packet')[-1][1][0].data) == pack('<BH', %d, id%d)" % (i + 1, cmd, i))
            c.int('v%d' % i, 0, 65535)
            if api == 'persistent_get_state':
                deliver(c, cf, 3, "pack('<BHBH', %d, id%d, 0, v%d)" % (cmd, i, i))
            elif api == 'get_default_value':
                deliver(c, cf, 3, "pack('<BHH', %d, id%d, v%d)" % (cmd, i, i))
            else:
                c.int('st%d' % i, 0, 255)           # the device's status byte: 0 = done, anything else = an errno
                deliver(c, cf, 3, "pack('<BHB', %d, id%d, st%d)" % (cmd, i, i))
            c.ensure('reply-%s-released-the-updater' % n, 'not upd.wait_lock.locked()')
            c.ensure('delivered-once-to-own-request-only-%s' % n,
                     ' and '.join("len(sent('note_%s')) == %d" % (m, 1 if j <= i else 0) for j, m in enumerate('abc')))
            c.ensure('callback-names-its-own-parameter-%s' % n, "sent('note_%s')[0][1][0] == 'g.%s'" % (n, n))
        if api == 'persistent_get_state':
            c.ensure('state-values-attributed', ' and '.join("sent('note_%s')[0][1][1].default_value == v%d and sent('note_%s')[0][1][1].is_stored is False" % (n, i, n) for i, n in enumerate('abc')))
        elif api == 'get_default_value':
            c.ensure('default-values-attributed', ' and '.join("sent('note_%s')[0][1][1] == v%d" % (n, i) for i, n in enumerate('abc')))
        else:
            c.ensure('status-attributed', ' and '.join("sent('note_%s')[0][1][1] == (st%d == 0)" % (n, i) for i, n in enumerate('abc')))
        # a late duplicate of the first reply reaches nobody
        c.reset_trace()
        if api == 'persistent_get_state':
            deliver(c, cf, 3, "pack('<BHBH', %d, id0, 0, v0)" % cmd)
        elif api == 'get_default_value':
            deliver(c, cf, 3, "pack('<BHH', %d, id0, v0)" % cmd)
        else:
            deliver(c, cf, 3, "pack('<BHB', %d, id0, st0)" % cmd)
        c.ensure('duplicate-reply-delivered-to-nobody', "len(calls('note_')) == 0")
    return k


for _api in MISC:
    _attribution(_api)


@contract('C04', 'misc.refused', [PRM + ':Param.persistent_store', PRM + ':Param.persistent_clear', PRM + ':Param.persistent_get_state'],
          clause='persistent requests on a non-persistent parameter are refused without any transmission')
def misc_refused(c):
    cf, param, upd = setup(c, [(3, 0x09, 'g', 'a')])
    api = c.choice('api', ['persistent_store', 'persistent_clear', 'persistent_get_state'])
    c.call((param, api), 'g.a', c.ext('note'))
    c.ensure('refused', "raised == 'AttributeError'")
    c.ensure('nothing-queued', 'upd.request_queue.qsize() == 0 and len(trace) == 0')


@contract('C04', 'stale-read-reply-during-write', [PRM + ':_ParamUpdater._new_packet_cb'],
          clause='a reply is delivered to the request it answers and to no other: a stale READ reply for a parameter does not answer a pending WRITE of it')
def stale_read(c):
    c.int('id0', 0, 65535)
    cf, param, upd = setup(c, [(c.get('id0'), 0x09, 'g', 'a')])
    c.int('va', 0, 65535), c.int('old', 0, 65535)
    c.require('old != va')
    c.call((param, 'set_value'), 'g.a', c.get('va'))
    run_updater(c, upd)
    c.require("len(sent('link.send_packet')) == 1")
    deliver(c, cf, 1, "pack('<HBH', id0, 0, old)")      # duplicate of an earlier read reply, old value
    c.ensure('stale-read-reply-does-not-answer-the-write', "upd.wait_lock.locked() and 'g' not in param.values")


@contract('C04', 'reply-before-send-returns', [PRM + ':_ParamUpdater.run', PRM + ':_ParamUpdater._new_packet_cb', PRM + ':Param._param_updated'],
          clause='each request is answered before the next is sent, whatever the timing: a reply that the dispatcher thread processes before the '
                 'transmitting call has even returned to the updater thread is still attributed to the request and releases it',
          bounded='one write request; the reply is dispatched synchronously from inside link.send_packet (the earliest possible schedule)')
def reply_before_send_returns(c):
    c.int('ident', 0, 65535), c.int('value', 0, 65535), c.int('dev', 0, 65535)
    cf, param, upd = setup(c, [(c.get('ident'), 0x09, 'g', 'a')])
    done = []

    def send(_i, args, _k):
        if done:
            return None
        done.append(1)
        # the device answers at once and the dispatcher thread handles the answer before send_packet returns
        c.snapshot('rx_now', "pack('<HH', ident, dev)")
        pk = c.new(STK + ':CRTPPacket', (2 << 4) | 2, c.get('rx_now'))
        pending = [pk]
        stop = c.raiser('StopLoop')

        def rx(*_a):
            if pending:
                return pending.pop(0)
            return stop()
        link = c.getfield(cf, 'link')
        c.set(link, 'receive_packet', c.ext('link_rx', returns={'()': rx}))
        c.invoke_catch((c.getfield(cf, 'incoming'), 'run'))
        return None
    c.set(cf, 'link', c.ext('link', attrs={'needs_resending': False}, returns={'send_packet': send}))
    c.call((param, 'set_value'), 'g.a', c.get('value'))
    c.require('raised is None')
    run_updater(c, upd)
    c.ensure('request-released-by-its-early-reply', 'not upd.wait_lock.locked() and upd.request_queue.qsize() == 0')
    c.ensure('cache-holds-device-value', "param.values['g']['a'] == str(dev)")


@contract('C04', 'notification-during-misc-request', [PRM + ':_ParamUpdater._new_packet_cb', PRM + ':_ParamUpdater.run', PRM + ':Param.persistent_store'],
          clause='each request is answered before the next is sent: an unsolicited value-changed notification for the very parameter whose '
                 'persistent request is pending is delivered as a notification, but does not count as the answer of that request',
          bounded='one pending persistent_store followed by one queued read of another parameter')
def notification_during_misc(c):
    c.int('id0', 0, 65535), c.int('id1', 0, 65535)
    c.require('id0 != id1')
    cf, param, upd = setup(c, [(c.get('id0'), 0x09 | 0x10, 'g', 'a'), (c.get('id1'), 0x09, 'g', 'b')])
    toc = c.getfield(param, 'toc')
    c.invoke((c.invoke((toc, 'get_element'), 'g', 'a'), 'mark_persistent'))
    note = c.ext('note')
    c.call((param, 'persistent_store'), 'g.a', note)
    c.call((param, 'request_param_update'), 'g.b')
    c.require('raised is None')
    c.reset_trace()
    run_updater(c, upd)
    c.ensure('store-request-on-the-wire', "len(sent('link.send_packet')) == 1 and bytes(sent('link.send_packet')[0][1][0].data) == pack('<BH', 3, id0)")
    c.int('newval', 0, 65535)
    deliver(c, cf, 3, "pack('<BHH', 1, id0, newval)")        # MISC_VALUE_UPDATED for the same parameter
    c.ensure('notification-is-cached', "param.values['g']['a'] == str(newval)")
    c.ensure('pending-request-not-released-by-the-notification', "upd.wait_lock.locked() and len(sent('note')) == 0")
    run_updater(c, upd)
    c.ensure('next-request-waits', "len(sent('link.send_packet')) == 1")
    deliver(c, cf, 3, "pack('<BHB', 3, id0, 0)")
    c.ensure('own-reply-releases', "not upd.wait_lock.locked() and len(sent('note')) == 1 and sent('note')[0][1] == ('g.a', True)")
    run_updater(c, upd)
    c.ensure('next-request-goes-out-afterwards', "len(sent('link.send_packet')) == 2 and bytes(sent('link.send_packet')[1][1][0].data) == pack('<H', id1)")


# ---------------------------------------------------------------------------------------------------------------------
# extension round: histories that start from the constructor state, both protocol generations end to end, callbacks
# added and removed, every reply variant of the persistent queries, reconnects


def _captured_done(captured):
    """the completion callback the real code handed to the (stubbed) TocFetcher, by keyword or by position"""
    args, kw = captured[0]
    try:
        for k2, v2 in kw.items():
            if k2 == 'finished_callback':
                return v2
    except AttributeError:
        pass
    return args[4]


@contract('C04', 'connect-history', [PRM + ':Param.refresh_toc', PRM + ':Param.request_update_of_all_params', PRM + ':Param._check_if_all_updated',
                                    PRM + ':Param._param_updated', PRM + ':_ParamUpdater.request_param_update', PRM + ':_ParamUpdater.run',
                                    PRM + ':_ParamUpdater._new_packet_cb', PRM + ':Param.set_value', PRM + ':Param.get_value'],
          clause='from the constructor state, for every negotiated protocol version: the index width of read and write requests and the '
                 'layout of the replies are those of the generation the platform reports (16 bit index from version 4 on, 8 bit before); '
                 'the initial reads go out one at a time in table order, each answered before the next; get_value / set_value are '
                 'available exactly when every parameter has been answered once ("all updated" signalled once, never again), and then '
                 'transmit / return the typed values',
          bounded='table of two parameters (uint16, int8); the table download itself (TocFetcher) is a stub - it is decided under C03')
def connect_history(c):
    c.int('ver', 0, 255)
    cf, param, upd = world(c)
    c.set(c.getfield(cf, 'platform'), '_protocolVersion', c.get('ver'))
    v2 = bool(c.concretize('ver >= 4'))
    captured = []
    fetcher = c.ext('fetcher')

    def mk(_i, args, kw):
        captured.append((args, kw))
        return fetcher
    c.patch(PRM + ':TocFetcher', c.ext('TocFetcher', returns={'()': mk}))
    all_updated = c.ext('all_updated')
    c.invoke((c.getfield(param, 'all_updated'), 'add_callback'), all_updated)
    done = c.ext('toc_done')
    c.reset_trace()
    c.call((param, 'refresh_toc'), done, c.ext('cache'))
    c.ensure('refresh-starts-the-download-only', "raised is None and len(sent('fetcher.start')) == 1 and len(sent('link.send_packet')) == 0")
    hi = 65535 if v2 else 255
    c.int('id0', 0, hi), c.int('id1', 0, hi)
    c.require('id0 != id1')
    fill_toc(c, param, [(c.get('id0'), 0x09, 'g', 'a'), (c.get('id1'), 0x00, 'h', 'b')])     # what the download produces
    c.call(_captured_done(captured))
    c.ensure('table-complete-signalled-once', "raised is None and len(sent('toc_done')) == 1")
    c.call((param, 'request_update_of_all_params'))                  # what Crazyflie._param_toc_updated_cb does next
    c.ensure('one-read-per-parameter-queued', "raised is None and upd.request_queue.qsize() == 2 and len(sent('link.send_packet')) == 0")
    idfmt = '<H' if v2 else '<B'
    c.int('d0', 0, 65535), c.int('d1', -128, 127)
    run_updater(c, upd)
    c.ensure('first-read-on-the-wire', "len(sent('link.send_packet')) == 1 and sent('link.send_packet')[0][1][0].channel == 1 and "
             "sent('link.send_packet')[0][1][0].port == 2 and bytes(sent('link.send_packet')[0][1][0].data) == pack('%s', id0)" % idfmt)
    run_updater(c, upd)
    c.ensure('second-read-waits-for-the-first-answer', "len(sent('link.send_packet')) == 1")
    deliver(c, cf, 1, "pack('<HBH', id0, 0, d0)" if v2 else "pack('<BH', id0, d0)")
    c.ensure('first-answer-cached-and-releases', "param.values['g']['a'] == str(d0) and not upd.wait_lock.locked()")
    c.ensure('not-yet-all-updated', "len(sent('all_updated')) == 0 and not param._initialized.is_set()")
    run_updater(c, upd)
    c.ensure('second-read-on-the-wire', "len(sent('link.send_packet')) == 2 and sent('link.send_packet')[1][1][0].channel == 1 and "
             "bytes(sent('link.send_packet')[1][1][0].data) == pack('%s', id1)" % idfmt)
    deliver(c, cf, 1, "pack('<HBb', id1, 0, d1)" if v2 else "pack('<Bb', id1, d1)")
    c.ensure('second-answer-cached-and-releases', "param.values['h']['b'] == str(d1) and not upd.wait_lock.locked()")
    c.ensure('all-updated-signalled-once', "len(sent('all_updated')) == 1 and param._initialized.is_set()")
    c.call((param, 'get_value'), 'h.b')
    c.ensure('get_value-available-with-device-value', 'raised is None and result == str(d1)')
    # a write in the generation that was negotiated
    c.int('value', 0, 65535), c.int('dev', 0, 65535)
    c.call((param, 'set_value'), 'g.a', c.get('value'))
    c.ensure('set-accepted', 'raised is None')
    run_updater(c, upd)
    c.ensure('write-on-the-wire-index-width-of-the-generation', "len(sent('link.send_packet')) == 3 and sent('link.send_packet')[2][1][0].channel == 2 and "
             "bytes(sent('link.send_packet')[2][1][0].data) == pack('%s', id0) + pack('<H', value)" % idfmt)
    # a reply for the other parameter does not answer it, in either generation
    deliver(c, cf, 2, "pack('%sb', id1, 5)" % idfmt)
    c.ensure('foreign-reply-releases-nothing', "upd.wait_lock.locked() and param.values['g']['a'] == str(d0)")
    deliver(c, cf, 2, "pack('%sH', id0, dev)" % idfmt)
    c.ensure('write-answer-cached-and-releases', "param.values['g']['a'] == str(dev) and not upd.wait_lock.locked()")
    c.call((param, 'get_value'), 'g.a')
    c.ensure('get_value-returns-device-value', 'raised is None and result == str(dev)')
    c.ensure('all-updated-never-signalled-again', "len(sent('all_updated')) == 1")


@contract('C04', 'update-callbacks.add-remove', [PRM + ':Param.add_update_callback', PRM + ':Param.remove_update_callback', PRM + ':Param._param_updated',
                                                PRM + ':Param.get_value'],
          clause='the device value is passed once to every REGISTERED update callback: a removed callback (parameter or group level) is not '
                 'called any more, the callbacks that stay registered still are, exactly once per answer; removing a callback that was never '
                 'registered, or none, changes nothing; when a callback runs, get_value already returns the value it is given',
          bounded='two parameters of one group and one of another; two parameter-level, two group-level, one global callback')
def callbacks_add_remove(c):
    c.int('id0', 0, 65535), c.int('id1', 0, 65535), c.int('id2', 0, 65535)
    c.require('id0 != id1 and id1 != id2 and id0 != id2')
    cf, param, upd = setup(c, [(c.get('id0'), 0x09, 'g', 'a'), (c.get('id1'), 0x09, 'g', 'b'), (c.get('id2'), 0x09, 'h', 'a')])
    seen = []

    def peek(_i, args, _k):
        # an application callback that reads the parameter back synchronously
        seen.append(c.invoke((param, 'get_value'), 'g.a'))
        return None
    cb1, cb2 = c.ext('cb1'), c.ext('cb2', returns={'()': peek})
    cbg1, cbg2, cbh, cball, never = c.ext('cbg1'), c.ext('cbg2'), c.ext('cbh'), c.ext('cball'), c.ext('never')
    c.invoke((param, 'add_update_callback'), 'g', 'a', cb1)
    c.invoke((param, 'add_update_callback'), 'g', 'a', cb2)
    c.invoke((param, 'add_update_callback'), 'g', None, cbg1)
    c.invoke((param, 'add_update_callback'), 'g', None, cbg2)
    c.invoke((param, 'add_update_callback'), 'h', None, cbh)
    c.invoke((param, 'add_update_callback'), None, None, cball)
    c.int('v1', 0, 65535), c.int('v2', 0, 65535), c.int('v3', 0, 65535), c.int('v4', 0, 65535)

    def counts(tag, **want):
        c.ensure(tag, ' and '.join("len(sent('%s')) == %d" % (n, k) for n, k in sorted(want.items())))
    c.reset_trace()
    deliver(c, cf, 3, "pack('<BHH', 1, id0, v1)")           # the device reports a new value of g.a
    counts('all-registered-callbacks-once', cb1=1, cb2=1, cbg1=1, cbg2=1, cbh=0, cball=1, never=0)
    c.let('seen0', seen[0] if seen else None)
    c.ensure('get_value-inside-a-callback-is-the-new-value', 'seen0 == str(v1)')
    c.ensure('name-and-value-passed', "all(e[1] == ('g.a', str(v1)) for e in trace if e[0].startswith('cb'))")
    # removal of one parameter-level and one group-level callback; the calls that must change nothing
    c.call((param, 'remove_update_callback'), 'g', 'a', cb1)
    c.ensure('remove-parameter-callback-ok', 'raised is None')
    c.call((param, 'remove_update_callback'), 'g', None, cbg1)
    c.ensure('remove-group-callback-ok', 'raised is None')
    c.call((param, 'remove_update_callback'), 'g', 'a', None)
    c.ensure('remove-nothing-ok', 'raised is None')
    c.call((param, 'remove_update_callback'), 'x', 'y', never)
    c.ensure('remove-from-unknown-parameter-ok', 'raised is None')
    c.call((param, 'remove_update_callback'), 'x', None, never)
    c.ensure('remove-from-unknown-group-ok', 'raised is None')
    c.reset_trace()
    deliver(c, cf, 3, "pack('<BHH', 1, id0, v2)")
    counts('removed-callbacks-silent-others-once', cb1=0, cb2=1, cbg1=0, cbg2=1, cbh=0, cball=1, never=0)
    c.ensure('name-and-value-passed-2', "all(e[1] == ('g.a', str(v2)) for e in trace if e[0].startswith('cb'))")
    c.reset_trace()
    deliver(c, cf, 3, "pack('<BHH', 1, id1, v3)")           # g.b: group-level and global callbacks only
    counts('other-parameter-of-the-group', cb1=0, cb2=0, cbg1=0, cbg2=1, cbh=0, cball=1)
    c.ensure('name-and-value-passed-3', "all(e[1] == ('g.b', str(v3)) for e in trace if e[0].startswith('cb'))")
    c.reset_trace()
    deliver(c, cf, 3, "pack('<BHH', 1, id2, v4)")           # h.a: same name as g.a, other group
    counts('same-name-in-other-group', cb1=0, cb2=0, cbg1=0, cbg2=0, cbh=1, cball=1)
    # the removed callback can be registered again
    c.invoke((param, 'add_update_callback'), 'g', 'a', cb1)
    c.reset_trace()
    deliver(c, cf, 3, "pack('<BHH', 1, id0, v4)")
    counts('registered-again', cb1=1, cb2=1, cbg1=0, cbg2=1, cbh=0, cball=1)


ENOENT = 2
SIZES = {0x08: 1, 0x09: 2, 0x0A: 4, 0x0B: 8, 0x00: 1, 0x01: 2, 0x02: 4, 0x03: 8, 0x06: 4, 0x07: 8}


def _same(code, a, b):
    return ('same_float(%s, %s)' if code in (0x06, 0x07) else '%s == %s') % (a, b)


def _state_variants(code):
    fmt, size = TYPES[code][0], SIZES[code]

    @contract('C04', 'persistent_get_state.reply-variants.%s' % NAMES[code], [PRM + ':Param.persistent_get_state', PRM + ':_ParamUpdater._new_packet_cb',
                                                                            PRM + ':_ParamUpdater.run'],
              clause='the persistent-state reply is decoded in the declared type of the parameter and delivered exactly once to the request it '
                     'answers: not stored -> (False, default, None); stored -> (True, default, stored) in the order the device sends them; '
                     'error status -> None; afterwards the request is finished (updater released, a duplicate reaches nobody)',
              bounded='one request; the three reply variants the firmware defines')
    def k(c):
        c.int('id0', 0, 65535)
        cf, param, upd = setup(c, [(c.get('id0'), code | 0x10, 'g', 'a')])
        c.invoke((c.invoke((c.getfield(param, 'toc'), 'get_element'), 'g', 'a'), 'mark_persistent'))
        note = c.ext('note')
        c.call((param, 'persistent_get_state'), 'g.a', note)
        c.ensure('request-accepted', 'raised is None')
        c.reset_trace()
        run_updater(c, upd)
        c.ensure('request-on-wire', "len(sent('link.send_packet')) == 1 and bytes(sent('link.send_packet')[0][1][0].data) == pack('<BH', 4, id0)")
        variant = c.choice('variant', ['not-stored', 'stored', 'error'])
        c.bytes('raw_default', size), c.bytes('raw_stored', size)
        if variant == 'not-stored':
            deliver(c, cf, 3, "pack('<BHB', 4, id0, 0) + raw_default")
        elif variant == 'stored':
            deliver(c, cf, 3, "pack('<BHB', 4, id0, 1) + raw_default + raw_stored")
        else:
            deliver(c, cf, 3, "pack('<BHB', 4, id0, %d)" % ENOENT)
        c.ensure('delivered-once-to-the-request', "len(sent('note')) == 1 and sent('note')[0][1][0] == 'g.a'")
        c.ensure('updater-released', 'not upd.wait_lock.locked()')
        if c.concretize("len(sent('note'))") == 1:
            c.snapshot('state', "sent('note')[0][1][1]")
            if variant == 'error':
                c.ensure('error-reported-as-none', 'state is None')
            else:
                c.snapshot('want_default', "unpack('%s', raw_default)[0]" % fmt)
                c.snapshot('want_stored', "unpack('%s', raw_stored)[0]" % fmt)
                c.ensure('default-value-typed', 'state is not None and ' + _same(code, 'state.default_value', 'want_default'))
                if variant == 'stored':
                    c.ensure('stored-value-typed', 'state.is_stored is True and ' + _same(code, 'state.stored_value', 'want_stored'))
                else:
                    c.ensure('nothing-stored', 'state.is_stored is False and state.stored_value is None')
        c.reset_trace()
        deliver(c, cf, 3, "pack('<BHB', 4, id0, 0) + raw_default")
        c.ensure('duplicate-reply-delivered-to-nobody', "len(calls('note')) == 0 and not upd.wait_lock.locked()")
    return k


for _code in (0x09, 0x02, 0x0B, 0x06):
    _state_variants(_code)


def _default_variants(code):
    fmt, size = TYPES[code][0], SIZES[code]
    variants = ['value', 'error'] if size != 1 else ['value']     # a 1-byte value reply and the error reply are the same 4 bytes

    @contract('C04', 'get_default_value.reply-variants.%s' % NAMES[code], [PRM + ':Param.get_default_value', PRM + ':_ParamUpdater._new_packet_cb',
                                                                         PRM + ':_ParamUpdater.run'],
              clause='the default-value reply is decoded in the declared type of the parameter and delivered exactly once to the request it '
                     'answers; the error reply (status ENOENT instead of a value) is reported as None, once; afterwards the request is finished',
              bounded='one request; value reply and error reply' + ('' if size != 1 else ' (value reply only: for 1-byte types the protocol '
                                                                    'cannot tell the error reply from the value 2)'))
    def k(c):
        c.int('id0', 0, 65535)
        cf, param, upd = setup(c, [(c.get('id0'), code, 'g', 'a')])
        note = c.ext('note')
        c.call((param, 'get_default_value'), 'g.a', note)
        c.ensure('request-accepted', 'raised is None')
        c.reset_trace()
        run_updater(c, upd)
        c.ensure('request-on-wire', "len(sent('link.send_packet')) == 1 and bytes(sent('link.send_packet')[0][1][0].data) == pack('<BH', 6, id0)")
        variant = c.choice('variant', variants)
        c.bytes('raw', size)
        if variant == 'value':
            deliver(c, cf, 3, "pack('<BH', 6, id0) + raw")
        else:
            deliver(c, cf, 3, "pack('<BHB', 6, id0, %d)" % ENOENT)
        c.ensure('delivered-once-to-the-request', "len(sent('note')) == 1 and sent('note')[0][1][0] == 'g.a'")
        c.ensure('updater-released', 'not upd.wait_lock.locked()')
        if c.concretize("len(sent('note'))") >= 1:
            c.snapshot('got', "sent('note')[0][1][1]")
            if variant == 'error':
                c.ensure('error-reported-as-none', 'got is None')
            else:
                c.snapshot('want', "unpack('%s', raw)[0]" % fmt)
                c.ensure('default-value-typed', 'got is not None and ' + _same(code, 'got', 'want'))
        c.reset_trace()
        deliver(c, cf, 3, "pack('<BH', 6, id0) + raw")
        c.ensure('duplicate-reply-delivered-to-nobody', "len(calls('note')) == 0 and not upd.wait_lock.locked()")
    return k


for _code in (0x09, 0x00, 0x03, 0x06):
    _default_variants(_code)


# FINDING (unchanged tree, replays natively): the persistent / default-value queries register their reply callback when the
# request is ISSUED (not when it is transmitted) and match replies by command + parameter id only.  With two requests for the same
# parameter outstanding, the first reply is delivered to BOTH requests' callbacks (both unregister), and the second reply - the one
# that answers the second request - is delivered to nobody: the second caller is given the answer of the first request.
# The contracts below state the clause and FAIL on the pinned tree; until the maintainer of this directory has decided between a
# fix: commit and a known_findings.json entry they run in the thorough tier only.
def _same_parameter_twice(api):
    cmd = MISC[api]

    @contract('C04', 'same-parameter-twice.' + api, [PRM + ':Param.' + api, PRM + ':_ParamUpdater._new_packet_cb', PRM + ':_ParamUpdater.run'],
              clause='several outstanding %s queries: every reply is delivered exactly once to the request it answers and to no other - also '
                     'when two requests for the SAME parameter are outstanding (two application threads asking for the same parameter): the '
                     'first reply answers the first request only, the second reply the second' % api,
              bounded='two outstanding requests for one parameter', thorough_only=True)
    def k(c):
        c.int('id0', 0, 65535)
        cf, param, upd = setup(c, [(c.get('id0'), 0x09 | 0x10, 'g', 'a')])
        c.invoke((c.invoke((c.getfield(param, 'toc'), 'get_element'), 'g', 'a'), 'mark_persistent'))
        first, second = c.ext('first'), c.ext('second')
        c.call((param, api), 'g.a', first)
        c.call((param, api), 'g.a', second)
        c.ensure('both-accepted', 'raised is None and upd.request_queue.qsize() == 2')
        c.reset_trace()
        c.int('v0', 0, 65535), c.int('v1', 0, 65535)
        c.require('v0 != v1')        # the value changed between the two answers

        def reply(i):
            if api == 'persistent_get_state':
                deliver(c, cf, 3, "pack('<BHBH', %d, id0, 0, v%d)" % (cmd, i))
            elif api == 'get_default_value':
                deliver(c, cf, 3, "pack('<BHH', %d, id0, v%d)" % (cmd, i))
            else:
                deliver(c, cf, 3, "pack('<BHB', %d, id0, v%d %% 2)" % (cmd, i))
        run_updater(c, upd)
        c.ensure('first-request-on-wire-only', "len(sent('link.send_packet')) == 1")
        reply(0)
        c.ensure('first-reply-to-first-request-only', "len(sent('first')) == 1 and len(sent('second')) == 0")
        run_updater(c, upd)
        c.ensure('second-request-on-wire', "len(sent('link.send_packet')) == 2")
        reply(1)
        c.ensure('second-reply-to-second-request-only', "len(sent('first')) == 1 and len(sent('second')) == 1")
        if api == 'persistent_get_state':
            c.ensure('second-request-gets-the-second-answer', "sent('second')[0][1][1].default_value == v1")
        elif api == 'get_default_value':
            c.ensure('second-request-gets-the-second-answer', "sent('second')[0][1][1] == v1")
        else:
            c.ensure('second-request-gets-the-second-answer', "sent('second')[0][1][1] == (v1 % 2 == 0)")
    return k


for _api in MISC:
    _same_parameter_twice(_api)


URI = 'radio://0/80/2M'


@contract('C04', 'reconnect', [PRM + ':Param._disconnected', PRM + ':Param._connection_requested', PRM + ':_ParamUpdater.close', PRM + ':_ParamUpdater.run',
                              PRM + ':_ParamUpdater._new_packet_cb', PRM + ':Param.set_value', PRM + ':Param.get_value'],
          clause='nothing of a previous connection is attributed to the next one on the same object: requests that were pending or queued when '
                 'the link went away are never transmitted afterwards, the first request of the next connection goes out at once (the wait for '
                 'the lost answer does not survive), values cached from the previous device are not returned, and a late reply of the previous '
                 'connection neither answers a request of the new one nor is cached',
          bounded='one request on the wire and one queued at the time of the disconnect; two schedules of the updater thread: it has already '
                  'taken the queued request and waits for the lock / it has not run yet')
def reconnect(c):
    c.int('id0', 0, 65535), c.int('id1', 0, 65535)
    c.require('id0 != id1')
    cf, param, upd = setup(c, [(c.get('id0'), 0x09, 'g', 'a'), (c.get('id1'), 0x09, 'g', 'b')])
    c.int('old_a', 0, 65535), c.int('nv', 0, 65535), c.int('late', 0, 65535), c.int('dev', 0, 65535)
    c.let('va', 0x1234), c.let('vb', 0x5678)        # what the old connection's requests carry does not matter here
    deliver(c, cf, 3, "pack('<BHH', 1, id0, old_a)")
    c.call((param, 'get_value'), 'g.a')
    c.require('raised is None and result == str(old_a)')
    c.call((param, 'set_value'), 'g.a', c.get('va'))
    c.call((param, 'set_value'), 'g.b', c.get('vb'))
    c.reset_trace()
    run_updater(c, upd)
    c.require("len(sent('link.send_packet')) == 1 and upd.wait_lock.locked()")
    schedule = c.choice('schedule', ['next-request-taken', 'next-request-still-queued'])

    def link_goes_away():
        c.set(cf, 'link', None)                     # as close_link / _link_error_cb do
        c.invoke((c.getfield(cf, 'disconnected'), 'call'), URI)
    if schedule == 'next-request-taken':
        # the updater thread has dequeued the second request and blocks in wait_lock.acquire(); meanwhile the link is closed
        c.getfield(upd, 'wait_lock').on_block = link_goes_away
        c.call((upd, 'run'))
        c.getfield(upd, 'wait_lock').on_block = None
        c.ensure('updater-back-to-waiting-for-requests', "raised == 'Deadlock' and not upd.wait_lock.locked()")
    else:
        link_goes_away()
    c.ensure('nothing-more-transmitted', "len([n for n in calls() if n.endswith('send_packet')]) == 1")
    # the next connection of the same object; the device numbers its parameters differently
    c.call((c.getfield(cf, 'connection_requested'), 'call'), URI)
    c.ensure('connection-request-handled', 'raised is None')
    c.set(cf, 'link', c.ext('link', attrs={'needs_resending': False}))
    c.call((param, 'get_value'), 'g.a')
    c.ensure('value-of-the-previous-device-not-returned', 'raised is not None')
    fill_toc(c, param, [(c.get('id1'), 0x09, 'g', 'a'), (c.get('id0'), 0x09, 'g', 'b')])
    c.invoke((c.getfield(param, '_initialized'), 'set'))
    c.call((param, 'get_value'), 'g.a')
    c.ensure('no-value-that-this-device-has-not-reported', 'raised is not None')
    c.reset_trace()
    c.call((param, 'set_value'), 'g.b', c.get('nv'))
    c.ensure('new-request-accepted', 'raised is None')
    run_updater(c, upd)
    c.ensure('only-the-new-request-is-transmitted', "len(sent('link.send_packet')) == 1 and "
             "bytes(sent('link.send_packet')[0][1][0].data) == pack('<HH', id0, nv) and sent('link.send_packet')[0][1][0].channel == 2")
    deliver(c, cf, 2, "pack('<HH', id1, late)")           # the answer to the old session's second request arrives now
    c.ensure('late-reply-of-the-previous-connection-ignored', "upd.wait_lock.locked() and 'a' not in param.values.get('g', {})")
    deliver(c, cf, 2, "pack('<HH', id0, dev)")
    c.ensure('own-reply-releases-and-is-cached', "not upd.wait_lock.locked() and param.values['g']['b'] == str(dev)")
    run_updater(c, upd)
    c.ensure('nothing-of-the-previous-connection-follows', "len(sent('link.send_packet')) == 1")


def _exchange_step(v2):
    idfmt, hi = ('<H', 65535) if v2 else ('<B', 255)

    @contract('C04', 'exchange.step.%s' % ('v2' if v2 else 'v1'), [PRM + ':_ParamUpdater.run', PRM + ':_ParamUpdater._new_packet_cb', PRM + ':Param._param_updated',
                                                                  PRM + ':_ParamUpdater.request_param_setvalue', PRM + ':_ParamUpdater.send_param_misc'],
              clause='one step of the request/answer exchange, for ANY request at the head of the queue (read, write or misc command, any '
                     'parameter index) and ANY well-formed packet from the device (any channel, command, index): the request is transmitted '
                     'unchanged, exactly once, and nothing else is transmitted until a packet of the same channel that echoes its index (and, '
                     'on the misc channel, its command) arrives; exactly such a packet lets the next request out; a value is cached only from '
                     'the answer of a read / write and from value-changed notifications, under the parameter the device names.  By induction '
                     'over the queue this is "one at a time, in issue order, each answered before the next" for every sequence of requests',
              bounded='the request behind the head is a read; the READ-reply-answers-WRITE (and vice versa) case is excluded here: it is the '
                      'recorded finding stale-read-reply-during-write')
    def k(c):
        c.int('idx', 0, hi)
        cf, param, upd = setup(c, [(c.get('idx'), 0x09, 'g', 'a')], v2)
        c.int('rid', 0, hi), c.int('pid', 0, hi), c.int('next_id', 0, hi)
        rc = c.concretize(c.int('rc', 1, 3 if v2 else 2))
        pc = c.concretize(c.int('pc', 0, 3 if v2 else 2))
        c.int('rcmd', 0, 255), c.int('pcmd', 0, 255), c.int('wv', 0, 65535), c.int('pv', 0, 65535)
        c.require('rcmd != 1')                      # command 1 is the device's notification, never a request
        if rc == 1:
            c.snapshot('rq_data', "pack('%s', rid)" % idfmt)
        elif rc == 2:
            c.snapshot('rq_data', "pack('%sH', rid, wv)" % idfmt)
        else:
            c.snapshot('rq_data', "pack('<BH', rcmd, rid)")
        rq = c.new(STK + ':CRTPPacket', (2 << 4) | rc, c.get('rq_data'))
        c.let('rq', rq)
        c.invoke((upd, 'send_param_misc' if rc == 3 else 'request_param_setvalue'), rq)
        c.invoke((upd, 'request_param_update'), c.get('next_id'))
        c.reset_trace()
        run_updater(c, upd)
        c.ensure('head-request-transmitted-unchanged-once', "len(sent('link.send_packet')) == 1 and sent('link.send_packet')[0][1][0] is rq and "
                 "bytes(rq.data) == bytes(rq_data) and rq.port == 2 and rq.channel == %d" % rc)
        run_updater(c, upd)
        c.ensure('next-request-waits', "len(sent('link.send_packet')) == 1 and upd.wait_lock.locked()")
        if pc == 1:
            reply = "pack('%sBH', pid, 0, pv)" % idfmt if v2 else "pack('<BH', pid, pv)"
        elif pc == 2:
            reply = "pack('%sH', pid, pv)" % idfmt
        elif pc == 3:
            reply = "pack('<BHH', pcmd, pid, pv)"
        else:
            reply = "pack('<BHH', pcmd, pid, pv)"       # TOC channel: never an answer
        if rc in (1, 2) and pc in (1, 2) and pc != rc:
            c.require('pid != rid')
        deliver(c, cf, pc, reply)
        if pc == rc:
            c.snapshot('answers', 'pid == rid and pcmd == rcmd' if rc == 3 else 'pid == rid')
        else:
            c.let('answers', False)
        c.ensure('released-iff-answered', 'upd.wait_lock.locked() == (not answers)')
        if pc in (1, 2):
            c.snapshot('carries_value', 'answers')
        elif pc == 3:
            c.snapshot('carries_value', 'pcmd == 1')
        else:
            c.let('carries_value', False)
        c.ensure('cached-iff-a-value-for-a-known-parameter', "('g' in param.values) == (carries_value and pid == idx)")
        c.ensure('cached-value-is-the-device-value', "implies('g' in param.values, param.values.get('g', {}).get('a') == str(pv))")
        run_updater(c, upd)
        c.ensure('next-request-out-iff-answered', "len(sent('link.send_packet')) == (2 if answers else 1)")
        c.ensure('next-request-is-the-queued-read', "implies(answers, sent('link.send_packet')[-1][1][0].channel == 1 and "
                 "bytes(sent('link.send_packet')[-1][1][0].data) == pack('%s', next_id))" % idfmt)
    return k


_exchange_step(True)
_exchange_step(False)


@contract('C04', 'before-fully-connected', [PRM + ':Param.set_value', PRM + ':Param.get_value', CF + ':Crazyflie.is_called_by_incoming_handler_thread'],
          clause='whatever the reply delays: a set / get issued before every parameter has been answered once does not transmit or return anything '
                 'prematurely - from an application thread it waits for the connection to complete and then proceeds with the typed value, or '
                 'gives up with an exception and no transmission; from the thread that delivers the answers it is refused at once WITHOUT '
                 'waiting (that thread is the only one that can deliver the answers the wait is for)',
          bounded='one uint16 parameter')
def before_fully_connected(c):
    c.int('id0', 0, 65535), c.int('cached', 0, 65535), c.int('value', 0, 65535)
    cf, param, upd = setup(c, [(c.get('id0'), 0x09, 'g', 'a')])
    deliver(c, cf, 3, "pack('<BHH', 1, id0, cached)")
    who = c.choice('caller', ['dispatcher-thread', 'application-thread'])
    completes = c.choice('connection_completes_while_waiting', [True, False])
    api = c.choice('api', ['set_value', 'get_value'])
    c.set(param, '_initialized', c.ext('initialized', returns={'is_set': False, 'isSet': False, 'wait': completes}))
    me = c.getfield(cf, 'incoming') if who == 'dispatcher-thread' else c.ext('application_thread')
    c.patch(CF + ':current_thread', c.ext('current_thread', returns={'()': me}))
    c.reset_trace()
    if api == 'set_value':
        c.call((param, 'set_value'), 'g.a', c.get('value'))
    else:
        c.call((param, 'get_value'), 'g.a')
    failed = c.get('raised') is not None
    if who == 'dispatcher-thread':
        c.ensure('refused-at-once-without-waiting', "raised == 'Exception' and len(sent('initialized.wait')) == 0")
        c.ensure('nothing-queued', 'upd.request_queue.qsize() == 0')
    elif not completes:
        c.ensure('gives-up-after-waiting', "raised == 'Exception' and len(sent('initialized.wait')) >= 1")
        c.ensure('nothing-queued', 'upd.request_queue.qsize() == 0')
    elif api == 'get_value':
        c.ensure('waits-then-returns-the-device-value', "raised is None and len(sent('initialized.wait')) >= 1 and result == str(cached)")
    else:
        c.ensure('waits-then-queues', "raised is None and len(sent('initialized.wait')) >= 1 and upd.request_queue.qsize() == 1")
        run_updater(c, upd)
        c.ensure('typed-value-transmitted', "len(sent('link.send_packet')) == 1 and bytes(sent('link.send_packet')[0][1][0].data) == pack('<HH', id0, value)")
    if failed:
        run_updater(c, upd)
        c.ensure('nothing-transmitted', "len(sent('link.send_packet')) == 0")


@contract('C04', 'read-and-queries.unknown-parameter', [PRM + ':Param.request_param_update', PRM + ':Param.persistent_store', PRM + ':Param.persistent_clear',
                                                       PRM + ':Param.persistent_get_state', PRM + ':Param.get_default_value', 'cflib.crazyflie.toc:Toc.get_element_id',
                                                       'cflib.crazyflie.toc:Toc.get_element_by_complete_name'],
          clause='unknown parameters are refused without any transmission - also for reads and for the persistent / default-value queries: no '
                 'request for some other parameter goes out in their place and no success is reported')
def unknown_parameter(c):
    cf, param, upd = setup(c, [(0, 0x09 | 0x10, 'g', 'a'), (1, 0x09 | 0x10, 'h', 'b')])
    for g, n in (('g', 'a'), ('h', 'b')):
        c.invoke((c.invoke((c.getfield(param, 'toc'), 'get_element'), g, n), 'mark_persistent'))
    api = c.choice('api', ['request_param_update', 'persistent_store', 'persistent_clear', 'persistent_get_state', 'get_default_value'])
    name = c.choice('name', ['g.b', 'x.a', 'nodot', 'g.a.a'])
    note = c.ext('note')
    c.reset_trace()
    if api == 'request_param_update':
        c.call((param, api), name)
    else:
        c.call((param, api), name, note)
    c.ensure('refused-or-failure-reported', "raised is not None or (len(sent('note')) == 1 and sent('note')[0][1][1] in (False, None))")
    c.ensure('no-success-reported', "all(e[1][1] in (False, None) for e in trace if e[0] == 'note')")
    c.ensure('nothing-queued', 'upd.request_queue.qsize() == 0')
    run_updater(c, upd)
    c.ensure('nothing-transmitted', "len(sent('link.send_packet')) == 0")


@contract('C04', 'concurrent-issue', SET_F + [PRM + ':_ParamUpdater._new_packet_cb', PRM + ':Param.request_param_update'],
          clause='requests issued from several threads go on the wire one at a time, in the order in which they were queued, each one intact '
                 '(index and typed value of ITS caller) and each answered before the next is sent - also when a second thread issues its '
                 'request while the first one is between building its packet and queueing it, and when further requests are issued while '
                 'the updater thread is inside the transmitting call',
          bounded='explicit schedules: thread B runs its whole set_value inside thread A\'s queue.put; threads C (set) and D (read) run inside '
                  'the link driver\'s send_packet of the first transmission; pre-emption inside queue.Queue itself is assumed atomic; '
                  'parameter indices symbolic, the three written values concrete and distinct')
def concurrent_issue(c):
    ids = [c.int('id%d' % i, 0, 65535) for i in range(4)]
    c.require('id0 != id1 and id0 != id2 and id0 != id3 and id1 != id2 and id1 != id3 and id2 != id3')
    cf, param, upd = setup(c, [(ids[0], 0x09, 'g', 'a'), (ids[1], 0x02, 'g', 'b'), (ids[2], 0x08, 'h', 'c'), (ids[3], 0x01, 'h', 'd')])
    # distinct concrete values: the schedule is the subject here, the encoding of every value is decided by set_value.*
    c.let('va', 0xBEEF), c.let('vb', -123456789), c.let('vc', 200)
    realq = c.getfield(upd, 'request_queue')
    st = {'b_done': False, 'cd_done': False}

    def put(_i, args, _k):
        if not st['b_done']:
            st['b_done'] = True
            c.invoke((param, 'set_value'), 'g.b', c.get('vb'))        # thread B, completely, before thread A's put takes effect
        c.invoke((realq, 'put'), args[0])
        return None
    c.set(upd, 'request_queue', c.ext('rq_shared', returns={'put': put}))
    c.call((param, 'set_value'), 'g.a', c.get('va'))                    # thread A
    c.ensure('both-accepted', 'raised is None')
    c.set(upd, 'request_queue', realq)
    c.ensure('both-queued-nothing-sent', "upd.request_queue.qsize() == 2 and len(sent('link.send_packet')) == 0")

    def send(_i, args, _k):
        if not st['cd_done']:
            st['cd_done'] = True
            c.invoke((param, 'set_value'), 'h.c', c.get('vc'))        # thread C
            c.invoke((param, 'request_param_update'), 'h.d')          # thread D
        return None
    c.set(cf, 'link', c.ext('link', attrs={'needs_resending': False}, returns={'send_packet': send}))
    c.reset_trace()
    run_updater(c, upd)
    c.ensure('first-queued-first-out-intact', "len(sent('link.send_packet')) == 1 and sent('link.send_packet')[0][1][0].channel == 2 and "
             "bytes(sent('link.send_packet')[0][1][0].data) == pack('<Hi', id1, vb)")
    run_updater(c, upd)
    c.ensure('others-wait', "len(sent('link.send_packet')) == 1 and upd.request_queue.qsize() == 3")
    deliver(c, cf, 2, "pack('<Hi', id1, vb)")
    run_updater(c, upd)
    c.ensure('second-queued-second-out-intact', "len(sent('link.send_packet')) == 2 and sent('link.send_packet')[1][1][0].channel == 2 and "
             "bytes(sent('link.send_packet')[1][1][0].data) == pack('<HH', id0, va)")
    deliver(c, cf, 2, "pack('<HH', id0, va)")
    run_updater(c, upd)
    c.ensure('third-out-intact', "len(sent('link.send_packet')) == 3 and sent('link.send_packet')[2][1][0].channel == 2 and "
             "bytes(sent('link.send_packet')[2][1][0].data) == pack('<HB', id2, vc)")
    run_updater(c, upd)
    c.ensure('read-waits-for-the-answer', "len(sent('link.send_packet')) == 3")
    deliver(c, cf, 2, "pack('<HB', id2, vc)")
    run_updater(c, upd)
    c.ensure('read-last', "len(sent('link.send_packet')) == 4 and sent('link.send_packet')[3][1][0].channel == 1 and "
             "bytes(sent('link.send_packet')[3][1][0].data) == pack('<H', id3)")
    c.int('vd', -2 ** 15, 2 ** 15 - 1)
    deliver(c, cf, 1, "pack('<HBh', id3, 0, vd)")
    c.ensure('every-value-attributed-to-its-parameter', "param.values['g']['a'] == str(va) and param.values['g']['b'] == str(vb) and "
             "param.values['h']['c'] == str(vc) and param.values['h']['d'] == str(vd) and not upd.wait_lock.locked() and upd.request_queue.qsize() == 0")


def _retry(v2):
    idfmt, hi = ('<H', 65535) if v2 else ('<B', 255)

    @contract('C04', 'retry-until-answered.%s' % ('v2' if v2 else 'v1'), [PRM + ':_ParamUpdater.run', PRM + ':_ParamUpdater._new_packet_cb', CF + ':Crazyflie.send_packet',
                                                                        CF + ':Crazyflie._check_for_answers', CF + ':Crazyflie._no_answer_do_retry'],
              clause='on a link that needs resending, a request that is not answered in time is retransmitted unchanged (the same request, not '
                     'the next one); once the device has answered - with whatever value it holds, which need not be the requested one - the '
                     'request is finished: no timer of it transmits anything any more, and the next request goes out',
              bounded='one retransmission; read, write' + (' and misc (persistent store) request' if v2 else '') + '; the timers are fired by the contract')
    def k(c):
        c.int('id0', 0, hi), c.int('id1', 0, hi)
        c.require('id0 != id1')
        cf, param, upd = setup(c, [(c.get('id0'), 0x09 | 0x10, 'g', 'a'), (c.get('id1'), 0x09, 'g', 'b')], v2)
        c.invoke((c.invoke((c.getfield(param, 'toc'), 'get_element'), 'g', 'a'), 'mark_persistent'))
        c.use_stubs(CF, ['Timer'])
        c.set(cf, 'link', c.ext('link', attrs={'needs_resending': True}))
        kind = c.choice('kind', ['write', 'read', 'misc'] if v2 else ['write', 'read'])
        c.int('value', 0, 65535), c.int('dev', 0, 65535)
        if kind == 'write':
            c.call((param, 'set_value'), 'g.a', c.get('value'))
            c.snapshot('want', "pack('%sH', id0, value)" % idfmt)
        elif kind == 'read':
            c.call((param, 'request_param_update'), 'g.a')
            c.snapshot('want', "pack('%s', id0)" % idfmt)
        else:
            c.call((param, 'persistent_store'), 'g.a', c.ext('note'))
            c.snapshot('want', "pack('<BH', 3, id0)")
        c.require('raised is None')
        c.call((param, 'request_param_update'), 'g.b')
        c.reset_trace()
        run_updater(c, upd)
        c.ensure('transmitted-once-retry-armed', "len(sent('link.send_packet')) == 1 and bytes(sent('link.send_packet')[0][1][0].data) == bytes(want) and len(sent('Timer')) == 1")
        c.snapshot('timers', "sent('Timer')")
        for e in c.get('timers'):
            c.call(e[1][1])                      # no answer within the timeout
        c.ensure('same-request-retransmitted-unchanged', "len(sent('link.send_packet')) == 2 and bytes(sent('link.send_packet')[1][1][0].data) == bytes(want) and "
                 "sent('link.send_packet')[1][1][0].channel == sent('link.send_packet')[0][1][0].channel and upd.wait_lock.locked()")
        if kind == 'write':
            deliver(c, cf, 2, "pack('%sH', id0, dev)" % idfmt)
        elif kind == 'read':
            deliver(c, cf, 1, ("pack('<HBH', id0, 0, dev)" if v2 else "pack('<BH', id0, dev)"))
        else:
            deliver(c, cf, 3, "pack('<BHB', 3, id0, 0)")
        c.ensure('answer-releases', 'not upd.wait_lock.locked()')
        c.snapshot('n_before', "len([n for n in calls() if n.endswith('send_packet')])")
        c.set(cf, 'link', c.ext('link', attrs={'needs_resending': True}))
        c.snapshot('timers', "sent('Timer')")
        for e in c.get('timers'):
            c.call(e[1][1])                      # every timer of the answered request fires late (cancel lost the race)
        c.ensure('nothing-retransmitted-after-the-answer', "len([n for n in calls() if n.endswith('send_packet')]) == n_before and len(sent('Timer')) == len(timers)")
        run_updater(c, upd)
        c.ensure('next-request-goes-out', "len([n for n in calls() if n.endswith('send_packet')]) == n_before + 1 and "
                 "bytes(sent('link.send_packet')[-1][1][0].data) == pack('%s', id1)" % idfmt)
    return k


_retry(True)
_retry(False)


def _reply_typed(code):
    fmt, size = TYPES[code][0], SIZES[code]

    @contract('C04', 'reply-decoding.%s' % NAMES[code], [PRM + ':Param._param_updated', PRM + ':_ParamUpdater._new_packet_cb', PRM + ':Param.get_value'],
              clause='once the device has answered, the cached value, the value returned by get_value and the value passed once to the update '
                     'callback equal the device value decoded in the declared type of the parameter - for the answer of a write, the answer '
                     'of a read (status byte between index and value) and a value-changed notification alike',
              bounded='any bit pattern of the type as device value' + (' (float types: eight boundary / ordinary bit patterns - the text form '
                                                                      'of a symbolic float is outside the engine)' if code in (0x06, 0x07) else ''))
    def k(c):
        c.int('id0', 0, 65535)
        cf, param, upd = setup(c, [(c.get('id0'), code, 'g', 'a')])
        cb = c.ext('cb')
        c.invoke((param, 'add_update_callback'), 'g', 'a', cb)
        how = c.choice('how', ['write-answer', 'read-answer', 'notification'])
        if code in (0x06, 0x07):
            pats = [0.0, -0.0, 1.5, -2.75, float('inf'), float('nan'), 3.4028234663852886e+38, 1e-45]
            import struct as _s
            c.let('raw', _s.pack(fmt, c.choice('pattern', pats)))
        else:
            c.bytes('raw', size)
        if how == 'write-answer':
            c.call((param, 'set_value'), 'g.a', 1)
        elif how == 'read-answer':
            c.call((param, 'request_param_update'), 'g.a')
        c.reset_trace()
        if how != 'notification':
            run_updater(c, upd)
            c.require("len(sent('link.send_packet')) == 1")
        if how == 'write-answer':
            deliver(c, cf, 2, "pack('<H', id0) + raw")
        elif how == 'read-answer':
            deliver(c, cf, 1, "pack('<HB', id0, 0) + raw")
        else:
            deliver(c, cf, 3, "pack('<BH', 1, id0) + raw")
        c.snapshot('dev', "unpack('%s', raw)[0]" % fmt)
        c.ensure('cached-typed-device-value', "param.values['g']['a'] == str(dev) and not upd.wait_lock.locked()")
        c.ensure('callback-once-with-it', "len(sent('cb')) == 1 and sent('cb')[0][1] == ('g.a', str(dev))")
        c.call((param, 'get_value'), 'g.a')
        c.ensure('get_value-returns-it', 'raised is None and result == str(dev)')
    return k


for _code in TYPES:
    _reply_typed(_code)


@contract('C04', 'toc-entry.flags', [PRM + ':ParamTocElement.__init__', PRM + ':ParamTocElement.get_readable_access', PRM + ':ParamTocElement.is_extended',
                                    PRM + ':Param.set_value', PRM + ':Param.persistent_store'],
          clause='read-only parameters are refused without any transmission, writable ones are transmitted in their declared type - for every '
                 'metadata byte the firmware can send: the type is the low nibble, read-only is bit 6 and nothing else (the group / extended / '
                 'reserved bits do not change type or access); a parameter that was not marked persistent is refused by persistent_store',
          bounded='the ten numeric type codes x all 16 combinations of the four flag bits')
def toc_entry_flags(c):
    code = c.choice('code', sorted(TYPES))
    c.let('code', code)
    c.int('flags', 0, 15)
    c.int('id0', 0, 65535)
    cf, param, upd = setup(c, [])
    c.snapshot('entry', "bytes([code | (flags << 4)]) + b'g' + bytes([0]) + b'a' + bytes([0])")
    el = c.new(PRM + ':ParamTocElement', c.get('id0'), c.get('entry'))
    c.invoke((c.getfield(param, 'toc'), 'add_element'), el)
    c.let('el', el)
    c.let('fmt', TYPES[code][0])
    c.ensure('declared-type-is-the-low-nibble', 'el.pytype == fmt')
    ro = bool(c.concretize('(flags & 4) != 0'))
    c.let('read_only', ro)
    c.call((el, 'get_readable_access'))
    c.ensure('access-is-bit-6', "raised is None and result == %r" % ('RO' if ro else 'RW'))
    c.call((el, 'is_extended'))
    c.ensure('extended-is-bit-4', "raised is None and result == ((flags & 1) != 0)")
    c.reset_trace()
    c.call((param, 'set_value'), 'g.a', 1)
    c.ensure('refused-iff-read-only', "raised == %r" % ('AttributeError' if ro else None))
    run_updater(c, upd)
    if ro:
        c.ensure('nothing-transmitted', "len(sent('link.send_packet')) == 0")
    else:
        c.ensure('transmitted-typed', "len(sent('link.send_packet')) == 1 and bytes(sent('link.send_packet')[0][1][0].data) == pack('<H', id0) + pack(fmt, 1)")
    c.call((param, 'persistent_store'), 'g.a', c.ext('note'))
    c.ensure('not-persistent-until-the-device-said-so', "raised == 'AttributeError' and len(sent('note')) == 0")


# FINDING (unchanged tree, replays natively; low severity): _ParamUpdater.close() releases the wait lock but leaves _lock_pattern
# set.  If the link goes away while a request is pending, the answer of that request - arriving in the NEXT connection of the same
# object while the updater is idle (before it transmits its first request, which overwrites the pattern) - still matches the stale
# pattern: it is decoded against the new table, cached and passed to the update callbacks although no request of this connection
# asked for it.  (While a request of the new connection is pending the pattern has been overwritten: contract `reconnect`.)
# Runs in the thorough tier only until the maintainer of this directory has decided between a fix: commit and a known finding.
@contract('C04', 'reconnect.late-answer-while-idle', [PRM + ':_ParamUpdater.close', PRM + ':_ParamUpdater._new_packet_cb', PRM + ':Param._disconnected'],
          clause='every reply is delivered to the request it answers and to no other: the answer to a request of the previous connection that '
                 'arrives in the next connection, while no request is pending, is delivered to nobody (not cached, no update callback)',
          bounded='one pending write at the time of the disconnect', thorough_only=True)
def late_answer_while_idle(c):
    c.int('id0', 0, 65535)
    cf, param, upd = setup(c, [(c.get('id0'), 0x09, 'g', 'a')])
    c.int('va', 0, 65535), c.int('late', 0, 65535)
    c.call((param, 'set_value'), 'g.a', c.get('va'))
    run_updater(c, upd)
    c.require("len(sent('link.send_packet')) == 1")
    c.set(cf, 'link', None)
    c.invoke((c.getfield(cf, 'disconnected'), 'call'), URI)
    c.call((c.getfield(cf, 'connection_requested'), 'call'), URI)
    c.set(cf, 'link', c.ext('link', attrs={'needs_resending': False}))
    fill_toc(c, param, [(c.get('id0'), 0x09, 'g', 'a')])
    cb = c.ext('cb')
    c.invoke((param, 'add_update_callback'), None, None, cb)
    c.reset_trace()
    deliver(c, cf, 2, "pack('<HH', id0, late)")
    c.ensure('late-answer-of-the-previous-connection-delivered-to-nobody', "len(sent('cb')) == 0 and 'g' not in param.values")
