"""C04 - parameter writes and reads are typed correctly and never cross-attributed.

All contracts drive a REAL Crazyflie object (real constructor, hence the real Param, _ParamUpdater, Toc and dispatcher)
whose link is a recording stub.  The updater thread's service loop `run()` is executed by the contract itself on a
sequential queue / lock model (`c.queue`, `c.lock`): it runs until it would block (pseudo exception Deadlock), which is
exactly "waits for the answer before the next request goes out".  Replies are delivered through the real dispatcher
(`_IncomingPacketHandler.run()` on a scripted link), so every registered port callback sees them, as in reality.

Decided: typed encoding of set_value for the 10 numeric types the firmware defines (protocol V2 and V1), refusal paths,
range errors, one request on the wire at a time in issue order and release only by the matching reply, value cache /
get_value / update callbacks after a reply, attribution of default-value and persistent store/clear/state replies to
the request with the same parameter id, unsolicited value-changed notifications.

Assumed: queue.Queue is FIFO and thread safe; threading.Lock semantics.  Not covered: genuine interleavings of several
application threads calling set_value concurrently (they only meet in queue.Queue.put, which is assumed atomic).
"""
from pyvc.api import contract

CF = 'cflib.crazyflie'
PRM = 'cflib.crazyflie.param'
STK = 'cflib.crtp.crtpstack'

TYPES = {0x08: ('<B', 0, 2 ** 8 - 1), 0x09: ('<H', 0, 2 ** 16 - 1), 0x0A: ('<L', 0, 2 ** 32 - 1), 0x0B: ('<Q', 0, 2 ** 64 - 1),
         0x00: ('<b', -2 ** 7, 2 ** 7 - 1), 0x01: ('<h', -2 ** 15, 2 ** 15 - 1), 0x02: ('<i', -2 ** 31, 2 ** 31 - 1),
         0x03: ('<q', -2 ** 63, 2 ** 63 - 1), 0x06: ('<f', None, None), 0x07: ('<d', None, None)}
NAMES = {0x08: 'uint8', 0x09: 'uint16', 0x0A: 'uint32', 0x0B: 'uint64', 0x00: 'int8', 0x01: 'int16', 0x02: 'int32', 0x03: 'int64',
         0x06: 'float', 0x07: 'double'}

SET_F = [PRM + ':Param.set_value', PRM + ':_ParamUpdater.request_param_setvalue', PRM + ':_ParamUpdater.run']


def toc_entry(code, group, name):
    return bytes([code]) + group.encode() + b'\x00' + name.encode() + b'\x00'


def setup(c, entries, v2=True):
    """real Crazyflie with a parameter TOC [(ident_input_name, type_code_with_flags, group, name)], link stub,
    sequential queue/lock in the updater.  Returns (cf, param, updater)."""
    cf = c.new(CF + ':Crazyflie')
    link = c.ext('link', attrs={'needs_resending': False})
    c.set(cf, 'link', link)
    param = c.getfield(cf, 'param')
    upd = c.getfield(param, 'param_updater')
    c.set(upd, 'request_queue', c.queue('rq'))
    c.set(upd, 'wait_lock', c.lock('wait_lock'))
    c.set(c.getfield(cf, 'platform'), '_protocolVersion', 9 if v2 else 1)     # negotiated protocol generation
    c.set(param, '_useV2', v2)
    c.set(upd, '_useV2', v2)
    toc = c.getfield(param, 'toc')
    for ident, code, group, name in entries:
        el = c.new(PRM + ':ParamTocElement', ident, toc_entry(code, group, name))
        c.invoke((toc, 'add_element'), el)
    c.invoke((c.getfield(param, '_initialized'), 'set'))
    c.let('cf', cf), c.let('param', param), c.let('upd', upd)
    c.reset_trace()
    return cf, param, upd


def run_updater(c, upd):
    """Run the real service loop until it blocks.  The loop dequeues a request and THEN waits for the lock; when it
    blocks there, the real thread keeps that request and continues with it once the lock is released.  The contract
    cannot resume a Python frame, so it puts the dequeued-but-not-yet-sent request back at the head of the queue
    before the next run (the statements in between have no other effect)."""
    q = c.getfield(upd, 'request_queue')
    before = list(q.items)
    c.call((upd, 'run'))
    c.ensure('updater-loop-only-blocks', "raised == 'Deadlock'", cls='A')
    if c.get('raised') == 'Deadlock' and c.concretize("'acquire' in str(exc)"):
        taken = len(before) - len(q.items)
        if taken >= 1:
            q.items.insert(0, before[taken - 1])


def deliver(c, cf, channel, data_expr):
    """hand one packet from the device to the real dispatcher"""
    c.snapshot('rx_data', data_expr)
    pk = c.new(STK + ':CRTPPacket', (2 << 4) | channel, c.get('rx_data'))
    pending = [pk]
    stop = c.raiser('StopLoop')

    def rx(*_a):
        if pending:
            return pending.pop(0)
        return stop()
    link = c.getfield(cf, 'link')
    if link is None:
        raise AssertionError('link closed')
    c.set(cf, 'link', c.ext('link', attrs={'needs_resending': False}, returns={'receive_packet': rx}))
    c.call((c.getfield(cf, 'incoming'), 'run'))
    c.ensure('dispatcher-survives', "raised == 'StopLoop'", cls='A')


def _set_value(code, v2):
    fmt, lo, hi = TYPES[code]

    @contract('C04', 'set_value.%s.%s' % (NAMES[code], 'v2' if v2 else 'v1'), SET_F,
              clause='setting a parameter transmits exactly the requested value encoded in the declared type to the parameter index; '
                     'values outside the type range raise instead of being wrapped, and nothing is transmitted')
    def k(c):
        ident = c.int('ident', 0, 65535 if v2 else 255)
        cf, param, upd = setup(c, [(ident, code, 'grp', 'par')], v2)
        if lo is None:
            c.float('value')
        else:
            # every in-range value of every type and out-of-range values up to +-2**66; the bound keeps integer <-> float
            # conversions (should the code introduce any) within reach of the bit-vector lowering
            c.int('value', -2 ** 66, 2 ** 66)
        c.call((param, 'set_value'), 'grp.par', c.get('value'))
        if lo is None:
            ok = "fits_f32(value)" if fmt == '<f' else 'True'
        else:
            ok = '%d <= value <= %d' % (lo, hi)
        c.ensure('raises-iff-out-of-range', "iff(raised is None, %s)" % ok)
        c.ensure('declared-errors-only', "raised in (None, 'struct.error', 'OverflowError')")
        if c.get('raised') is not None:
            c.ensure('nothing-queued-or-sent-on-error', "upd.request_queue.qsize() == 0 and len(trace) == 0")
            run_updater(c, upd)
            c.ensure('still-nothing-transmitted', "len(sent('link.send_packet')) == 0")
            return
        c.ensure('exactly-one-request-queued', 'upd.request_queue.qsize() == 1')
        run_updater(c, upd)
        c.ensure('transmitted-exactly-once', "len(sent('link.send_packet')) == 1")
        c.snapshot('pk', "sent('link.send_packet')[0][1][0]")
        c.ensure('port-channel', 'pk.port == 2 and pk.channel == 2')
        idfmt = '<H' if v2 else '<B'
        c.ensure('payload-is-index-then-typed-value', "bytes(pk.data) == pack('%s', ident) + pack('%s', value)" % (idfmt, fmt))
        c.ensure('waiting-for-this-reply', "upd.wait_lock.locked() and bytes(upd._lock_pattern) == pack('%s', ident)" % idfmt)
    return k


for _code in TYPES:
    _set_value(_code, True)
for _code in (0x08, 0x02, 0x06):
    _set_value(_code, False)


@contract('C04', 'set_value.string-and-bool-values', SET_F,
          clause='values given as decimal strings (as the library itself does for kalman.resetEstimation) are converted, not reinterpreted')
def set_value_str(c):
    cf, param, upd = setup(c, [(5, 0x08, 'kalman', 'resetEstimation')])
    v = c.choice('value', ['1', '0', '255', True, 7])
    c.call((param, 'set_value'), 'kalman.resetEstimation', v)
    c.ensure('no-exception', 'raised is None')
    run_updater(c, upd)
    c.let('num', int(v))
    c.ensure('payload', "bytes(sent('link.send_packet')[0][1][0].data) == pack('<HB', 5, num)")


@contract('C04', 'set_value.refused', [PRM + ':Param.set_value'],
          clause='read-only or unknown parameters are refused without any transmission')
def set_refused(c):
    cf, param, upd = setup(c, [(1, 0x08 | 0x40, 'g', 'ro'), (2, 0x08, 'g', 'rw')])
    which = c.choice('name', ['g.ro', 'g.missing', 'x.rw'])
    c.call((param, 'set_value'), which, 1)
    c.let('which', which)
    c.ensure('refused', "raised == ('AttributeError' if which == 'g.ro' else 'KeyError')")
    c.ensure('nothing-queued', 'upd.request_queue.qsize() == 0 and len(trace) == 0')
    run_updater(c, upd)
    c.ensure('nothing-transmitted', "len(sent('link.send_packet')) == 0")


@contract('C04', 'one-at-a-time', [PRM + ':_ParamUpdater.run', PRM + ':_ParamUpdater._new_packet_cb', PRM + ':_ParamUpdater.request_param_update',
                                  PRM + ':Param.request_param_update', PRM + ':Param.set_value', PRM + ':Param._param_updated'],
          clause='requests go on the wire one at a time in issue order, each answered before the next is sent; a reply releases only the '
                 'request it answers; cached value, get_value and every update callback carry the device value, once',
          bounded='three requests (set, read, set) on three parameters; stale / foreign replies in between')
def one_at_a_time(c):
    ids = [c.int('id%d' % i, 0, 65535) for i in range(3)]
    c.require('id0 != id1 and id1 != id2 and id0 != id2')
    cf, param, upd = setup(c, [(ids[0], 0x09, 'g', 'a'), (ids[1], 0x02, 'g', 'b'), (ids[2], 0x08, 'h', 'c')])
    c.use_stubs(PRM, [])
    note_a, note_g, note_all = c.ext('cb_a'), c.ext('cb_group_g'), c.ext('cb_all')
    c.invoke((param, 'add_update_callback'), 'g', 'a', note_a)
    c.invoke((param, 'add_update_callback'), 'g', None, note_g)
    c.invoke((param, 'add_update_callback'), None, None, note_all)
    c.int('va', 0, 65535), c.int('vb', -2 ** 31, 2 ** 31 - 1), c.int('vc', 0, 255)
    c.reset_trace()
    c.call((param, 'set_value'), 'g.a', c.get('va'))
    c.call((param, 'request_param_update'), 'g.b')
    c.call((param, 'set_value'), 'h.c', c.get('vc'))
    c.ensure('three-queued-nothing-sent', "upd.request_queue.qsize() == 3 and len(sent('link.send_packet')) == 0")
    run_updater(c, upd)
    c.ensure('only-first-on-the-wire', "len(sent('link.send_packet')) == 1 and bytes(sent('link.send_packet')[0][1][0].data) == pack('<HH', id0, va)")
    # replies for other parameters (on either channel) do not release the request
    deliver(c, cf, 2, "pack('<HB', id1, 0)")
    deliver(c, cf, 1, "pack('<HBB', id2, 0, 7)")
    c.ensure('foreign-replies-release-nothing', "upd.wait_lock.locked() and len(sent('cb_all')) == 0")
    run_updater(c, upd)
    c.ensure('still-only-first-on-the-wire', "len(sent('link.send_packet')) == 1")
    # the device answers the write with the value it now holds
    c.int('dev_a', 0, 65535)
    deliver(c, cf, 2, "pack('<HH', id0, dev_a)")
    c.ensure('released-by-own-reply', 'not upd.wait_lock.locked()')
    c.ensure('cache-holds-device-value', "param.values['g']['a'] == str(dev_a)")
    c.call((param, 'get_value'), 'g.a')
    c.ensure('get_value-returns-device-value', 'raised is None and result == str(dev_a)')
    c.ensure('callbacks-once-with-name-and-value', "len(sent('cb_a')) == 1 and len(sent('cb_group_g')) == 1 and len(sent('cb_all')) == 1 and "
             "all(e[1][0] == 'g.a' and e[1][1] == str(dev_a) for e in trace if e[0].startswith('cb_'))")
    run_updater(c, upd)
    c.ensure('second-request-goes-out-next', "len(sent('link.send_packet')) == 2 and sent('link.send_packet')[1][1][0].channel == 1 and "
             "bytes(sent('link.send_packet')[1][1][0].data) == pack('<H', id1)")
    # read reply: id, status byte, value
    deliver(c, cf, 1, "pack('<HBi', id1, 0, vb)")
    c.ensure('read-reply-cached', "param.values['g']['b'] == str(vb) and not upd.wait_lock.locked()")
    c.ensure('group-and-all-callbacks-only', "len(sent('cb_a')) == 1 and len(sent('cb_group_g')) == 2 and len(sent('cb_all')) == 2")
    run_updater(c, upd)
    c.ensure('third-request-last', "len(sent('link.send_packet')) == 3 and bytes(sent('link.send_packet')[2][1][0].data) == pack('<HB', id2, vc)")
    # unsolicited value-changed notification for g.a while h.c is pending: delivered, does not release
    c.int('dev_a2', 0, 65535)
    deliver(c, cf, 3, "pack('<BHH', 1, id0, dev_a2)")
    c.ensure('notification-updates-cache-without-release', "param.values['g']['a'] == str(dev_a2) and upd.wait_lock.locked() and len(sent('cb_a')) == 2")
    deliver(c, cf, 2, "pack('<HB', id2, vc)")
    c.ensure('all-done', "not upd.wait_lock.locked() and param.values['h']['c'] == str(vc) and upd.request_queue.qsize() == 0")
    # a late duplicate of the last reply (with whatever value) while the updater is idle is delivered to nobody
    c.int('late', 0, 255)
    c.require('late != vc')
    c.reset_trace()
    deliver(c, cf, 2, "pack('<HB', id2, late)")
    c.ensure('late-duplicate-not-delivered-again', "len(calls('cb_')) == 0 and param.values['h']['c'] == str(vc) and not upd.wait_lock.locked()")


MISC = {'persistent_get_state': 4, 'persistent_store': 3, 'persistent_clear': 5, 'get_default_value': 6}


def _attribution(api):
    cmd = MISC[api]

    @contract('C04', 'attribution.' + api, [PRM + ':Param.' + api, PRM + ':_ParamUpdater.send_param_misc', PRM + ':_ParamUpdater._new_packet_cb',
                                           PRM + ':_ParamUpdater.run'],
              clause='every %s reply is delivered exactly once to the request it answers (same parameter id) and to no other, '
                     'with several such requests outstanding' % api,
              bounded='three outstanding requests on three persistent parameters, answered in issue order')
    def k(c):
        ids = [c.int('id%d' % i, 0, 65535) for i in range(3)]
        c.require('id0 != id1 and id1 != id2 and id0 != id2')
        cf, param, upd = setup(c, [(ids[0], 0x09 | 0x10, 'g', 'a'), (ids[1], 0x09 | 0x10, 'g', 'b'), (ids[2], 0x09 | 0x10, 'g', 'c')])
        toc = c.getfield(param, 'toc')
        for n in 'abc':
            c.invoke((c.invoke((toc, 'get_element'), 'g', n), 'mark_persistent'))
        notes = [c.ext('note_%s' % n) for n in 'abc']
        for n, note in zip('abc', notes):
            c.call((param, api), 'g.' + n, note)
            c.ensure('request-%s-accepted' % n, 'raised is None')
        c.ensure('three-queued', 'upd.request_queue.qsize() == 3')
        c.reset_trace()
        for i, n in enumerate('abc'):
            run_updater(c, upd)
            c.ensure('request-%s-on-wire-in-order' % n, "len(sent('link.send_packet')) == %d and bytes(sent('link.send_packet')[-1][1][0].data) == pack('<BH', %d, id%d)" % (i + 1, cmd, i))
            c.int('v%d' % i, 0, 65535)
            if api == 'persistent_get_state':
                deliver(c, cf, 3, "pack('<BHBH', %d, id%d, 0, v%d)" % (cmd, i, i))
            elif api == 'get_default_value':
                deliver(c, cf, 3, "pack('<BHH', %d, id%d, v%d)" % (cmd, i, i))
            else:
                deliver(c, cf, 3, "pack('<BHB', %d, id%d, 0)" % (cmd, i))
            c.ensure('reply-%s-released-the-updater' % n, 'not upd.wait_lock.locked()')
            c.ensure('delivered-once-to-own-request-only-%s' % n,
                     ' and '.join("len(sent('note_%s')) == %d" % (m, 1 if j <= i else 0) for j, m in enumerate('abc')))
            c.ensure('callback-names-its-own-parameter-%s' % n, "sent('note_%s')[0][1][0] == 'g.%s'" % (n, n))
        if api == 'persistent_get_state':
            c.ensure('state-values-attributed', ' and '.join("sent('note_%s')[0][1][1].default_value == v%d and sent('note_%s')[0][1][1].is_stored is False" % (n, i, n) for i, n in enumerate('abc')))
        elif api == 'get_default_value':
            c.ensure('default-values-attributed', ' and '.join("sent('note_%s')[0][1][1] == v%d" % (n, i) for i, n in enumerate('abc')))
        else:
            c.ensure('status-attributed', ' and '.join("sent('note_%s')[0][1][1] is True" % n for n in 'abc'))
        # a late duplicate of the first reply reaches nobody
        c.reset_trace()
        if api == 'persistent_get_state':
            deliver(c, cf, 3, "pack('<BHBH', %d, id0, 0, v0)" % cmd)
        elif api == 'get_default_value':
            deliver(c, cf, 3, "pack('<BHH', %d, id0, v0)" % cmd)
        else:
            deliver(c, cf, 3, "pack('<BHB', %d, id0, 0)" % cmd)
        c.ensure('duplicate-reply-delivered-to-nobody', "len(calls('note_')) == 0")
    return k


for _api in MISC:
    _attribution(_api)


@contract('C04', 'misc.refused', [PRM + ':Param.persistent_store', PRM + ':Param.persistent_clear', PRM + ':Param.persistent_get_state'],
          clause='persistent requests on a non-persistent parameter are refused without any transmission')
def misc_refused(c):
    cf, param, upd = setup(c, [(3, 0x09, 'g', 'a')])
    api = c.choice('api', ['persistent_store', 'persistent_clear', 'persistent_get_state'])
    c.call((param, api), 'g.a', c.ext('note'))
    c.ensure('refused', "raised == 'AttributeError'")
    c.ensure('nothing-queued', 'upd.request_queue.qsize() == 0 and len(trace) == 0')


@contract('C04', 'stale-read-reply-during-write', [PRM + ':_ParamUpdater._new_packet_cb'],
          clause='a reply is delivered to the request it answers and to no other: a stale READ reply for a parameter does not answer a pending WRITE of it')
def stale_read(c):
    c.int('id0', 0, 65535)
    cf, param, upd = setup(c, [(c.get('id0'), 0x09, 'g', 'a')])
    c.int('va', 0, 65535), c.int('old', 0, 65535)
    c.require('old != va')
    c.call((param, 'set_value'), 'g.a', c.get('va'))
    run_updater(c, upd)
    c.require("len(sent('link.send_packet')) == 1")
    deliver(c, cf, 1, "pack('<HBH', id0, 0, old)")      # duplicate of an earlier read reply, old value
    c.ensure('stale-read-reply-does-not-answer-the-write', "upd.wait_lock.locked() and 'g' not in param.values")


@contract('C04', 'reply-before-send-returns', [PRM + ':_ParamUpdater.run', PRM + ':_ParamUpdater._new_packet_cb', PRM + ':Param._param_updated'],
          clause='each request is answered before the next is sent, whatever the timing: a reply that the dispatcher thread processes before the '
                 'transmitting call has even returned to the updater thread is still attributed to the request and releases it',
          bounded='one write request; the reply is dispatched synchronously from inside link.send_packet (the earliest possible schedule)')
def reply_before_send_returns(c):
    c.int('ident', 0, 65535), c.int('value', 0, 65535), c.int('dev', 0, 65535)
    cf, param, upd = setup(c, [(c.get('ident'), 0x09, 'g', 'a')])
    done = []

    def send(_i, args, _k):
        if done:
            return None
        done.append(1)
        # the device answers at once and the dispatcher thread handles the answer before send_packet returns
        c.snapshot('rx_now', "pack('<HH', ident, dev)")
        pk = c.new(STK + ':CRTPPacket', (2 << 4) | 2, c.get('rx_now'))
        pending = [pk]
        stop = c.raiser('StopLoop')

        def rx(*_a):
            if pending:
                return pending.pop(0)
            return stop()
        link = c.getfield(cf, 'link')
        c.set(link, 'receive_packet', c.ext('link_rx', returns={'()': rx}))
        c.invoke_catch((c.getfield(cf, 'incoming'), 'run'))
        return None
    c.set(cf, 'link', c.ext('link', attrs={'needs_resending': False}, returns={'send_packet': send}))
    c.call((param, 'set_value'), 'g.a', c.get('value'))
    c.require('raised is None')
    run_updater(c, upd)
    c.ensure('request-released-by-its-early-reply', 'not upd.wait_lock.locked() and upd.request_queue.qsize() == 0')
    c.ensure('cache-holds-device-value', "param.values['g']['a'] == str(dev)")


@contract('C04', 'notification-during-misc-request', [PRM + ':_ParamUpdater._new_packet_cb', PRM + ':_ParamUpdater.run', PRM + ':Param.persistent_store'],
          clause='each request is answered before the next is sent: an unsolicited value-changed notification for the very parameter whose '
                 'persistent request is pending is delivered as a notification, but does not count as the answer of that request',
          bounded='one pending persistent_store followed by one queued read of another parameter')
def notification_during_misc(c):
    c.int('id0', 0, 65535), c.int('id1', 0, 65535)
    c.require('id0 != id1')
    cf, param, upd = setup(c, [(c.get('id0'), 0x09 | 0x10, 'g', 'a'), (c.get('id1'), 0x09, 'g', 'b')])
    toc = c.getfield(param, 'toc')
    c.invoke((c.invoke((toc, 'get_element'), 'g', 'a'), 'mark_persistent'))
    note = c.ext('note')
    c.call((param, 'persistent_store'), 'g.a', note)
    c.call((param, 'request_param_update'), 'g.b')
    c.require('raised is None')
    c.reset_trace()
    run_updater(c, upd)
    c.ensure('store-request-on-the-wire', "len(sent('link.send_packet')) == 1 and bytes(sent('link.send_packet')[0][1][0].data) == pack('<BH', 3, id0)")
    c.int('newval', 0, 65535)
    deliver(c, cf, 3, "pack('<BHH', 1, id0, newval)")        # MISC_VALUE_UPDATED for the same parameter
    c.ensure('notification-is-cached', "param.values['g']['a'] == str(newval)")
    c.ensure('pending-request-not-released-by-the-notification', "upd.wait_lock.locked() and len(sent('note')) == 0")
    run_updater(c, upd)
    c.ensure('next-request-waits', "len(sent('link.send_packet')) == 1")
    deliver(c, cf, 3, "pack('<BHB', 3, id0, 0)")
    c.ensure('own-reply-releases', "not upd.wait_lock.locked() and len(sent('note')) == 1 and sent('note')[0][1] == ('g.a', True)")
    run_updater(c, upd)
    c.ensure('next-request-goes-out-afterwards', "len(sent('link.send_packet')) == 2 and bytes(sent('link.send_packet')[1][1][0].data) == pack('<H', id1)")
