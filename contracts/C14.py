"""C14 - stored configuration images round-trip and validity follows the checksum.

Every contract drives the REAL functions (constructors, update(), new_data(), write_data() ...) through the memory-handler
interface they use: the handler is a recording stub, the bytes it would return are fed back exactly as the element requested
them (address, length), so multi-read protocols (EEPROM 16 + 5 bytes, 1-wire 11 bytes + element area) are histories of calls.

The byte layouts stated below (comment above each group) are the specification: my transcription of the firmware structs
(configblock.c, deck 1-wire memory, pulse_processor.h / lighthouse_calibration.h, deck_memory.c, locodeck memory handler,
crtp_commander_high_level poly4d, ledring12.c timing memory).  The firmware is not in the sandbox: the tables are trusted.

Design clauses (DESIGN.md C14) -> contracts
 O1 EEPROM          i2c.write_data (layout, raises iff unrepresentable, nothing written then), i2c.roundtrip (fresh reader, one or
                    two reads), i2c.valid-iff-checksum (EVERY read on the same object: history of two arbitrary images; valid iff
                    magic + known version + checksum; fields as stored), i2c.single-byte-corruption (any position / value of ANY valid
                    image; excluded: version byte 0<->1, which the format cannot detect - the DESIGN limit).
 O2 1-wire          ow.write_data.* / ow.roundtrip.* (8 element configurations incl. the element-area lengths 5 and 74 of the former
                    CRC-shortcut defect), ow.valid-iff-crc.* (valid iff start byte and both CRC bytes right, on a re-read, images built
                    from content + CRC error terms so that counter-models are real images under the real crc32).
                    crc32 is an uninterpreted function in the symbolic runs (round trips follow by congruence; concrete inputs are
                    computed) and the real binascii.crc32 in every native concordance / replay run.
 O3 lighthouse      lh.geo.add_mem_data, lh.geo.set_from_mem_data, lh.geo.mem-roundtrip, lh.calib.* (same three), lh.file-objects;
                    the mem round trips go through LighthouseMemory.write_*/read_*/new_data (page addresses, sizes 49 / 61, flush).
 O4 YAML managers   lhcfg.file-roundtrip (every subset of 2 + 2 base stations via symbolic valid flags), param.file-roundtrip,
                    file-type-envelope (file of the other type refused, empty parameter file).  ASSUMED contract of PyYAML:
                    yaml.safe_load(yaml.dump(d)) == d for plain data; the native runs use the real PyYAML on a real temporary file.
 O5 deck info       deck.parse-record (all 65,536 bit-field pairs, names of every length 0..18), deck.query (whole query: one read of
                    257 bytes, only valid records, keyed by index, per-record command address), deck.query-version.
    anchors         loco.anchor-pages, loco2.id-lists.n{0,1,3,16}, loco2.anchor-data.
    write-only      poly4d.pack, trajectory.write_data, ledtimings.write_data (RGB565 stated as round-to-nearest level, independent of
                    the code's multiply-shift formula; terminator record; terminator-like records not emitted).

Not covered (and why)
 * strings / lists of symbolic LENGTH (1-wire names and revisions of every length 0..255, every element order, anchor counts, number
   of trajectory pieces / LED timings): the engine needs concrete lengths; lengths and orders are enumerated and each such contract
   carries `bounded=`.
 * YAML files not produced by the library's own writers (type or version field missing, other version string): would need a
   hand-written file in both back ends; only the cross-type refusal is decided.  Geometry given as numpy arrays (yaml.dump of numpy
   scalars) is outside the assumed PyYAML contract.  I/O errors are not modelled.
 * 1-wire single-byte corruption detection: not claimed by the property (only the EEPROM checksum), and not provable with an
   uninterpreted crc32 (a one-byte CRC can collide).
 * EEPROM image whose version byte is neither 0 nor 1: the element never completes the update (no callback, valid stays False);
   stated in i2c.valid-iff-checksum as "reported once when decidable", not treated as a violation.
 * deck names that are not ASCII or not NUL padded, LPS2 id lists with a count above 16 (not device-encodable), LED timing fields
   outside their bit widths (the code masks them), CompressedStart/CompressedSegment (numeric codecs, C13), LighthouseMemHelper /
   LighthouseConfigWriter sequencing (other properties), write_done / erase / disconnect bookkeeping.
 * No thread interleavings are involved; histories are sequential.

FINDINGS on the unchanged tree (contracts kept, option thorough_only=True so that `./vcheck C14` stays green; they fail with a native
replay under `./vcheck C14 thorough`):
 * ow.any-element-area/reported-valid-without-exception: a 1-wire image with both CRC bytes right but an element id outside 1..3 (or a
   dangling TLV byte) is not reported at all: OWElement.new_data raises KeyError (struct.error) out of the memory callback, valid
   stays False and the update callback never fires.  Example: pins=196608 vid=246 pid=133 element data 00 F6 85.
 * ow.reread-roundtrip/elements-of-the-last-image and i2c.reread-roundtrip/fields-of-the-last-image: update() does not clear
   `elements`; after a re-read of rewritten content on the same object stale entries remain (a 'Custom' element, the
   'radio_address' of a former version-1 image).
"""
from pyvc.api import contract

I2C = 'cflib.crazyflie.mem.i2c_element'
OW = 'cflib.crazyflie.mem.ow_element'
LH = 'cflib.crazyflie.mem.lighthouse_memory'
DECK = 'cflib.crazyflie.mem.deck_memory'
LOCO = 'cflib.crazyflie.mem.loco_memory'
LOCO2 = 'cflib.crazyflie.mem.loco_memory_2'
TRAJ = 'cflib.crazyflie.mem.trajectory_memory'
LEDT = 'cflib.crazyflie.mem.led_timings_driver_memory'
LHCFG = 'cflib.localization.lighthouse_config_manager'
PIO = 'cflib.localization.param_io'


# ======================================================================================= EEPROM (I2C)

# the EEPROM image the firmware reads (configblock.c): '0xBC' magic, version, radio channel, radio speed,
# pitch trim, roll trim (binary32), [version 1: 5-byte radio address, most significant byte first in the
# struct but stored as B + little-endian I], checksum = sum of all previous bytes modulo 256
I2C_BODY = ("(pack('<BBBff', 0, ch, sp, pitch, roll) if version == 0 else "
            "pack('<BBBffBI', 1, ch, sp, pitch, roll, addr >> 32, addr & 0xFFFFFFFF))")
I2C_OK = ('0 <= ch <= 255 and 0 <= sp <= 255 and fits_f32(pitch) and fits_f32(roll) and '
          '(version == 0 or 0 <= addr < 2 ** 40)')


def i2c_element(c, name='mh'):
    mh = c.ext(name)
    el = c.new(I2C + ':I2CElement', 0, 0, 64, mh)
    return el, mh


def i2c_fields(c):
    version = c.choice('version', [0, 1])
    c.int('ch'), c.int('sp'), c.float('pitch'), c.float('roll'), c.int('addr')
    return version


def i2c_fill(c, el, version):
    """the caller's way of setting the content: the public `elements` dictionary"""
    c.let('el', el)
    c.let('version', version)
    c.snapshot('_', "el.elements.update({'version': version, 'radio_channel': ch, 'radio_speed': sp, "
                    "'pitch_trim': pitch, 'roll_trim': roll, 'radio_address': addr})")


@contract('C14', 'i2c.write_data', [I2C + ':I2CElement.write_data', I2C + ':I2CElement._checksum256'],
          clause='the EEPROM image written is magic + version-dependent struct + modulo-256 checksum (16 or 21 bytes), '
                 'written once at address 0; unrepresentable fields raise and nothing is written')
def i2c_write(c):
    el, mh = i2c_element(c)
    version = i2c_fields(c)
    i2c_fill(c, el, version)
    cb = c.ext('cb')
    c.reset_trace()
    c.call((el, 'write_data'), cb)
    if c.get('raised') is None:
        c.ensure('one-write-nothing-else', "calls() == ('mh.write',)")
        c.snapshot('w', "sent('mh.write')[0]")
        c.ensure('target', 'is_same(w[1][0], el) and w[1][1] == 0 and len(w[1]) == 3 and w[2] == {}')
        c.snapshot('body', "b'0xBC' + " + I2C_BODY)
        c.ensure('layout', 'bytes(w[1][2]) == body + bytes([sum(body) % 256])')
        c.ensure('length', 'len(w[1][2]) == (16 if version == 0 else 21)')
        c.ensure('tuple-of-ints', "typename(w[1][2]) == 'tuple'")
    else:
        c.ensure('nothing-written-when-raising', 'calls() == ()')
        c.ensure('declared-errors-only', "raised in ('struct.error', 'OverflowError')")
    c.ensure('raises-iff-unrepresentable', 'iff(raised is None, %s)' % I2C_OK)


def i2c_feed(c, el, mh, img_name, cb):
    """one complete read of the image `img_name` through the public update(): the reads are served exactly as the
    element requests them from its memory handler (16 bytes at 0, then 5 bytes at 16 for a version-1 header)"""
    c.reset_trace()
    c.call((el, 'update'), cb)
    c.ensure('update-no-exception', 'raised is None')
    c.ensure('update-requests-header', "calls('mh') == ('mh.read',) and sent('mh.read')[0][1][1:] == (0, 16)")
    c.reset_trace()
    c.call((el, 'new_data'), el, 0, c.snapshot('_first', '%s[0:16]' % img_name))
    if c.get('raised') is None and c.get('trace') and c.get('trace')[-1][0] == 'mh.read':
        c.ensure('second-read-is-address-part', "sent('mh.read')[0][1][1:] == (16, 5) and len(calls()) == 1")
        c.call((el, 'new_data'), el, 16, c.snapshot('_second', '%s[16:21]' % img_name))


@contract('C14', 'i2c.roundtrip', [I2C + ':I2CElement.write_data', I2C + ':I2CElement.update', I2C + ':I2CElement.new_data',
                                   I2C + ':I2CElement._checksum256'],
          clause='an EEPROM image written by write_data and parsed by a fresh element (one or two reads, as the code requests '
                 'them) is reported valid, exactly once, with the same version, channel, speed, address and the binary32 '
                 'values of the trims')
def i2c_roundtrip(c):
    el, mh = i2c_element(c)
    version = i2c_fields(c)
    i2c_fill(c, el, version)
    c.require(I2C_OK)
    c.call((el, 'write_data'), c.ext('wcb'))
    c.ensure('write-no-exception', 'raised is None')
    c.snapshot('img', "bytes(sent('mh.write')[0][1][2])")
    rd, _ = i2c_element(c)
    c.let('rd', rd)
    cb = c.ext('cb')
    i2c_feed(c, rd, mh, 'img', cb)
    c.ensure('no-exception', 'raised is None')
    c.ensure('valid', 'rd.valid is True')
    c.ensure('reported-once', "len(sent('cb')) == 1 and is_same(sent('cb')[0][1][0], rd) and rd._update_finished_cb is None")
    c.snapshot('e', 'rd.elements')
    c.ensure('ints-round-trip', "e['version'] == version and e['radio_channel'] == ch and e['radio_speed'] == sp")
    c.ensure('trims-round-trip', "same_float(e['pitch_trim'], f32(pitch)) and same_float(e['roll_trim'], f32(roll))")
    if version == 1:
        c.ensure('address-round-trips', "e['radio_address'] == addr")
        c.ensure('no-other-fields', 'len(e) == 6')
    else:
        c.ensure('no-other-fields', 'len(e) == 5')


I2C_VALID = ("(img[0:4] == b'0xBC' and ((img[4] == 0 and sum(img[0:15]) % 256 == img[15]) or "
             "(img[4] == 1 and sum(img[0:20]) % 256 == img[20])))")


@contract('C14', 'i2c.valid-iff-checksum', [I2C + ':I2CElement.update', I2C + ':I2CElement.new_data', I2C + ':I2CElement._checksum256'],
          clause='on EVERY read of an element (history: an earlier read of an arbitrary other image on the same object) the EEPROM '
                 'image is reported valid exactly when it has the magic, a known version and its stored checksum equals the sum '
                 'of the covered bytes modulo 256; the update callback fires exactly once for a known version or a bad magic')
def i2c_valid_iff(c):
    el, mh = i2c_element(c)
    c.let('el', el)
    c.bytes('img0', 21)
    c.bytes('img', 21)
    i2c_feed(c, el, mh, 'img0', c.ext('cb0'))
    c.require('raised is None')
    # a read that never completes (unknown version) keeps its callback: the client gives up (disconnect) and reads again
    c.call((el, 'disconnect'))
    i2c_feed(c, el, mh, 'img', c.ext('cb'))
    c.ensure('no-exception', 'raised is None')
    c.ensure('valid-iff-checksum', 'el.valid == %s' % I2C_VALID)
    c.ensure('valid-is-bool', "typename(el.valid) == 'bool'")
    c.ensure('reported-once-when-decidable', "implies(img[0:4] != b'0xBC' or img[4] in (0, 1), "
             "len(sent('cb')) == 1 and is_same(sent('cb')[0][1][0], el))")
    c.ensure('never-reported-twice', "len(sent('cb')) <= 1 and len(sent('cb0')) == 0")
    c.snapshot('e', 'el.elements')
    c.ensure('fields-as-stored', "(e['version'] == img[4] and e['radio_channel'] == img[5] and e['radio_speed'] == img[6] and "
             "same_float(e['pitch_trim'], unpack('<f', img[7:11])[0]) and same_float(e['roll_trim'], unpack('<f', img[11:15])[0])) "
             "if ('version' in e and img[0:4] == b'0xBC') else True")
    c.ensure('address-as-stored', "(e['radio_address'] == img[15] * 2 ** 32 + unpack('<I', img[16:20])[0]) "
             "if ('radio_address' in e and img[0:4] == b'0xBC' and img[4] == 1) else True")


@contract('C14', 'i2c.single-byte-corruption', [I2C + ':I2CElement.update', I2C + ':I2CElement.new_data', I2C + ':I2CElement._checksum256'],
          clause='any single corrupted byte (any position, any other value) of ANY valid image - in particular of every image '
                 'written by write_data, which is valid by i2c.roundtrip - is detected: the element read back is not valid.  '
                 'Excluded, because the format itself cannot detect it: the corruption that turns the version byte 0 into 1 or '
                 '1 into 0 (the parser then checks another length, see DESIGN C14 limit)')
def i2c_corruption(c):
    version = c.choice('version', [0, 1])
    n = 16 if version == 0 else 21
    c.bytes('good', n)
    c.let('n', n)
    c.require("good[4] == %d and good[0:4] == b'0xBC' and sum(good[0:n - 1]) %% 256 == good[n - 1]" % version)
    c.int('pos', 0, n - 1)
    c.int('newval', 0, 255)
    c.require('newval != good[pos]')
    c.require('not (pos == 4 and newval in (0, 1))')
    c.snapshot('img', 'bytes([(newval if i == pos else good[i]) for i in range(%d)])' % n)
    rd, mh = i2c_element(c)
    c.let('rd', rd)
    i2c_feed(c, rd, mh, 'img', c.ext('cb'))
    c.ensure('no-exception', 'raised is None')
    c.ensure('corruption-detected', 'rd.valid is False')


# ======================================================================================= 1-wire deck memory

# image the deck firmware / bootloader reads: header 0xEB, used pins (uint32 LE), vendor id, product id, CRC32 low byte of
# the 7 previous bytes; element area: version 0, length of the TLV data, TLV records (id, length, ISO-8859-1 text), CRC32
# low byte of the area so far.  Ids: 1 board name, 2 board revision, 3 custom.
OW_IDS = {'Board name': 1, 'Board revision': 2, 'Custom': 3}
OW_VAR = {'Board name': 'name', 'Board revision': 'rev', 'Custom': 'custom'}


def ow_element(c, mhname='mh'):
    mh = c.ext(mhname)
    return c.new(OW + ':OWElement', 0, 1, 112, 0, mh), mh


def ow_content(c, keys, lens):
    """symbolic deck identity: header fields and one Latin-1 string of the given length per element key"""
    c.int('pins'), c.int('vid'), c.int('pid')
    for k, n in zip(keys, lens):
        c.str(OW_VAR[k], n, lo=0, hi=255)
    c.let('written', None)
    return '{' + ', '.join('%r: %s' % (k, OW_VAR[k]) for k in keys) + '}'


def ow_fill(c, el, dict_expr):
    c.let('el', el)
    c.snapshot('_', "(setattr(el, 'pins', pins), setattr(el, 'vid', vid), setattr(el, 'pid', pid), el.elements.update(%s))" % dict_expr)


def ow_image_expr(keys):
    tlv = ' + '.join("pack('BB', %d, len(%s)) + %s.encode('ISO-8859-1')" % (OW_IDS[k], OW_VAR[k], OW_VAR[k]) for k in reversed(keys)) or "b''"
    return tlv


OW_OK = '0 <= pins < 2 ** 32 and 0 <= vid <= 255 and 0 <= pid <= 255'


def ow_feed(c, rd, img_name, cb):
    """one complete read through the public update(): 11 bytes at 0, then - if the element asks for it - the element
    area of the length it requests at address 8, served from the same image"""
    c.reset_trace()
    c.call((rd, 'update'), cb)
    c.ensure('update-no-exception', 'raised is None')
    c.ensure('update-requests-header', "calls('mh') == ('mh.read',) and sent('mh.read')[0][1][1:] == (0, 11)")
    c.reset_trace()
    c.call((rd, 'new_data'), rd, 0, c.snapshot('_first', '%s[0:11]' % img_name))
    tr = c.get('trace')
    if c.get('raised') is None and tr and tr[-1][0] == 'mh.read':
        c.ensure('second-read-is-element-area', "len(calls('mh')) == 1 and sent('mh.read')[0][1][1:] == (8, %s[9] + 3)" % img_name)
        c.call((rd, 'new_data'), rd, 8, c.snapshot('_second', '%s[8:8 + %s[9] + 3]' % (img_name, img_name)))


def _ow(keys, lens):
    tag = '+'.join('%s%d' % (OW_VAR[k], n) for k, n in zip(keys, lens)) or 'empty'
    bound = 'element insertion order %r with string lengths %r (enumerated configurations, not all lengths)' % (keys, lens)

    @contract('C14', 'ow.write_data.' + tag, [OW + ':OWElement.write_data'],
              clause='the 1-wire image written is header + CRC, element area (TLV, in reverse insertion order as the code emits '
                     'them) + CRC, in one write at address 0; unrepresentable header fields raise and nothing is written',
              bounded=bound)
    def w(c):
        el, mh = ow_element(c)
        ow_fill(c, el, ow_content(c, keys, lens))
        c.reset_trace()
        c.call((el, 'write_data'), c.ext('wcb'))
        if c.get('raised') is None:
            c.ensure('one-write-nothing-else', "calls() == ('mh.write',)")
            c.snapshot('w', "sent('mh.write')[0]")
            c.ensure('target', 'is_same(w[1][0], el) and w[1][1] == 0 and len(w[1]) == 3 and w[2] == {}')
            c.snapshot('hdr', "pack('<BIBB', 0xEB, pins, vid, pid)")
            c.snapshot('tlv', ow_image_expr(keys))
            c.snapshot('area', "pack('BB', 0, len(tlv)) + tlv")
            c.ensure('layout', 'bytes(w[1][2]) == hdr + bytes([crc32(hdr) & 0xFF]) + area + bytes([crc32(area) & 0xFF])')
            c.ensure('tuple-of-ints', "typename(w[1][2]) == 'tuple'")
        else:
            c.ensure('nothing-written-when-raising', 'calls() == ()')
            c.ensure('declared-errors-only', "raised == 'struct.error'")
        c.ensure('raises-iff-unrepresentable', 'iff(raised is None, %s)' % OW_OK)

    @contract('C14', 'ow.roundtrip.' + tag, [OW + ':OWElement.write_data', OW + ':OWElement.update', OW + ':OWElement.new_data',
                                            OW + ':OWElement._parse_and_check_header', OW + ':OWElement._parse_and_check_elements'],
              clause='a 1-wire image written by write_data and read by a fresh element (one or two reads, as the code requests '
                     'them) is reported valid exactly once with the same pins, vid, pid and exactly the same elements',
              bounded=bound)
    def r(c):
        el, mh = ow_element(c)
        d = ow_content(c, keys, lens)
        ow_fill(c, el, d)
        c.require(OW_OK)
        c.call((el, 'write_data'), c.ext('wcb'))
        c.ensure('write-no-exception', 'raised is None')
        c.snapshot('img', "bytes(sent('mh.write')[0][1][2])")
        rd, _ = ow_element(c)
        c.let('rd', rd)
        ow_feed(c, rd, 'img', c.ext('cb'))
        c.ensure('no-exception', 'raised is None')
        c.ensure('valid', 'rd.valid is True')
        c.ensure('reported-once', "len(sent('cb')) == 1 and is_same(sent('cb')[0][1][0], rd) and rd._update_finished_cb is None")
        c.ensure('header-round-trips', 'rd.pins == pins and rd.vid == vid and rd.pid == pid')
        c.ensure('elements-round-trip', 'rd.elements == %s and len(rd.elements) == %d' % (d, len(keys)))
    return w, r


for _k, _l in (((), ()),
               (('Board name',), (0,)), (('Board name',), (1,)),
               (('Board revision',), (3,)),                      # element area of 5 bytes starting with id 2
               (('Board name', 'Board revision'), (8, 2)),
               (('Board name', 'Board revision', 'Custom'), (2, 1, 0)),
               (('Custom', 'Board name', 'Board revision'), (1, 2, 3)),
               (('Custom',), (72,))):                            # element area of 74 bytes starting with id 3
    _ow(_k, _l)


def _ow_valid(lens):
    """validity follows the two CRCs.  The image is built from its content plus two symbolic CRC errors dh, de (added to the
    correct CRC bytes modulo 256) so that every solver model is a real image under the real crc32 in the replay."""
    tag = '-'.join(str(n) for n in lens) or 'empty'

    @contract('C14', 'ow.valid-iff-crc.' + tag, [OW + ':OWElement.update', OW + ':OWElement.new_data',
                                                OW + ':OWElement._parse_and_check_header', OW + ':OWElement._parse_and_check_elements'],
              clause='on every read (history: an earlier read of another image on the same object) a 1-wire image with a well '
                     'formed element area is reported valid exactly when the start byte is 0xEB and both stored CRC bytes equal '
                     'the low byte of the CRC32 recomputed over the header resp. the element area; it is reported exactly once '
                     'and the header fields are the ones stored',
              bounded='element areas of %d records with text lengths %r; record ids symbolic in 1..3' % (len(lens), lens))
    def v(c):
        rd, mh = ow_element(c)
        c.let('rd', rd)
        for suffix, ls in (('0', ()), ('', lens)):        # the earlier image has an empty element area
            c.int('start' + suffix, 0, 255), c.int('pins' + suffix, 0, 2 ** 32 - 1), c.int('vid' + suffix, 0, 255), c.int('pid' + suffix, 0, 255)
            c.int('aver' + suffix, 0, 255)
            c.int('dh' + suffix, 0, 255), c.int('de' + suffix, 0, 255)
            recs = []
            for i, n in enumerate(ls):
                c.int('id%d%s' % (i, suffix), 1, 3)
                c.bytes('txt%d%s' % (i, suffix), n)
                recs.append("pack('BB', id%d%s, %d) + txt%d%s" % (i, suffix, n, i, suffix))
            c.snapshot('hdr', "pack('<BIBB', start%s, pins%s, vid%s, pid%s)" % ((suffix,) * 4))
            c.snapshot('tlv', ' + '.join(recs) or "b''")
            c.snapshot('area', "pack('BB', aver%s, len(tlv)) + tlv" % suffix)
            c.snapshot('img' + suffix, 'hdr + bytes([(crc32(hdr) + dh%s) %% 256]) + area + bytes([(crc32(area) + de%s) %% 256])' % (suffix, suffix))
            ow_feed(c, rd, 'img' + suffix, c.ext('cb' + suffix))
            c.ensure('no-exception', 'raised is None')
        c.ensure('valid-iff-crc', 'rd.valid == (start == 0xEB and dh == 0 and de == 0)')
        c.ensure('valid-is-bool', "typename(rd.valid) == 'bool'")
        c.ensure('reported-exactly-once', "len(sent('cb')) == 1 and is_same(sent('cb')[0][1][0], rd) and len(sent('cb0')) == 0 "
                 "and rd._update_finished_cb is None")
        c.ensure('header-fields', 'rd.pins == pins and rd.vid == vid and rd.pid == pid')
    return v


for _l in ((), (0,), (2,), (1, 2)):
    _ow_valid(_l)


@contract('C14', 'ow.any-element-area', [OW + ':OWElement.update', OW + ':OWElement.new_data',
                                       OW + ':OWElement._parse_and_check_header', OW + ':OWElement._parse_and_check_elements'],
          clause='validity follows the CRC for ANY element-area content: an image whose header and element-area CRC bytes are '
                 'both right is reported valid (exactly once, no exception), whatever the bytes of the element area are',
          bounded='element data of 3 arbitrary bytes')      # FINDING on the unchanged tree, see module docstring
def ow_any_area(c):
    rd, mh = ow_element(c)
    c.let('rd', rd)
    c.int('pins', 0, 2 ** 32 - 1), c.int('vid', 0, 255), c.int('pid', 0, 255)
    c.bytes('tlv', 3)
    c.snapshot('hdr', "pack('<BIBB', 0xEB, pins, vid, pid)")
    c.snapshot('area', "pack('BB', 0, len(tlv)) + tlv")
    c.snapshot('img', 'hdr + bytes([crc32(hdr) & 0xFF]) + area + bytes([crc32(area) & 0xFF])')
    ow_feed(c, rd, 'img', c.ext('cb'))
    c.ensure('reported-valid-without-exception', "raised is None and rd.valid is True and len(sent('cb')) == 1")


# ======================================================================================= lighthouse memory layout

# firmware structs (pulse_processor.h / lighthouse_calibration.h), little endian, packed:
#   baseStationGeometry_t  { float origin[3]; float mat[3][3]; bool valid; }                       49 bytes
#   lighthouseCalibration_t{ struct { float phase, tilt, curve, gibmag, gibphase, ogeemag, ogeephase; } sweep[2];
#                            uint32_t uid; bool valid; }                                           61 bytes
# memory map of the lighthouse memory: geometry of base station i at 0x0000 + i * 0x100, calibration at 0x1000 + i * 0x100
GEO_FMT = '<ffffffffffff?'
CAL_FMT = '<ffffffffffffffL?'
SWEEP_FIELDS = ('phase', 'tilt', 'curve', 'gibmag', 'gibphase', 'ogeemag', 'ogeephase')


def geo_object(c, name='g', vname='gv', validname='gvalid'):
    """a geometry object as client code fills it: origin, rotation matrix, valid"""
    g = c.new(LH + ':LighthouseBsGeometry')
    v = c.floats(vname, 12)
    c.bool(validname)
    c.let(name, g)
    c.snapshot('_', "(setattr({g}, 'origin', [{v}[0], {v}[1], {v}[2]]), setattr({g}, 'rotation_matrix', [[{v}[3], {v}[4], {v}[5]], "
                    "[{v}[6], {v}[7], {v}[8]], [{v}[9], {v}[10], {v}[11]]]), setattr({g}, 'valid', {b}))".format(g=name, v=vname, b=validname))
    return g


def calib_object(c, name='k', vname='kv', uidname='uid', validname='kvalid'):
    k = c.new(LH + ':LighthouseBsCalibration')
    c.floats(vname, 14)
    c.int(uidname)
    c.bool(validname)
    c.let(name, k)
    sets = ["setattr(%s.sweeps[%d], %r, %s[%d])" % (name, s, f, vname, 7 * s + i) for s in (0, 1) for i, f in enumerate(SWEEP_FIELDS)]
    c.snapshot('_', '(' + ', '.join(sets) + ", setattr({k}, 'uid', {u}), setattr({k}, 'valid', {b}))".format(k=name, u=uidname, b=validname))
    return k


GEO_FLAT = 'g2.origin + g2.rotation_matrix[0] + g2.rotation_matrix[1] + g2.rotation_matrix[2]'
CAL_FLAT = '[field(g2.sweeps[s], f) for s in (0, 1) for f in %r]' % (SWEEP_FIELDS,)


@contract('C14', 'lh.geo.add_mem_data', [LH + ':LighthouseBsGeometry.add_mem_data', LH + ':LighthouseBsGeometry._add_vector'],
          clause='geometry memory image = firmware struct baseStationGeometry_t (12 binary32 + bool, 49 bytes) appended to the buffer; '
                 'a component outside binary32 raises OverflowError')
def lh_geo_add(c):
    g = geo_object(c)
    pre = c.bytearray('pre', 2)
    c.snapshot('pre0', 'bytes(pre)')
    c.call((g, 'add_mem_data'), pre)
    c.ensure('raises-iff-unrepresentable', 'iff(raised is None, all(fits_f32(x) for x in gv))')
    if c.get('raised') is None:
        c.ensure('layout', 'bytes(pre) == pre0 + pack(%r, *gv, gvalid)' % GEO_FMT)
        c.ensure('size', 'len(pre) - 2 == 49 == g.SIZE_GEOMETRY')
        c.ensure('object-unchanged', 'all(same_float(g.origin[i], gv[i]) for i in range(3)) and g.valid == gvalid')
    else:
        c.ensure('declared-errors-only', "raised == 'OverflowError'")


@contract('C14', 'lh.geo.set_from_mem_data', [LH + ':LighthouseBsGeometry.set_from_mem_data', LH + ':LighthouseBsGeometry._read_vector'],
          clause='any 49-byte geometry image parses to the 12 binary32 values in struct order and valid = (last byte != 0)')
def lh_geo_set(c):
    g = c.new(LH + ':LighthouseBsGeometry')
    c.let('g2', g)
    c.bytes('img', 49)
    c.call((g, 'set_from_mem_data'), c.get('img'))
    c.ensure('no-exception', 'raised is None')
    c.snapshot('want', 'unpack(%r, img)' % GEO_FMT)
    c.snapshot('flat', GEO_FLAT)
    c.ensure('fields', 'len(flat) == 12 and all(same_float(flat[i], want[i]) for i in range(12))')
    c.ensure('valid-flag', "g2.valid == (img[48] != 0) and typename(g2.valid) == 'bool'")
    c.ensure('shape', "typename(g2.origin) == 'list' and len(g2.origin) == 3 and len(g2.rotation_matrix) == 3 and "
                      "all(len(r) == 3 for r in g2.rotation_matrix)")


@contract('C14', 'lh.geo.mem-roundtrip', [LH + ':LighthouseBsGeometry.add_mem_data', LH + ':LighthouseBsGeometry.set_from_mem_data',
                                         LH + ':LighthouseMemory.write_geo_data', LH + ':LighthouseMemory.read_geo_data',
                                         LH + ':LighthouseMemory.new_data'],
          clause='geometry written through LighthouseMemory.write_geo_data (page address 0x100 * id, 49 bytes, flushed) and read back '
                 'through read_geo_data / new_data is delivered once to the reader as an equal geometry at binary32 precision')
def lh_geo_roundtrip(c):
    mh = c.ext('mh')
    mem = c.new(LH + ':LighthouseMemory', 4, 0x14, 0x2000, mh)
    c.let('mem', mem)
    g = geo_object(c)
    c.int('bs', 0, 15)
    c.require('all(fits_f32(x) for x in gv)')
    c.call((mem, 'write_geo_data'), c.get('bs'), g, c.ext('wcb'))
    c.ensure('write-no-exception', 'raised is None')
    c.ensure('one-write', "calls('mh') == ('mh.write',)")
    c.snapshot('w', "sent('mh.write')[0]")
    c.ensure('write-target', "is_same(w[1][0], mem) and w[1][1] == 0x100 * bs and w[2] == {'flush_queue': True} and len(w[1][2]) == 49")
    c.snapshot('img', 'bytes(w[1][2])')
    c.reset_trace()
    c.call((mem, 'read_geo_data'), c.get('bs'), c.ext('rcb'))
    c.ensure('read-request', "raised is None and calls('mh') == ('mh.read',) and sent('mh.read')[0][1][1:] == (0x100 * bs, 49)")
    c.call((mem, 'new_data'), mem, c.snapshot('_a', '0x100 * bs'), c.get('img'))
    c.ensure('no-exception', 'raised is None')
    c.ensure('delivered-once', "len(sent('rcb')) == 1 and is_same(sent('rcb')[0][1][0], mem) and mem._update_finished_cb is None")
    c.snapshot('g2', "sent('rcb')[0][1][1]")
    c.snapshot('flat', GEO_FLAT)
    c.ensure('is-geometry', "typename(g2) == 'LighthouseBsGeometry'")
    c.ensure('equal-content', 'len(flat) == 12 and all(same_float(flat[i], f32(gv[i])) for i in range(12)) and g2.valid == gvalid')


@contract('C14', 'lh.calib.add_mem_data', [LH + ':LighthouseBsCalibration.add_mem_data', LH + ':LighthouseBsCalibration._pack_sweep_calib'],
          clause='calibration memory image = firmware struct lighthouseCalibration_t (2 x 7 binary32, uint32 uid, bool; 61 bytes) appended '
                 'to the buffer; unrepresentable values raise')
def lh_calib_add(c):
    k = calib_object(c)
    pre = c.bytearray('pre', 1)
    c.snapshot('pre0', 'bytes(pre)')
    c.call((k, 'add_mem_data'), pre)
    c.ensure('raises-iff-unrepresentable', 'iff(raised is None, all(fits_f32(x) for x in kv) and 0 <= uid < 2 ** 32)')
    if c.get('raised') is None:
        c.ensure('layout', 'bytes(pre) == pre0 + pack(%r, *kv, uid, kvalid)' % CAL_FMT)
        c.ensure('size', 'len(pre) - 1 == 61 == k.SIZE_CALIBRATION')
    else:
        c.ensure('declared-errors-only', "raised in ('OverflowError', 'struct.error')")


@contract('C14', 'lh.calib.set_from_mem_data', [LH + ':LighthouseBsCalibration.set_from_mem_data',
                                               LH + ':LighthouseBsCalibration._unpack_sweep_calibration'],
          clause='any 61-byte calibration image parses to the 14 binary32 values in struct order, the uid and valid = (last byte != 0)')
def lh_calib_set(c):
    k = c.new(LH + ':LighthouseBsCalibration')
    c.let('g2', k)
    c.bytes('img', 61)
    c.call((k, 'set_from_mem_data'), c.get('img'))
    c.ensure('no-exception', 'raised is None')
    c.snapshot('want', 'unpack(%r, img)' % CAL_FMT)
    c.snapshot('flat', CAL_FLAT)
    c.ensure('fields', 'len(flat) == 14 and all(same_float(flat[i], want[i]) for i in range(14))')
    c.ensure('uid-valid', "g2.uid == want[14] and g2.valid == (img[60] != 0) and typename(g2.valid) == 'bool' and len(g2.sweeps) == 2")


@contract('C14', 'lh.calib.mem-roundtrip', [LH + ':LighthouseBsCalibration.add_mem_data', LH + ':LighthouseBsCalibration.set_from_mem_data',
                                           LH + ':LighthouseMemory.write_calib_data', LH + ':LighthouseMemory.read_calib_data',
                                           LH + ':LighthouseMemory.new_data'],
          clause='calibration written through LighthouseMemory.write_calib_data (page address 0x1000 + 0x100 * id, 61 bytes, flushed) and '
                 'read back through read_calib_data / new_data is delivered once as an equal calibration at binary32 precision')
def lh_calib_roundtrip(c):
    mh = c.ext('mh')
    mem = c.new(LH + ':LighthouseMemory', 4, 0x14, 0x2000, mh)
    c.let('mem', mem)
    k = calib_object(c)
    c.int('bs', 0, 15)
    c.require('all(fits_f32(x) for x in kv) and 0 <= uid < 2 ** 32')
    c.call((mem, 'write_calib_data'), c.get('bs'), k, c.ext('wcb'))
    c.ensure('write-no-exception', 'raised is None')
    c.ensure('one-write', "calls('mh') == ('mh.write',)")
    c.snapshot('w', "sent('mh.write')[0]")
    c.ensure('write-target', "is_same(w[1][0], mem) and w[1][1] == 0x1000 + 0x100 * bs and w[2] == {'flush_queue': True} and len(w[1][2]) == 61")
    c.snapshot('img', 'bytes(w[1][2])')
    c.reset_trace()
    c.call((mem, 'read_calib_data'), c.get('bs'), c.ext('rcb'))
    c.ensure('read-request', "raised is None and calls('mh') == ('mh.read',) and sent('mh.read')[0][1][1:] == (0x1000 + 0x100 * bs, 61)")
    c.call((mem, 'new_data'), mem, c.snapshot('_a', '0x1000 + 0x100 * bs'), c.get('img'))
    c.ensure('no-exception', 'raised is None')
    c.ensure('delivered-once', "len(sent('rcb')) == 1 and is_same(sent('rcb')[0][1][0], mem) and mem._update_finished_cb is None")
    c.snapshot('g2', "sent('rcb')[0][1][1]")
    c.snapshot('flat', CAL_FLAT)
    c.ensure('is-calibration', "typename(g2) == 'LighthouseBsCalibration'")
    c.ensure('equal-content', 'len(flat) == 14 and all(same_float(flat[i], f32(kv[i])) for i in range(14)) and g2.uid == uid and g2.valid == kvalid')


@contract('C14', 'lh.file-objects', [LH + ':LighthouseBsGeometry.as_file_object', LH + ':LighthouseBsGeometry.from_file_object',
                                    LH + ':LighthouseBsCalibration.as_file_object', LH + ':LighthouseBsCalibration.from_file_object',
                                    LH + ':LighthouseCalibrationSweep.as_file_object', LH + ':LighthouseCalibrationSweep.from_file_object'],
          clause='from_file_object(as_file_object(x)) has the content of x and valid = True, for geometry and calibration; the file '
                 'objects are plain dict/list/number data with the documented keys')
def lh_file_objects(c):
    g = geo_object(c)
    k = calib_object(c)
    c.call((g, 'as_file_object'))
    c.ensure('geo-file-object', "raised is None and typename(result) == 'dict' and len(result) == 2 and "
             "all(same_float(result['origin'][i], gv[i]) for i in range(3)) and len(result['origin']) == 3 and len(result['rotation']) == 3 and "
             "all(len(result['rotation'][r]) == 3 and all(same_float(result['rotation'][r][i], gv[3 + 3 * r + i]) for i in range(3)) for r in range(3))")
    c.call((c.cls(LH + ':LighthouseBsGeometry'), 'from_file_object'), c.get('result'))
    c.let('g2', c.get('result'))
    c.snapshot('flat', GEO_FLAT)
    c.ensure('geo-round-trip', "raised is None and typename(g2) == 'LighthouseBsGeometry' and g2.valid is True and len(flat) == 12 and "
             "all(same_float(flat[i], gv[i]) for i in range(12))")
    c.call((k, 'as_file_object'))
    c.ensure('calib-file-object', "raised is None and typename(result) == 'dict' and len(result) == 2 and result['uid'] == uid and "
             "len(result['sweeps']) == 2 and all(len(result['sweeps'][s]) == 7 and all(same_float(result['sweeps'][s][%r[i]], kv[7 * s + i]) "
             "for i in range(7)) for s in (0, 1))" % (SWEEP_FIELDS,))
    c.call((c.cls(LH + ':LighthouseBsCalibration'), 'from_file_object'), c.get('result'))
    c.let('g2', c.get('result'))
    c.snapshot('flat', CAL_FLAT)
    c.ensure('calib-round-trip', "raised is None and typename(g2) == 'LighthouseBsCalibration' and g2.valid is True and g2.uid == uid and "
             "len(flat) == 14 and all(same_float(flat[i], kv[i]) for i in range(14))")


# ======================================================================================= YAML files
# Assumed contract of the external library (stated, not proved): yaml.safe_load(yaml.dump(d)) == d for plain data
# (None/bool/int/float/str, lists, dicts with int or str keys).  The symbolic back end models open/yaml.dump/yaml.safe_load as a
# store of documents under that contract; the native replay / concordance runs use the real PyYAML on a real temporary file.

def _tmpfile(tag):
    import os
    return '/tmp/pyvc-C14-%s-%d.yaml' % (tag, os.getpid())


def _rmfile(c, fname):
    """the native back end writes a real file: remove it (the symbolic back end has no file)"""
    import os
    if c.backend == 'native' and os.path.exists(fname):
        os.remove(fname)


def _geo_equal(obj, v):
    flat = '({o}.origin + {o}.rotation_matrix[0] + {o}.rotation_matrix[1] + {o}.rotation_matrix[2])'.format(o=obj)
    return "(typename({o}) == 'LighthouseBsGeometry' and {o}.valid is True and len({f}) == 12 and all(same_float({f}[i], {v}[i]) for i in range(12)))".format(
        o=obj, f=flat, v=v)


def _calib_equal(obj, v, uid):
    flat = '[field({o}.sweeps[s], f) for s in (0, 1) for f in {fs!r}]'.format(o=obj, fs=SWEEP_FIELDS)
    return ("(typename({o}) == 'LighthouseBsCalibration' and {o}.valid is True and {o}.uid == {u} and len({o}.sweeps) == 2 and "
            "all(same_float({f}[i], {v}[i]) for i in range(14)))").format(o=obj, f=flat, v=v, u=uid)


@contract('C14', 'lhcfg.file-roundtrip', [LHCFG + ':LighthouseConfigFileManager.write', LHCFG + ':LighthouseConfigFileManager.read',
                                         LH + ':LighthouseBsGeometry.as_file_object', LH + ':LighthouseBsGeometry.from_file_object',
                                         LH + ':LighthouseBsCalibration.as_file_object', LH + ':LighthouseBsCalibration.from_file_object'],
          clause='read(write(geos, calibs, system_type)) returns exactly the valid geometries and calibrations (every subset of the base '
                 'stations given), with equal content and valid = True, and the system type',
          bounded='base station ids 0 and 5 (geometries), 1 and 15 (calibrations); validity flags, all values and the system type symbolic')
def lhcfg_roundtrip(c):
    fname = c.let('fname', _tmpfile('lhcfg'))
    try:
        geos = c.dict([(0, geo_object(c, 'ga', 'gav', 'gavalid')), (5, geo_object(c, 'gb', 'gbv', 'gbvalid'))])
        calibs = c.dict([(1, calib_object(c, 'ka', 'kav', 'kauid', 'kavalid')), (15, calib_object(c, 'kb', 'kbv', 'kbuid', 'kbvalid'))])
        c.int('stype')
        c.call(LHCFG + ':LighthouseConfigFileManager.write', fname, geos, calibs, c.get('stype'))
        c.ensure('write-no-exception', 'raised is None')
        c.call(LHCFG + ':LighthouseConfigFileManager.read', fname)
        c.ensure('no-exception', 'raised is None')
        c.ensure('result-shape', "typename(result) == 'tuple' and len(result) == 3 and typename(result[0]) == 'dict' and typename(result[1]) == 'dict'")
        c.snapshot('rg', 'result[0]')
        c.snapshot('rk', 'result[1]')
        c.ensure('system-type', 'result[2] == stype')
        c.ensure('only-given-ids', 'all(i in (0, 5) for i in rg) and all(i in (1, 15) for i in rk)')
        c.ensure('geo-0', '(%s) if 0 in rg else (not gavalid)' % _geo_equal('rg[0]', 'gav'))
        c.ensure('geo-5', '(%s) if 5 in rg else (not gbvalid)' % _geo_equal('rg[5]', 'gbv'))
        c.ensure('calib-1', '(%s) if 1 in rk else (not kavalid)' % _calib_equal('rk[1]', 'kav', 'kauid'))
        c.ensure('calib-15', '(%s) if 15 in rk else (not kbvalid)' % _calib_equal('rk[15]', 'kbv', 'kbuid'))
        c.ensure('valid-ones-present', 'iff(0 in rg, gavalid) and iff(5 in rg, gbvalid) and iff(1 in rk, kavalid) and iff(15 in rk, kbvalid)')
    finally:
        _rmfile(c, fname)


PPS = 'cflib.crazyflie.param:PersistentParamState'


@contract('C14', 'param.file-roundtrip', [PIO + ':ParamFileManager.write', PIO + ':ParamFileManager.read'],
          clause='read(write(params)) returns the same parameter names with equal PersistentParamState content (stored flag, default value, '
                 'stored value or None)',
          bounded='three parameters: (bool, int, int), (False, float, None), (True, float, float); names concrete, values symbolic')
def param_roundtrip(c):
    fname = c.let('fname', _tmpfile('param'))
    try:
        c.bool('s1'), c.int('d1'), c.int('v1'), c.float('d2'), c.float('d3'), c.float('v3')
        params = c.dict([('ring.effect', c.namedtuple(PPS, c.get('s1'), c.get('d1'), c.get('v1'))),
                         ('activeMarker.mode', c.namedtuple(PPS, False, c.get('d2'), None)),
                         ('health.startPropTest', c.namedtuple(PPS, True, c.get('d3'), c.get('v3')))])
        c.call(PIO + ':ParamFileManager.write', fname, params)
        c.ensure('write-no-exception', 'raised is None')
        c.call(PIO + ':ParamFileManager.read', fname)
        c.ensure('no-exception', 'raised is None')
        c.ensure('names', "typename(result) == 'dict' and len(result) == 3 and all(typename(result[n]) == 'PersistentParamState' for n in result)")
        c.ensure('param-1', "result['ring.effect'] == (s1, d1, v1) and typename(result['ring.effect'][0]) == 'bool'")
        c.snapshot('p2', "result['activeMarker.mode']")
        c.ensure('param-2', "p2.is_stored is False and same_float(p2.default_value, d2) and p2.stored_value is None")
        c.snapshot('p3', "result['health.startPropTest']")
        c.ensure('param-3', "p3.is_stored is True and same_float(p3.default_value, d3) and same_float(p3.stored_value, v3)")
    finally:
        _rmfile(c, fname)


@contract('C14', 'file-type-envelope', [PIO + ':ParamFileManager.read', LHCFG + ':LighthouseConfigFileManager.read',
                                       PIO + ':ParamFileManager.write', LHCFG + ':LighthouseConfigFileManager.write'],
          clause='a file of the other type is refused: reading a lighthouse configuration file as a parameter file (and the reverse) raises '
                 '"Unsupported file type"; an empty parameter file reads as no parameters')
def file_type_envelope(c):
    fname = c.let('fname', _tmpfile('envelope'))
    try:
        which = c.choice('which', ['lh-as-param', 'param-as-lh', 'empty-params'])
        if which == 'lh-as-param':
            c.call(LHCFG + ':LighthouseConfigFileManager.write', fname, c.dict([]), c.dict([]), 2)
            c.require('raised is None')
            c.call(PIO + ':ParamFileManager.read', fname)
            c.ensure('refused', "raised == 'Exception' and str(exc) == 'Unsupported file type'")
        elif which == 'param-as-lh':
            c.call(PIO + ':ParamFileManager.write', fname, c.dict([]))
            c.require('raised is None')
            c.call(LHCFG + ':LighthouseConfigFileManager.read', fname)
            c.ensure('refused', "raised == 'Exception' and str(exc) == 'Unsupported file type'")
        else:
            c.call(PIO + ':ParamFileManager.write', fname, c.dict([]))
            c.require('raised is None')
            c.call(PIO + ':ParamFileManager.read', fname)
            c.ensure('empty', 'raised is None and result == {}')
    finally:
        _rmfile(c, fname)


# ======================================================================================= deck memory info section

# firmware (deck_memory.c): info section = version byte (3) followed by 8 records of 0x20 bytes:
#   uint8 bitfield1 (1 valid, 2 started, 4 read, 8 write, 16 upgrade, 32 upgrade required, 64 bootloader active),
#   uint8 bitfield2 (1 reset to fw, 2 reset to bootloader), uint32 required hash, uint32 required length, uint32 base address,
#   char name[18] NUL padded (a name of 18 characters has no terminator)
DECK_FLAGS1 = ('is_valid', 'is_started', 'supports_read', 'supports_write', 'supports_fw_upgrade', 'is_fw_upgrade_required',
               'is_bootloader_active')
DECK_FLAGS2 = ('supports_reset_to_fw', 'supports_reset_to_bootloader')


def deck_record(c, suffix, name_len):
    """a symbolic info record whose ASCII name has exactly name_len characters; returns the spec expression of its 32 bytes"""
    c.int('bf1' + suffix, 0, 255), c.int('bf2' + suffix, 0, 255)
    c.int('hash' + suffix, 0, 2 ** 32 - 1), c.int('rlen' + suffix, 0, 2 ** 32 - 1), c.int('base' + suffix, 0, 2 ** 32 - 1)
    c.bytes('nm' + suffix, name_len)
    c.require('all(1 <= ch <= 127 for ch in nm%s)' % suffix)
    return "pack('<BBLLL', bf1{s}, bf2{s}, hash{s}, rlen{s}, base{s}) + nm{s} + bytes({pad})".format(s=suffix, pad=18 - name_len)


def deck_fields_ok(obj, suffix):
    flags = ' and '.join('%s.%s == ((bf1%s >> %d) & 1 == 1)' % (obj, f, suffix, i) for i, f in enumerate(DECK_FLAGS1))
    flags2 = ' and '.join('%s.%s == ((bf2%s >> %d) & 1 == 1)' % (obj, f, suffix, i) for i, f in enumerate(DECK_FLAGS2))
    return ("({f1} and {f2} and {o}.required_hash == hash{s} and {o}.required_length == rlen{s} and {o}._base_address == base{s} and "
            "{o}.name == nm{s}.decode('ascii'))").format(f1=flags, f2=flags2, o=obj, s=suffix)


@contract('C14', 'deck.parse-record', [DECK + ':DeckMemory._parse'] + [DECK + ':DeckMemory.' + f for f in DECK_FLAGS1 + DECK_FLAGS2],
          clause='a deck-memory info record parses to exactly the fields the device encoded: the seven + two flag properties equal the '
                 'bits of the two bit-field bytes for all 65,536 combinations, and a valid record yields hash, length, base address and the '
                 'name, for names of every length 0..18 (18 = no NUL terminator); an invalid record leaves the fields unset',
          bounded='names are ASCII (1..127) and NUL padded to the 18-byte field')
def deck_parse_record(c):
    n = c.choice('name_len', list(range(19)))
    rec = deck_record(c, '', n)
    d = c.new(DECK + ':DeckMemory', c.ext('mgr'), 0x1000)
    c.let('d', d)
    c.snapshot('rec', rec)
    c.require('len(rec) == 32')
    c.call((d, '_parse'), c.get('rec'))
    c.ensure('no-exception', 'raised is None')
    c.ensure('fields', '(%s) if bf1 & 1 == 1 else (%s)' % (
        deck_fields_ok('d', ''),
        'd.is_valid is False and d.name is None and d.required_hash is None and d.required_length is None and d._base_address is None and ' +
        ' and '.join('d.%s == ((bf1 >> %d) & 1 == 1)' % (f, i) for i, f in enumerate(DECK_FLAGS1)) + ' and ' +
        ' and '.join('d.%s == ((bf2 >> %d) & 1 == 1)' % (f, i) for i, f in enumerate(DECK_FLAGS2))))
    c.ensure('flag-types', ' and '.join("typename(d.%s) == 'bool'" % f for f in DECK_FLAGS1 + DECK_FLAGS2))
    c.ensure('command-address-kept', 'd._command_base_address == 0x1000')


@contract('C14', 'deck.query', [DECK + ':DeckMemoryManager.query_decks', DECK + ':DeckMemoryManager._new_data',
                               DECK + ':DeckMemoryManager._parse_info_section', DECK + ':DeckMemory._parse', DECK + ':DeckMemory.__init__'],
          clause='a query reads the 257-byte info section once and reports, exactly once, a dictionary holding exactly the records whose valid '
                 'bit is set, keyed by record index, each with the fields the device encoded and its own command address 0x1000 + 0x20 * index',
          bounded='records 0, 3, 7 fully symbolic with names of 18, 4 and 0 characters; records 1, 2, 4, 5, 6 symbolic but not valid')
def deck_query(c):
    mh = c.ext('mh')
    mgr = c.new(DECK + ':DeckMemoryManager', 7, 0x19, 0x20000000, mh)
    c.let('mgr', mgr)
    lens = {0: 18, 3: 4, 7: 0}
    recs = []
    for i in range(8):
        recs.append(deck_record(c, '_%d' % i, lens.get(i, 2)))
        if i not in lens:
            c.require('bf1_%d & 1 == 0' % i)
    c.snapshot('section', "pack('<B', 3) + " + ' + '.join(recs))
    c.require('len(section) == 257')
    c.call((mgr, 'query_decks'), c.ext('done'), c.ext('failed'))
    c.ensure('query-reads-info-section', "raised is None and calls() == ('mh.read',) and is_same(sent('mh.read')[0][1][0], mgr) and "
             "sent('mh.read')[0][1][1:] == (0, 257)")
    c.reset_trace()
    c.call((mgr, '_new_data'), mgr, 0, c.get('section'))
    c.ensure('no-exception', 'raised is None')
    c.ensure('reported-once', "calls() == ('done',) and len(sent('done')[0][1]) == 1 and mgr._query_complete_cb is None")
    c.snapshot('decks', "sent('done')[0][1][0]")
    c.ensure('is-the-stored-dict', "typename(decks) == 'dict' and is_same(decks, mgr.deck_memories)")
    c.ensure('only-valid-records', 'all(i in (0, 3, 7) for i in decks) and iff(0 in decks, bf1_0 & 1 == 1) and '
             'iff(3 in decks, bf1_3 & 1 == 1) and iff(7 in decks, bf1_7 & 1 == 1)')
    for i in (0, 3, 7):
        c.ensure('record-%d' % i, "(%s and decks[%d]._command_base_address == 0x1000 + 0x20 * %d and typename(decks[%d]) == 'DeckMemory') "
                 "if %d in decks else True" % (deck_fields_ok('decks[%d]' % i, '_%d' % i), i, i, i, i))


@contract('C14', 'deck.query-version', [DECK + ':DeckMemoryManager.query_decks', DECK + ':DeckMemoryManager._new_data',
                                       DECK + ':DeckMemoryManager._parse_info_section'],
          clause='an info section of another version than 3 is not parsed: the failure callback is called once with a message and no decks are reported')
def deck_query_version(c):
    mh = c.ext('mh')
    mgr = c.new(DECK + ':DeckMemoryManager', 7, 0x19, 0x20000000, mh)
    c.let('mgr', mgr)
    c.bytes('section', 257)
    c.require('section[0] != 3')
    c.call((mgr, 'query_decks'), c.ext('done'), c.ext('failed'))
    c.require('raised is None')
    c.reset_trace()
    c.call((mgr, '_new_data'), mgr, 0, c.get('section'))
    c.ensure('failure-reported-once', "raised is None and calls() == ('failed',) and len(sent('failed')[0][1]) == 1 and "
             "typename(sent('failed')[0][1][0]) == 'str'")
    c.ensure('nothing-stored', 'mgr.deck_memories == {} and mgr._query_complete_cb is None and mgr._query_failed_cb is None')


# ======================================================================================= loco positioning anchor lists

# firmware (locodeck memory handler): LPS v1: byte 0 = number of anchors; anchor page i at 0x1000 + 0x100 * i = float x, y, z, bool valid.
# LPS v2: id list at 0x0000 and active id list at 0x1000 = count byte + up to 16 ids; anchor page of id at 0x2000 + 0x100 * id.

@contract('C14', 'loco.anchor-pages', [LOCO + ':LocoMemory.update', LOCO + ':LocoMemory.new_data', LOCO + ':LocoMemory._request_page',
                                      LOCO + ':AnchorData.set_from_mem_data', LOCO + ':AnchorData.__init__'],
          clause='the anchor count and the fff? record of every anchor page are parsed as encoded (pages requested in order at '
                 '0x1000 + 0x100 * i, 13 bytes), and completion is reported exactly once after the last page',
          bounded='anchor counts 0..3 (the count byte is concrete, page contents symbolic)')
def loco_pages(c):
    mh = c.ext('mh')
    m = c.new(LOCO + ':LocoMemory', 3, 0x11, 0x2000, mh)
    c.let('m', m)
    n = c.choice('n', [0, 1, 2, 3])
    c.let('n', n)
    c.call((m, 'update'), c.ext('cb'))
    c.ensure('update-reads-count', "raised is None and calls() == ('mh.read',) and sent('mh.read')[0][1][1:] == (0, 1) and m.valid is False")
    c.reset_trace()
    c.call((m, 'new_data'), m, 0, bytes([n]))
    c.ensure('count-no-exception', 'raised is None')
    for i in range(n):
        c.ensure('page-%d-requested' % i, "calls() == ('mh.read',) and sent('mh.read')[0][1][1:] == (0x1000 + 0x100 * %d, 13) and m.valid is False" % i)
        c.reset_trace()
        c.bytes('page%d' % i, 13)
        c.call((m, 'new_data'), m, 0x1000 + 0x100 * i, c.get('page%d' % i))
        c.ensure('page-%d-no-exception' % i, 'raised is None')
    c.ensure('reported-once', "calls() == ('cb',) and is_same(sent('cb')[0][1][0], m) and m.valid is True and m._update_finished_cb is None")
    c.ensure('count', 'm.nr_of_anchors == n and len(m.anchor_data) == n')
    for i in range(n):
        c.snapshot('want', "unpack('<fff?', page%d)" % i)
        c.snapshot('a', 'm.anchor_data[%d]' % i)
        c.ensure('anchor-%d' % i, "typename(a) == 'AnchorData' and typename(a.position) == 'tuple' and len(a.position) == 3 and "
                 "all(same_float(a.position[j], want[j]) for j in range(3)) and a.is_valid == (page%d[12] != 0) and typename(a.is_valid) == 'bool'" % i)


def _loco2_ids(n):
    @contract('C14', 'loco2.id-lists.n%d' % n, [LOCO2 + ':LocoMemory2.update_id_list', LOCO2 + ':LocoMemory2.update_active_id_list',
                                               LOCO2 + ':LocoMemory2.new_data', LOCO2 + ':LocoMemory2._handle_id_list_data',
                                               LOCO2 + ':LocoMemory2._handle_active_id_list_data'],
              clause='the anchor id list and the active id list parse to exactly the count and the ids the device encoded, in order, '
                     'ignoring the unused tail of the 17-byte list; each update is reported exactly once',
              bounded='%d ids (counts 0, 1, 3, 16 enumerated), %d active ids' % (n, min(n, 2)))
    def k(c):
        mh = c.ext('mh')
        m = c.new(LOCO2 + ':LocoMemory2', 3, 0x13, 0x4000, mh)
        c.let('m', m)
        na = min(n, 2)
        c.let('n', n), c.let('na', na)
        c.bytes('ids', n), c.bytes('tail', 16 - n), c.bytes('act', na), c.bytes('atail', 16 - na)
        c.call((m, 'update_id_list'), c.ext('cb'))
        c.ensure('request', "raised is None and calls() == ('mh.read',) and sent('mh.read')[0][1][1:] == (0, 17) and m.ids_valid is False")
        c.reset_trace()
        c.call((m, 'new_data'), m, 0, c.snapshot('_l', 'bytes([n]) + ids + tail'))
        c.ensure('ids', "raised is None and m.nr_of_anchors == n and m.anchor_ids == list(ids) and m.ids_valid is True")
        c.ensure('reported-once', "calls() == ('cb',) and is_same(sent('cb')[0][1][0], m) and m._update_ids_finished_cb is None")
        c.reset_trace()
        c.call((m, 'update_active_id_list'), c.ext('acb'))
        c.ensure('active-request', "raised is None and calls() == ('mh.read',) and sent('mh.read')[0][1][1:] == (0x1000, 17) and m.active_ids_valid is False")
        c.reset_trace()
        c.call((m, 'new_data'), m, 0x1000, c.snapshot('_a', 'bytes([na]) + act + atail'))
        c.ensure('active-ids', "raised is None and m.active_anchor_ids == list(act) and m.active_ids_valid is True and m.anchor_ids == list(ids)")
        c.ensure('active-reported-once', "calls() == ('acb',) and is_same(sent('acb')[0][1][0], m) and m._update_active_ids_finished_cb is None")
        # history: the lists are read again later (anchors come and go); each read gives exactly the list of that read
        na2 = 1 if n else 0
        c.let('na2', na2)
        c.bytes('act2', na2), c.bytes('atail2', 16 - na2)
        c.call((m, 'update_active_id_list'), c.ext('acb2'))
        c.reset_trace()
        c.call((m, 'new_data'), m, 0x1000, c.snapshot('_a2', 'bytes([na2]) + act2 + atail2'))
        c.ensure('active-ids-of-the-second-read-only', "raised is None and m.active_anchor_ids == list(act2) and m.active_ids_valid is True and calls() == ('acb2',)")
        c.bytes('ids2', n), c.bytes('tail2', 16 - n)
        c.call((m, 'update_id_list'), c.ext('cb2'))
        c.reset_trace()
        c.call((m, 'new_data'), m, 0, c.snapshot('_l2', 'bytes([n]) + ids2 + tail2'))
        c.ensure('ids-of-the-second-read-only', "raised is None and m.nr_of_anchors == n and m.anchor_ids == list(ids2) and m.active_anchor_ids == [] and calls() == ('cb2',)")
    return k


for _n in (0, 1, 3, 16):
    _loco2_ids(_n)


@contract('C14', 'loco2.anchor-data', [LOCO2 + ':LocoMemory2.update_data', LOCO2 + ':LocoMemory2.new_data', LOCO2 + ':LocoMemory2._handle_anchor_data',
                                      LOCO2 + ':LocoMemory2._request_page', LOCO2 + ':AnchorData2.set_from_mem_data',
                                      LOCO2 + ':LocoMemory2._handle_id_list_data'],
          clause='anchor data is fetched for exactly the listed ids, in list order, from page 0x2000 + 0x100 * id (13 bytes), each fff? record '
                 'is stored under its id as encoded, and completion is reported exactly once after the last one',
          bounded='two anchors with ids (0, 1), (7, 2) or (255, 128); page contents symbolic')
def loco2_data(c):
    mh = c.ext('mh')
    m = c.new(LOCO2 + ':LocoMemory2', 3, 0x13, 0x4000, mh)
    c.let('m', m)
    id0, id1 = c.choice('ids', [(0, 1), (7, 2), (255, 128)])
    c.let('id0', id0), c.let('id1', id1)
    c.bytes('p0', 13), c.bytes('p1', 13)
    c.call((m, 'update_id_list'), c.ext('cb'))
    c.call((m, 'new_data'), m, 0, bytes([2, id0, id1]) + bytes(14))
    c.require('raised is None')
    c.reset_trace()
    c.call((m, 'update_data'), c.ext('dcb'))
    c.ensure('first-page', "raised is None and calls() == ('mh.read',) and sent('mh.read')[0][1][1:] == (0x2000 + 0x100 * id0, 13) and m.data_valid is False")
    c.reset_trace()
    c.call((m, 'new_data'), m, 0x2000 + 0x100 * id0, c.get('p0'))
    c.ensure('second-page', "raised is None and calls() == ('mh.read',) and sent('mh.read')[0][1][1:] == (0x2000 + 0x100 * id1, 13) and m.data_valid is False")
    c.reset_trace()
    c.call((m, 'new_data'), m, 0x2000 + 0x100 * id1, c.get('p1'))
    c.ensure('reported-once', "raised is None and calls() == ('dcb',) and is_same(sent('dcb')[0][1][0], m) and m.data_valid is True and "
             "m._update_data_finished_cb is None")
    c.ensure('exactly-the-listed-ids', 'len(m.anchor_data) == 2 and id0 in m.anchor_data and id1 in m.anchor_data')
    for i in (0, 1):
        c.snapshot('want', "unpack('<fff?', p%d)" % i)
        c.snapshot('a', 'm.anchor_data[id%d]' % i)
        c.ensure('anchor-%d' % i, "typename(a) == 'AnchorData2' and len(a.position) == 3 and all(same_float(a.position[j], want[j]) for j in range(3)) "
                 "and a.is_valid == (p%d[12] != 0)" % i)


# ======================================================================================= write-only images

# firmware struct poly4d { float p[4][8]; float duration; } (x, y, z, yaw polynomials, then the duration): 132 bytes, little endian
@contract('C14', 'poly4d.pack', [TRAJ + ':Poly4D.pack', TRAJ + ':Poly4D.__init__', TRAJ + ':Poly4D.Poly.__init__'],
          clause='a polynomial trajectory piece is packed as 33 binary32 values in the order x[0..7], y[0..7], z[0..7], yaw[0..7], duration '
                 '(132 bytes); an omitted polynomial is all zeros; a coefficient outside binary32 raises OverflowError')
def poly4d_pack(c):
    names = ['x', 'y', 'z', 'yaw']
    omit = c.choice('omit', [None, 'z'])
    polys = {}
    for nm in names:
        if nm == omit:
            c.let(nm, [0.0] * 8)
            continue
        vals = c.floats(nm, 8)
        polys[nm] = c.new(TRAJ + ':Poly4D.Poly', vals)
    c.float('duration')
    p = c.new(TRAJ + ':Poly4D', c.get('duration'), **polys)
    c.call((p, 'pack'))
    c.ensure('raises-iff-unrepresentable', 'iff(raised is None, all(fits_f32(v) for v in list(x) + list(y) + list(z) + list(yaw) + [duration]))')
    if c.get('raised') is None:
        c.ensure('layout', "bytes(result) == pack('<' + 'f' * 33, *x, *y, *z, *yaw, duration)")
        c.ensure('size', "len(result) == 132 and typename(result) == 'bytearray'")
    else:
        c.ensure('declared-errors-only', "raised == 'OverflowError'")


@contract('C14', 'trajectory.write_data', [TRAJ + ':TrajectoryMemory.write_data', TRAJ + ':Poly4D.pack'],
          clause='the trajectory image is the concatenation of the packed pieces in list order, written once (flushed) at the start address; the '
                 'number of bytes is returned',
          bounded='two pieces (representable coefficients)')
def trajectory_write(c):
    mh = c.ext('mh')
    t = c.new(TRAJ + ':TrajectoryMemory', 5, 0x12, 4096, mh)
    c.let('t', t)
    pieces = []
    for i in (0, 1):
        ps = {}
        for nm in ('x', 'y', 'z', 'yaw'):
            ps[nm] = c.new(TRAJ + ':Poly4D.Poly', c.floats('%s%d' % (nm, i), 8))
        c.float('dur%d' % i)
        pieces.append(c.new(TRAJ + ':Poly4D', c.get('dur%d' % i), **ps))
        c.require('all(fits_f32(v) for v in list(x{i}) + list(y{i}) + list(z{i}) + list(yaw{i}) + [dur{i}])'.format(i=i))
    c.let('pieces', pieces)
    c.snapshot('_', "setattr(t, 'trajectory', pieces)")
    c.int('start', 0, 4095)
    c.reset_trace()
    c.call((t, 'write_data'), c.ext('done'), c.ext('failed'), c.get('start'))
    c.ensure('no-exception', 'raised is None')
    c.ensure('one-write', "calls() == ('mh.write',) and is_same(sent('mh.write')[0][1][0], t) and sent('mh.write')[0][1][1] == start and "
             "len(sent('mh.write')[0][1]) == 3 and sent('mh.write')[0][2] == {'flush_queue': True}")
    c.ensure('layout', "bytes(sent('mh.write')[0][1][2]) == pack('<' + 'f' * 33, *x0, *y0, *z0, *yaw0, dur0) + pack('<' + 'f' * 33, *x1, *y1, *z1, *yaw1, dur1)")
    c.ensure('returns-size', 'result == 264')


# firmware (ledring12.c, "timing memory" effect): records of 4 bytes: duration, RGB565 high byte, RGB565 low byte,
# leds (bits 0-3) | fade (bit 4) | rotate (bits 5-7); the sequence ends at the first all-zero record.  RGB565 = nearest 5/6/5-bit level.
LED565 = '(((2 * r{i} * 31 + 255) // 510) * 2048 + ((2 * g{i} * 63 + 255) // 510) * 32 + ((2 * b{i} * 31 + 255) // 510))'


@contract('C14', 'ledtimings.write_data', [LEDT + ':LEDTimingsDriverMemory.add', LEDT + ':LEDTimingsDriverMemory.write_data'],
          clause='the LED timing image is one 4-byte record per timing (duration, RGB565 big endian with each colour rounded to the nearest 5/6/5 '
                 'bit level, leds | fade << 4 | rotate << 5), in order, a timing that would read as the all-zero terminator is not emitted, and '
                 'the image ends with the all-zero terminator record; written once (flushed) at address 0',
          bounded='two timings; time 0..65535 (only the low byte is transmitted), colours 0..255, leds 0..15, rotate 0..7')
def ledtimings_write(c):
    mh = c.ext('mh')
    m = c.new(LEDT + ':LEDTimingsDriverMemory', 6, 0x17, 2000, mh)
    c.let('m', m)
    for i in (0, 1):
        c.int('time%d' % i, 0, 65535), c.int('r%d' % i, 0, 255), c.int('g%d' % i, 0, 255), c.int('b%d' % i, 0, 255)
        c.int('leds%d' % i, 0, 15), c.bool('fade%d' % i), c.int('rotate%d' % i, 0, 7)
        c.call((m, 'add'), c.get('time%d' % i), c.dict([('r', c.get('r%d' % i)), ('g', c.get('g%d' % i)), ('b', c.get('b%d' % i))]),
               c.get('leds%d' % i), c.get('fade%d' % i), c.get('rotate%d' % i))
        c.require('raised is None')
        c.snapshot('led%d' % i, LED565.format(i=i))
        c.snapshot('rec%d' % i, '(time{i} % 256, led{i} // 256, led{i} % 256, leds{i} + (16 if fade{i} else 0) + rotate{i} * 32)'.format(i=i))
    c.reset_trace()
    c.call((m, 'write_data'), c.ext('done'))
    c.ensure('no-exception', 'raised is None')
    c.ensure('one-write', "calls() == ('mh.write',) and is_same(sent('mh.write')[0][1][0], m) and sent('mh.write')[0][1][1] == 0 and "
             "len(sent('mh.write')[0][1]) == 3 and sent('mh.write')[0][2] == {'flush_queue': True}")
    c.snapshot('img', "bytes(sent('mh.write')[0][1][2])")
    c.snapshot('z', '(0, 0, 0, 0)')
    nrec = c.snapshot('nrec', 'len(img) // 4 - 1')        # concrete on every path
    c.ensure('terminated', 'len(img) % 4 == 0 and nrec >= 0 and tuple(img[-4:]) == z')
    if nrec == 0:
        c.ensure('layout', 'rec0 == z and rec1 == z')
    elif nrec == 1:
        c.ensure('layout', '(tuple(img[0:4]) == rec0 and rec0 != z and rec1 == z) or (rec0 == z and tuple(img[0:4]) == rec1 and rec1 != z)')
    else:
        c.ensure('layout', 'nrec == 2 and tuple(img[0:4]) == rec0 and tuple(img[4:8]) == rec1 and rec0 != z and rec1 != z')
    c.ensure('is-bytearray', "typename(sent('mh.write')[0][1][2]) == 'bytearray'")


# ======================================================================================= re-reads on the same object (content)

@contract('C14', 'ow.reread-roundtrip', [OW + ':OWElement.write_data', OW + ':OWElement.update', OW + ':OWElement.new_data',
                                        OW + ':OWElement._parse_and_check_elements'],
          clause='round trip on a re-read: an element object that has read one written image and then reads another written image (the '
                 'memory was rewritten) reports exactly the elements of the image it read last',
          bounded='first image {Custom: 1 char}, second image {Board name: 2 chars}')   # FINDING, see module docstring
def ow_reread(c):
    c.int('pins', 0, 2 ** 32 - 1), c.int('vid', 0, 255), c.int('pid', 0, 255)
    c.str('custom', 1, lo=0, hi=255), c.str('name', 2, lo=0, hi=255)
    imgs = []
    for i, d in enumerate(("{'Custom': custom}", "{'Board name': name}")):
        w, _ = ow_element(c, 'wmh%d' % i)
        ow_fill(c, w, d)
        c.call((w, 'write_data'), c.ext('wcb'))
        c.require('raised is None')
        c.snapshot('img%d' % i, "bytes(sent('wmh%d.write')[0][1][2])" % i)
    rd, _ = ow_element(c)
    c.let('rd', rd)
    ow_feed(c, rd, 'img0', c.ext('cb0'))
    c.require("raised is None and rd.valid is True and rd.elements == {'Custom': custom}")
    ow_feed(c, rd, 'img1', c.ext('cb'))
    c.ensure('valid', 'raised is None and rd.valid is True')
    c.ensure('elements-of-the-last-image', "rd.elements == {'Board name': name}")


@contract('C14', 'i2c.reread-roundtrip', [I2C + ':I2CElement.update', I2C + ':I2CElement.new_data'],
          clause='round trip on a re-read: an element object that has read a version-1 image and then reads a valid version-0 image reports '
                 'exactly the fields of the version-0 image (no radio address left over from the earlier image)',
          )                                                                             # FINDING, see module docstring
def i2c_reread(c):
    el, mh = i2c_element(c)
    c.let('el', el)
    c.bytes('img0', 21), c.bytes('img', 16)
    c.require(I2C_VALID.replace('img', 'img0') + ' and img0[4] == 1')
    c.require("img[0:4] == b'0xBC' and img[4] == 0 and sum(img[0:15]) % 256 == img[15]")
    i2c_feed(c, el, mh, 'img0', c.ext('cb0'))
    c.require("raised is None and el.valid is True and 'radio_address' in el.elements")
    i2c_feed(c, el, mh, 'img', c.ext('cb'))
    c.ensure('valid', 'raised is None and el.valid is True')
    c.ensure('fields-of-the-last-image', "len(el.elements) == 5 and 'radio_address' not in el.elements")
