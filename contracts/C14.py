"""C14 - stored configuration images round-trip and validity follows the checksum.  (work in progress)"""
from pyvc.api import contract

I2C = 'cflib.crazyflie.mem.i2c_element'
OW = 'cflib.crazyflie.mem.ow_element'
LH = 'cflib.crazyflie.mem.lighthouse_memory'
DECK = 'cflib.crazyflie.mem.deck_memory'
LOCO = 'cflib.crazyflie.mem.loco_memory'
LOCO2 = 'cflib.crazyflie.mem.loco_memory_2'
TRAJ = 'cflib.crazyflie.mem.trajectory_memory'
LEDT = 'cflib.crazyflie.mem.led_timings_driver_memory'
LHCFG = 'cflib.localization.lighthouse_config_manager'
PIO = 'cflib.localization.param_io'


# ======================================================================================= EEPROM (I2C)

# the EEPROM image the firmware reads (configblock.c): '0xBC' magic, version, radio channel, radio speed,
# pitch trim, roll trim (binary32), [version 1: 5-byte radio address, most significant byte first in the
# struct but stored as B + little-endian I], checksum = sum of all previous bytes modulo 256
I2C_BODY = ("(pack('<BBBff', 0, ch, sp, pitch, roll) if version == 0 else "
            "pack('<BBBffBI', 1, ch, sp, pitch, roll, addr >> 32, addr & 0xFFFFFFFF))")
I2C_OK = ('0 <= ch <= 255 and 0 <= sp <= 255 and fits_f32(pitch) and fits_f32(roll) and '
          '(version == 0 or 0 <= addr < 2 ** 40)')


def i2c_element(c, name='mh'):
    mh = c.ext(name)
    el = c.new(I2C + ':I2CElement', 0, 0, 64, mh)
    return el, mh


def i2c_fields(c):
    version = c.choice('version', [0, 1])
    c.int('ch'), c.int('sp'), c.float('pitch'), c.float('roll'), c.int('addr')
    return version


def i2c_fill(c, el, version):
    """the caller's way of setting the content: the public `elements` dictionary"""
    c.let('el', el)
    c.let('version', version)
    c.snapshot('_', "el.elements.update({'version': version, 'radio_channel': ch, 'radio_speed': sp, "
                    "'pitch_trim': pitch, 'roll_trim': roll, 'radio_address': addr})")


@contract('C14', 'i2c.write_data', [I2C + ':I2CElement.write_data', I2C + ':I2CElement._checksum256'],
          clause='the EEPROM image written is magic + version-dependent struct + modulo-256 checksum (16 or 21 bytes), '
                 'written once at address 0; unrepresentable fields raise and nothing is written')
def i2c_write(c):
    el, mh = i2c_element(c)
    version = i2c_fields(c)
    i2c_fill(c, el, version)
    cb = c.ext('cb')
    c.reset_trace()
    c.call((el, 'write_data'), cb)
    if c.get('raised') is None:
        c.ensure('one-write-nothing-else', "calls() == ('mh.write',)")
        c.snapshot('w', "sent('mh.write')[0]")
        c.ensure('target', 'is_same(w[1][0], el) and w[1][1] == 0 and len(w[1]) == 3 and w[2] == {}')
        c.snapshot('body', "b'0xBC' + " + I2C_BODY)
        c.ensure('layout', 'bytes(w[1][2]) == body + bytes([sum(body) % 256])')
        c.ensure('length', 'len(w[1][2]) == (16 if version == 0 else 21)')
        c.ensure('tuple-of-ints', "typename(w[1][2]) == 'tuple'")
    else:
        c.ensure('nothing-written-when-raising', 'calls() == ()')
        c.ensure('declared-errors-only', "raised in ('struct.error', 'OverflowError')")
    c.ensure('raises-iff-unrepresentable', 'iff(raised is None, %s)' % I2C_OK)


def i2c_feed(c, el, mh, img_name, cb):
    """one complete read of the image `img_name` through the public update(): the reads are served exactly as the
    element requests them from its memory handler (16 bytes at 0, then 5 bytes at 16 for a version-1 header)"""
    c.reset_trace()
    c.call((el, 'update'), cb)
    c.ensure('update-no-exception', 'raised is None')
    c.ensure('update-requests-header', "calls('mh') == ('mh.read',) and sent('mh.read')[0][1][1:] == (0, 16)")
    c.reset_trace()
    c.call((el, 'new_data'), el, 0, c.snapshot('_first', '%s[0:16]' % img_name))
    if c.get('raised') is None and c.get('trace') and c.get('trace')[-1][0] == 'mh.read':
        c.ensure('second-read-is-address-part', "sent('mh.read')[0][1][1:] == (16, 5) and len(calls()) == 1")
        c.call((el, 'new_data'), el, 16, c.snapshot('_second', '%s[16:21]' % img_name))


@contract('C14', 'i2c.roundtrip', [I2C + ':I2CElement.write_data', I2C + ':I2CElement.update', I2C + ':I2CElement.new_data',
                                   I2C + ':I2CElement._checksum256'],
          clause='an EEPROM image written by write_data and parsed by a fresh element (one or two reads, as the code requests '
                 'them) is reported valid, exactly once, with the same version, channel, speed, address and the binary32 '
                 'values of the trims')
def i2c_roundtrip(c):
    el, mh = i2c_element(c)
    version = i2c_fields(c)
    i2c_fill(c, el, version)
    c.require(I2C_OK)
    c.call((el, 'write_data'), c.ext('wcb'))
    c.ensure('write-no-exception', 'raised is None')
    c.snapshot('img', "bytes(sent('mh.write')[0][1][2])")
    rd, _ = i2c_element(c)
    c.let('rd', rd)
    cb = c.ext('cb')
    i2c_feed(c, rd, mh, 'img', cb)
    c.ensure('no-exception', 'raised is None')
    c.ensure('valid', 'rd.valid is True')
    c.ensure('reported-once', "len(sent('cb')) == 1 and is_same(sent('cb')[0][1][0], rd) and rd._update_finished_cb is None")
    c.snapshot('e', 'rd.elements')
    c.ensure('ints-round-trip', "e['version'] == version and e['radio_channel'] == ch and e['radio_speed'] == sp")
    c.ensure('trims-round-trip', "same_float(e['pitch_trim'], f32(pitch)) and same_float(e['roll_trim'], f32(roll))")
    if version == 1:
        c.ensure('address-round-trips', "e['radio_address'] == addr")
        c.ensure('no-other-fields', 'len(e) == 6')
    else:
        c.ensure('no-other-fields', 'len(e) == 5')


I2C_VALID = ("(img[0:4] == b'0xBC' and ((img[4] == 0 and sum(img[0:15]) % 256 == img[15]) or "
             "(img[4] == 1 and sum(img[0:20]) % 256 == img[20])))")


@contract('C14', 'i2c.valid-iff-checksum', [I2C + ':I2CElement.update', I2C + ':I2CElement.new_data', I2C + ':I2CElement._checksum256'],
          clause='on EVERY read of an element (history: an earlier read of an arbitrary other image on the same object) the EEPROM '
                 'image is reported valid exactly when it has the magic, a known version and its stored checksum equals the sum '
                 'of the covered bytes modulo 256; the update callback fires exactly once for a known version or a bad magic')
def i2c_valid_iff(c):
    el, mh = i2c_element(c)
    c.let('el', el)
    c.bytes('img0', 21)
    c.bytes('img', 21)
    i2c_feed(c, el, mh, 'img0', c.ext('cb0'))
    c.require('raised is None')
    # a read that never completes (unknown version) keeps its callback: the client gives up (disconnect) and reads again
    c.call((el, 'disconnect'))
    i2c_feed(c, el, mh, 'img', c.ext('cb'))
    c.ensure('no-exception', 'raised is None')
    c.ensure('valid-iff-checksum', 'el.valid == %s' % I2C_VALID)
    c.ensure('valid-is-bool', "typename(el.valid) == 'bool'")
    c.ensure('reported-once-when-decidable', "implies(img[0:4] != b'0xBC' or img[4] in (0, 1), "
             "len(sent('cb')) == 1 and is_same(sent('cb')[0][1][0], el))")
    c.ensure('never-reported-twice', "len(sent('cb')) <= 1 and len(sent('cb0')) == 0")


@contract('C14', 'i2c.single-byte-corruption', [I2C + ':I2CElement.write_data', I2C + ':I2CElement.update', I2C + ':I2CElement.new_data',
                                               I2C + ':I2CElement._checksum256'],
          clause='any single corrupted byte (any position, any other value) of an image written by write_data is detected: the '
                 'element read back is not valid.  Excluded, because the format itself cannot detect it: the corruption that '
                 'turns the version byte 0 into 1 or 1 into 0 (the parser then checks another length, see DESIGN C14 limit)')
def i2c_corruption(c):
    el, mh = i2c_element(c)
    version = i2c_fields(c)
    i2c_fill(c, el, version)
    c.require(I2C_OK)
    c.call((el, 'write_data'), c.ext('wcb'))
    c.require('raised is None')
    c.snapshot('good', "bytes(sent('mh.write')[0][1][2])")
    n = 16 if version == 0 else 21
    c.int('pos', 0, n - 1)
    c.int('newval', 0, 255)
    c.require('newval != good[pos]')
    c.require('not (pos == 4 and newval in (0, 1))')
    c.snapshot('img', 'bytes([(newval if i == pos else good[i]) for i in range(%d)])' % n)
    rd, _ = i2c_element(c)
    c.let('rd', rd)
    i2c_feed(c, rd, mh, 'img', c.ext('cb'))
    c.ensure('no-exception', 'raised is None')
    c.ensure('corruption-detected', 'rd.valid is False')
