"""C14 - stored configuration images round-trip and validity follows the checksum.

Every contract drives the REAL functions (constructors, update(), new_data(), write_data() ...) through the memory-handler
interface they use: the handler is a recording stub, the bytes it would return are fed back exactly as the element requested
them (address, length), so multi-read protocols (EEPROM 16 + 5 bytes, 1-wire 11 bytes + element area) are histories of calls.

The byte layouts stated below (comment above each group) are the specification: my transcription of the firmware structs
(configblock.c, deck 1-wire memory, pulse_processor.h / lighthouse_calibration.h, deck_memory.c, locodeck memory handler,
crtp_commander_high_level poly4d, ledring12.c timing memory).  The firmware is not in the sandbox: the tables are trusted.

Design clauses (DESIGN.md C14) -> contracts
 O1 EEPROM          i2c.write_data (layout, raises iff unrepresentable, nothing written then), i2c.roundtrip (fresh reader, one or
                    two reads), i2c.valid-iff-checksum (EVERY read on the same object: history of two arbitrary images; valid iff
                    magic + known version + checksum; fields as stored), i2c.single-byte-corruption (any position / value of ANY valid
                    image; excluded: version byte 0<->1, which the format cannot detect - the DESIGN limit).
 O2 1-wire          ow.write_data.* / ow.roundtrip.* (8 element configurations incl. the element-area lengths 5 and 74 of the former
                    CRC-shortcut defect), ow.valid-iff-crc.* (valid iff start byte and both CRC bytes right, on a re-read, images built
                    from content + CRC error terms so that counter-models are real images under the real crc32).
                    crc32 is an uninterpreted function in the symbolic runs (round trips follow by congruence; concrete inputs are
                    computed) and the real binascii.crc32 in every native concordance / replay run.
 O3 lighthouse      lh.geo.add_mem_data, lh.geo.set_from_mem_data, lh.geo.mem-roundtrip, lh.calib.* (same three), lh.file-objects;
                    the mem round trips go through LighthouseMemory.write_*/read_*/new_data (page addresses, sizes 49 / 61, flush).
                    All base stations / any subset (LighthouseMemHelper, real LighthouseMemory underneath, the contract plays the memory
                    subsystem): lhhelper.read_all.{geos,calibs} (a failing id neither hides nor shifts the others; all pairs of failing
                    ids under `thorough`), lhhelper.read_all.second-use, lhhelper.write.{geos,calibs} (every given id once, own image, failure
                    reported but not stopping, second use), lhhelper.reply-before-request-returns.* (explicit schedule: every reply
                    delivered from inside mem_handler.read / write), lh.rejected-write.memory (error exit, then a representable write).
                    Upload + persist (LighthouseConfigWriter): lhcfg.writer.upload-and-persist (each given type: 16 images, the given ids
                    with content, the others invalid; a type that is None neither written nor persisted; one persist request; completion only
                    after its acknowledgement; system type first), lhcfg.writer.second-use, lhcfg.writer.from-file (file -> memory images).
 O4 YAML managers   lhcfg.file-roundtrip (every subset of 2 + 2 base stations via symbolic valid flags), lhcfg.file-default-system-type, param.file-roundtrip,
                    file-type-envelope (file of the other type refused, empty parameter file).  ASSUMED contract of PyYAML:
                    yaml.safe_load(yaml.dump(d)) == d for plain data; the native runs use the real PyYAML on a real temporary file.
 O5 deck info       deck.parse-record (all 65,536 bit-field pairs, names of every length 0..18), deck.query + .records-1-4 + .records-2-5-6
                    (whole query: one read of 257 bytes, only valid records, keyed by index, per-record command address; together every
                    record index), deck.query-version, deck.query-sync (blocking wrapper, reply delivered while blocked), deck.requery.
    anchors         loco.anchor-pages, loco2.id-lists.n0..n16 (every count the list can hold), loco2.anchor-data, loco.reread, loco2.reread.
    write-only      poly4d.pack, trajectory.write_data (+ .empty, deprecated alias poly4Ds), ledtimings.write_data (+ .empty) (RGB565 stated as
                    round-to-nearest level, independent of the code's multiply-shift formula; terminator record; terminator-like records
                    not emitted).
    other memories  foreign-data.{i2c,ow,lh.geos,lh.calibs,loco}: replies of ANOTHER memory (the subsystem broadcasts every reply to all
                    elements) are not taken for the element's image and do not answer its pending request.
    1-wire extras   ow.erase (erased memory reads as not valid), ow.*.name253 (longest element area), ow.write_data.area-too-long.

Not covered (and why)
 * strings / lists of symbolic LENGTH (1-wire names and revisions of every length 0..255, every element order, LPS1 anchor counts, number
   of trajectory pieces / LED timings): the engine needs concrete lengths (c.view has no str kind and the element parser indexes a
   dictionary with the parsed id); lengths and orders are enumerated and each such contract carries `bounded=`.  Complete enumerations:
   LPS2 id-list counts 0..16, deck names 0..18, deck record indices 0..7.
 * "any subset of base stations" for read_all_*: 23 failing subsets in the quick tier, all 120 pairs in addition under `thorough`, not all
   65,536 (each subset is one path of 16 replies; an inductive step contract would have to set the private state of _ObjectReader).
 * YAML files not produced by the library's own writers (type or version field missing, other version string): would need a
   hand-written file in both back ends; only the cross-type refusal is decided.  Geometry given as numpy arrays (yaml.dump of numpy
   scalars) is outside the assumed PyYAML contract.  I/O errors are not modelled.
 * 1-wire single-byte corruption detection: not claimed by the property (only the EEPROM checksum), and not provable with an
   uninterpreted crc32 (a one-byte CRC can collide).
 * EEPROM image whose version byte is neither 0 nor 1: the element never completes the update (no callback, valid stays False);
   stated in i2c.valid-iff-checksum as "reported once when decidable", not treated as a violation.
 * deck names that are not ASCII or not NUL padded, LPS2 id lists with a count above 16 (not device-encodable), LED timing fields
   outside their bit widths (the code masks them), CompressedStart/CompressedSegment (numeric codecs, C13).
 * completion bookkeeping that carries no image content: I2CElement / OWElement / TrajectoryMemory / LEDTimings write_done, write_failed,
   disconnect, write_data_sync, DeckMemory command writes (reset_to_fw, reset_to_bootloader, set_fw_new_flash_size, read_sync, write_sync,
   contains: address mapping is C06); __str__ / dump (formatting); LighthouseMemory._write_data_list (dead code, no caller).
   "Read / write operation already ongoing" refusals are sequencing, not image content.
 * Thread interleavings: the only cross-thread step is the arrival of a reply; it is covered as an explicit schedule (replies delivered
   later = histories of calls; replies delivered before the request returns = lhhelper.reply-before-request-returns.*, deck.query-sync).

FINDINGS on the unchanged tree (contracts kept, option thorough_only=True so that `./vcheck C14` stays green; they fail with a native
replay under `./vcheck C14 thorough`):
 * ow.any-element-area/reported-valid-without-exception: a 1-wire image with both CRC bytes right but an element id outside 1..3 (or a
   dangling TLV byte) is not reported at all: OWElement.new_data raises KeyError (struct.error) out of the memory callback, valid
   stays False and the update callback never fires.  Example: pins=196608 vid=246 pid=133 element data 00 F6 85.
 * ow.reread-roundtrip/elements-of-the-last-image and i2c.reread-roundtrip/fields-of-the-last-image: update() does not clear
   `elements`; after a re-read of rewritten content on the same object stale entries remain (a 'Custom' element, the
   'radio_address' of a former version-1 image).
 * (candidate, thorough_only=True) lhhelper.rejected-write: after write_geos / write_and_store_config raised OverflowError for a geometry with
   a value outside binary32 (e.g. origin[1] = 1e39), the same LighthouseMemHelper refuses every later dictionary ('Write operation not
   finished') and the same LighthouseConfigWriter every later configuration ('Write already in prgress'): _objects_to_write /
   _data_stored_cb stay set on the error exit.  LighthouseMemory itself recovers (lh.rejected-write.memory passes).
"""
from pyvc.api import contract

I2C = 'cflib.crazyflie.mem.i2c_element'
OW = 'cflib.crazyflie.mem.ow_element'
LH = 'cflib.crazyflie.mem.lighthouse_memory'
DECK = 'cflib.crazyflie.mem.deck_memory'
LOCO = 'cflib.crazyflie.mem.loco_memory'
LOCO2 = 'cflib.crazyflie.mem.loco_memory_2'
TRAJ = 'cflib.crazyflie.mem.trajectory_memory'
LEDT = 'cflib.crazyflie.mem.led_timings_driver_memory'
LHCFG = 'cflib.localization.lighthouse_config_manager'
PIO = 'cflib.localization.param_io'


# ======================================================================================= EEPROM (I2C)

# the EEPROM image the firmware reads (configblock.c): '0xBC' magic, version, radio channel, radio speed,
# pitch trim, roll trim (binary32), [version 1: 5-byte radio address, most significant byte first in the
# struct but stored as B + little-endian I], checksum = sum of all previous bytes modulo 256
I2C_BODY = ("(pack('<BBBff', 0, ch, sp, pitch, roll) if version == 0 else "
            "pack('<BBBffBI', 1, ch, sp, pitch, roll, addr >> 32, addr & 0xFFFFFFFF))")
I2C_OK = ('0 <= ch <= 255 and 0 <= sp <= 255 and fits_f32(pitch) and fits_f32(roll) and '
          '(version == 0 or 0 <= addr < 2 ** 40)')


def i2c_element(c, name='mh'):
    mh = c.ext(name)
    el = c.new(I2C + ':I2CElement', 0, 0, 64, mh)
    return el, mh


def i2c_fields(c):
    version = c.choice('version', [0, 1])
    c.int('ch'), c.int('sp'), c.float('pitch'), c.float('roll'), c.int('addr')
    return version


def i2c_fill(c, el, version):
    """the caller's way of setting the content: the public `elements` dictionary"""
    c.let('el', el)
    c.let('version', version)
    c.snapshot('_', "el.elements.update({'version': version, 'radio_channel': ch, 'radio_speed': sp, "
                    "'pitch_trim': pitch, 'roll_trim': roll, 'radio_address': addr})")


@contract('C14', 'i2c.write_data', [I2C + ':I2CElement.write_data', I2C + ':I2CElement._checksum256'],
          clause='the EEPROM image written is magic + version-dependent struct + modulo-256 checksum (16 or 21 bytes), '
                 'written once at address 0; unrepresentable fields raise and nothing is written')
def i2c_write(c):
    el, mh = i2c_element(c)
    version = i2c_fields(c)
    i2c_fill(c, el, version)
    cb = c.ext('cb')
    c.reset_trace()
    c.call((el, 'write_data'), cb)
    if c.get('raised') is None:
        c.ensure('one-write-nothing-else', "calls() == ('mh.write',)")
        c.snapshot('w', "sent('mh.write')[0]")
        c.ensure('target', 'is_same(w[1][0], el) and w[1][1] == 0 and len(w[1]) == 3 and w[2] == {}')
        c.snapshot('body', "b'0xBC' + " + I2C_BODY)
        c.ensure('layout', 'bytes(w[1][2]) == body + bytes([sum(body) % 256])')
        c.ensure('length', 'len(w[1][2]) == (16 if version == 0 else 21)')
        c.ensure('tuple-of-ints', "typename(w[1][2]) == 'tuple'")
    else:
        c.ensure('nothing-written-when-raising', 'calls() == ()')
        c.ensure('declared-errors-only', "raised in ('struct.error', 'OverflowError')")
    c.ensure('raises-iff-unrepresentable', 'iff(raised is None, %s)' % I2C_OK)


def i2c_feed(c, el, mh, img_name, cb):
    """one complete read of the image `img_name` through the public update(): the reads are served exactly as the
    element requests them from its memory handler (16 bytes at 0, then 5 bytes at 16 for a version-1 header)"""
    c.reset_trace()
    c.call((el, 'update'), cb)
    c.ensure('update-no-exception', 'raised is None')
    c.ensure('update-requests-header', "calls('mh') == ('mh.read',) and sent('mh.read')[0][1][1:] == (0, 16)")
    c.reset_trace()
    c.call((el, 'new_data'), el, 0, c.snapshot('_first', '%s[0:16]' % img_name))
    if c.get('raised') is None and c.get('trace') and c.get('trace')[-1][0] == 'mh.read':
        c.ensure('second-read-is-address-part', "sent('mh.read')[0][1][1:] == (16, 5) and len(calls()) == 1")
        c.call((el, 'new_data'), el, 16, c.snapshot('_second', '%s[16:21]' % img_name))


@contract('C14', 'i2c.roundtrip', [I2C + ':I2CElement.write_data', I2C + ':I2CElement.update', I2C + ':I2CElement.new_data',
                                   I2C + ':I2CElement._checksum256'],
          clause='an EEPROM image written by write_data and parsed by a fresh element (one or two reads, as the code requests '
                 'them) is reported valid, exactly once, with the same version, channel, speed, address and the binary32 '
                 'values of the trims')
def i2c_roundtrip(c):
    el, mh = i2c_element(c)
    version = i2c_fields(c)
    i2c_fill(c, el, version)
    c.require(I2C_OK)
    c.call((el, 'write_data'), c.ext('wcb'))
    c.ensure('write-no-exception', 'raised is None')
    c.snapshot('img', "bytes(sent('mh.write')[0][1][2])")
    rd, _ = i2c_element(c)
    c.let('rd', rd)
    cb = c.ext('cb')
    i2c_feed(c, rd, mh, 'img', cb)
    c.ensure('no-exception', 'raised is None')
    c.ensure('valid', 'rd.valid is True')
    c.ensure('reported-once', "len(sent('cb')) == 1 and is_same(sent('cb')[0][1][0], rd) and rd._update_finished_cb is None")
    c.snapshot('e', 'rd.elements')
    c.ensure('ints-round-trip', "e['version'] == version and e['radio_channel'] == ch and e['radio_speed'] == sp")
    c.ensure('trims-round-trip', "same_float(e['pitch_trim'], f32(pitch)) and same_float(e['roll_trim'], f32(roll))")
    if version == 1:
        c.ensure('address-round-trips', "e['radio_address'] == addr")
        c.ensure('no-other-fields', 'len(e) == 6')
    else:
        c.ensure('no-other-fields', 'len(e) == 5')


I2C_VALID = ("(img[0:4] == b'0xBC' and ((img[4] == 0 and sum(img[0:15]) % 256 == img[15]) or "
             "(img[4] == 1 and sum(img[0:20]) % 256 == img[20])))")


@contract('C14', 'i2c.valid-iff-checksum', [I2C + ':I2CElement.update', I2C + ':I2CElement.new_data', I2C + ':I2CElement._checksum256'],
          clause='on EVERY read of an element (history: an earlier read of an arbitrary other image on the same object) the EEPROM '
                 'image is reported valid exactly when it has the magic, a known version and its stored checksum equals the sum '
                 'of the covered bytes modulo 256; the update callback fires exactly once for a known version or a bad magic')
def i2c_valid_iff(c):
    el, mh = i2c_element(c)
    c.let('el', el)
    c.bytes('img0', 21)
    c.bytes('img', 21)
    i2c_feed(c, el, mh, 'img0', c.ext('cb0'))
    c.require('raised is None')
    # a read that never completes (unknown version) keeps its callback: the client gives up (disconnect) and reads again
    c.call((el, 'disconnect'))
    i2c_feed(c, el, mh, 'img', c.ext('cb'))
    c.ensure('no-exception', 'raised is None')
    c.ensure('valid-iff-checksum', 'el.valid == %s' % I2C_VALID)
    c.ensure('valid-is-bool', "typename(el.valid) == 'bool'")
    c.ensure('reported-once-when-decidable', "implies(img[0:4] != b'0xBC' or img[4] in (0, 1), "
             "len(sent('cb')) == 1 and is_same(sent('cb')[0][1][0], el))")
    c.ensure('never-reported-twice', "len(sent('cb')) <= 1 and len(sent('cb0')) == 0")
    c.snapshot('e', 'el.elements')
    c.ensure('fields-as-stored', "(e['version'] == img[4] and e['radio_channel'] == img[5] and e['radio_speed'] == img[6] and "
             "same_float(e['pitch_trim'], unpack('<f', img[7:11])[0]) and same_float(e['roll_trim'], unpack('<f', img[11:15])[0])) "
             "if ('version' in e and img[0:4] == b'0xBC') else True")
    c.ensure('address-as-stored', "(e['radio_address'] == img[15] * 2 ** 32 + unpack('<I', img[16:20])[0]) "
             "if ('radio_address' in e and img[0:4] == b'0xBC' and img[4] == 1) else True")


@contract('C14', 'i2c.single-byte-corruption', [I2C + ':I2CElement.update', I2C + ':I2CElement.new_data', I2C + ':I2CElement._checksum256'],
          clause='any single corrupted byte (any position, any other value) of ANY valid image - in particular of every image '
                 'written by write_data, which is valid by i2c.roundtrip - is detected: the element read back is not valid.  '
                 'Excluded, because the format itself cannot detect it: the corruption that turns the version byte 0 into 1 or '
                 '1 into 0 (the parser then checks another length, see DESIGN C14 limit)')
def i2c_corruption(c):
    version = c.choice('version', [0, 1])
    n = 16 if version == 0 else 21
    c.bytes('good', n)
    c.let('n', n)
    c.require("good[4] == %d and good[0:4] == b'0xBC' and sum(good[0:n - 1]) %% 256 == good[n - 1]" % version)
    c.int('pos', 0, n - 1)
    c.int('newval', 0, 255)
    c.require('newval != good[pos]')
    c.require('not (pos == 4 and newval in (0, 1))')
    c.snapshot('img', 'bytes([(newval if i == pos else good[i]) for i in range(%d)])' % n)
    rd, mh = i2c_element(c)
    c.let('rd', rd)
    i2c_feed(c, rd, mh, 'img', c.ext('cb'))
    c.ensure('no-exception', 'raised is None')
    c.ensure('corruption-detected', 'rd.valid is False')


# ======================================================================================= 1-wire deck memory

# image the deck firmware / bootloader reads: header 0xEB, used pins (uint32 LE), vendor id, product id, CRC32 low byte of
# the 7 previous bytes; element area: version 0, length of the TLV data, TLV records (id, length, ISO-8859-1 text), CRC32
# low byte of the area so far.  Ids: 1 board name, 2 board revision, 3 custom.
OW_IDS = {'Board name': 1, 'Board revision': 2, 'Custom': 3}
OW_VAR = {'Board name': 'name', 'Board revision': 'rev', 'Custom': 'custom'}


def ow_element(c, mhname='mh'):
    mh = c.ext(mhname)
    return c.new(OW + ':OWElement', 0, 1, 112, 0, mh), mh


def ow_content(c, keys, lens):
    """symbolic deck identity: header fields and one Latin-1 string of the given length per element key"""
    c.int('pins'), c.int('vid'), c.int('pid')
    for k, n in zip(keys, lens):
        c.str(OW_VAR[k], n, lo=0, hi=255)
    c.let('written', None)
    return '{' + ', '.join('%r: %s' % (k, OW_VAR[k]) for k in keys) + '}'


def ow_fill(c, el, dict_expr):
    c.let('el', el)
    c.snapshot('_', "(setattr(el, 'pins', pins), setattr(el, 'vid', vid), setattr(el, 'pid', pid), el.elements.update(%s))" % dict_expr)


def ow_image_expr(keys):
    tlv = ' + '.join("pack('BB', %d, len(%s)) + %s.encode('ISO-8859-1')" % (OW_IDS[k], OW_VAR[k], OW_VAR[k]) for k in reversed(keys)) or "b''"
    return tlv


OW_OK = '0 <= pins < 2 ** 32 and 0 <= vid <= 255 and 0 <= pid <= 255'


def ow_feed(c, rd, img_name, cb):
    """one complete read through the public update(): 11 bytes at 0, then - if the element asks for it - the element
    area of the length it requests at address 8, served from the same image"""
    c.reset_trace()
    c.call((rd, 'update'), cb)
    c.ensure('update-no-exception', 'raised is None')
    c.ensure('update-requests-header', "calls('mh') == ('mh.read',) and sent('mh.read')[0][1][1:] == (0, 11)")
    c.reset_trace()
    c.call((rd, 'new_data'), rd, 0, c.snapshot('_first', '%s[0:11]' % img_name))
    tr = c.get('trace')
    if c.get('raised') is None and tr and tr[-1][0] == 'mh.read':
        c.ensure('second-read-is-element-area', "len(calls('mh')) == 1 and sent('mh.read')[0][1][1:] == (8, %s[9] + 3)" % img_name)
        c.call((rd, 'new_data'), rd, 8, c.snapshot('_second', '%s[8:8 + %s[9] + 3]' % (img_name, img_name)))


def _ow(keys, lens):
    tag = '+'.join('%s%d' % (OW_VAR[k], n) for k, n in zip(keys, lens)) or 'empty'
    bound = 'element insertion order %r with string lengths %r (enumerated configurations, not all lengths)' % (keys, lens)

    @contract('C14', 'ow.write_data.' + tag, [OW + ':OWElement.write_data'],
              clause='the 1-wire image written is header + CRC, element area (TLV, in reverse insertion order as the code emits '
                     'them) + CRC, in one write at address 0; unrepresentable header fields raise and nothing is written',
              bounded=bound)
    def w(c):
        el, mh = ow_element(c)
        ow_fill(c, el, ow_content(c, keys, lens))
        c.reset_trace()
        c.call((el, 'write_data'), c.ext('wcb'))
        if c.get('raised') is None:
            c.ensure('one-write-nothing-else', "calls() == ('mh.write',)")
            c.snapshot('w', "sent('mh.write')[0]")
            c.ensure('target', 'is_same(w[1][0], el) and w[1][1] == 0 and len(w[1]) == 3 and w[2] == {}')
            c.snapshot('hdr', "pack('<BIBB', 0xEB, pins, vid, pid)")
            c.snapshot('tlv', ow_image_expr(keys))
            c.snapshot('area', "pack('BB', 0, len(tlv)) + tlv")
            c.ensure('layout', 'bytes(w[1][2]) == hdr + bytes([crc32(hdr) & 0xFF]) + area + bytes([crc32(area) & 0xFF])')
            c.ensure('tuple-of-ints', "typename(w[1][2]) == 'tuple'")
        else:
            c.ensure('nothing-written-when-raising', 'calls() == ()')
            c.ensure('declared-errors-only', "raised == 'struct.error'")
        c.ensure('raises-iff-unrepresentable', 'iff(raised is None, %s)' % OW_OK)

    @contract('C14', 'ow.roundtrip.' + tag, [OW + ':OWElement.write_data', OW + ':OWElement.update', OW + ':OWElement.new_data',
                                            OW + ':OWElement._parse_and_check_header', OW + ':OWElement._parse_and_check_elements'],
              clause='a 1-wire image written by write_data and read by a fresh element (one or two reads, as the code requests '
                     'them) is reported valid exactly once with the same pins, vid, pid and exactly the same elements',
              bounded=bound)
    def r(c):
        el, mh = ow_element(c)
        d = ow_content(c, keys, lens)
        ow_fill(c, el, d)
        c.require(OW_OK)
        c.call((el, 'write_data'), c.ext('wcb'))
        c.ensure('write-no-exception', 'raised is None')
        c.snapshot('img', "bytes(sent('mh.write')[0][1][2])")
        rd, _ = ow_element(c)
        c.let('rd', rd)
        ow_feed(c, rd, 'img', c.ext('cb'))
        c.ensure('no-exception', 'raised is None')
        c.ensure('valid', 'rd.valid is True')
        c.ensure('reported-once', "len(sent('cb')) == 1 and is_same(sent('cb')[0][1][0], rd) and rd._update_finished_cb is None")
        c.ensure('header-round-trips', 'rd.pins == pins and rd.vid == vid and rd.pid == pid')
        c.ensure('elements-round-trip', 'rd.elements == %s and len(rd.elements) == %d' % (d, len(keys)))
    return w, r


for _k, _l in (((), ()),
               (('Board name',), (0,)), (('Board name',), (1,)),
               (('Board revision',), (3,)),                      # element area of 5 bytes starting with id 2
               (('Board name', 'Board revision'), (8, 2)),
               (('Board name', 'Board revision', 'Custom'), (2, 1, 0)),
               (('Custom', 'Board name', 'Board revision'), (1, 2, 3)),
               (('Custom',), (72,)),                             # element area of 74 bytes starting with id 3
               (('Board name',), (253,))):                       # the longest element area the length byte can express (255)
    _ow(_k, _l)


def _ow_valid(lens):
    """validity follows the two CRCs.  The image is built from its content plus two symbolic CRC errors dh, de (added to the
    correct CRC bytes modulo 256) so that every solver model is a real image under the real crc32 in the replay."""
    tag = '-'.join(str(n) for n in lens) or 'empty'

    @contract('C14', 'ow.valid-iff-crc.' + tag, [OW + ':OWElement.update', OW + ':OWElement.new_data',
                                                OW + ':OWElement._parse_and_check_header', OW + ':OWElement._parse_and_check_elements'],
              clause='on every read (history: an earlier read of another image on the same object) a 1-wire image with a well '
                     'formed element area is reported valid exactly when the start byte is 0xEB and both stored CRC bytes equal '
                     'the low byte of the CRC32 recomputed over the header resp. the element area; it is reported exactly once '
                     'and the header fields are the ones stored',
              bounded='element areas of %d records with text lengths %r; record ids symbolic in 1..3' % (len(lens), lens))
    def v(c):
        rd, mh = ow_element(c)
        c.let('rd', rd)
        for suffix, ls in (('0', ()), ('', lens)):        # the earlier image has an empty element area
            c.int('start' + suffix, 0, 255), c.int('pins' + suffix, 0, 2 ** 32 - 1), c.int('vid' + suffix, 0, 255), c.int('pid' + suffix, 0, 255)
            c.int('aver' + suffix, 0, 255)
            c.int('dh' + suffix, 0, 255), c.int('de' + suffix, 0, 255)
            recs = []
            for i, n in enumerate(ls):
                c.int('id%d%s' % (i, suffix), 1, 3)
                c.bytes('txt%d%s' % (i, suffix), n)
                recs.append("pack('BB', id%d%s, %d) + txt%d%s" % (i, suffix, n, i, suffix))
            c.snapshot('hdr', "pack('<BIBB', start%s, pins%s, vid%s, pid%s)" % ((suffix,) * 4))
            c.snapshot('tlv', ' + '.join(recs) or "b''")
            c.snapshot('area', "pack('BB', aver%s, len(tlv)) + tlv" % suffix)
            c.snapshot('img' + suffix, 'hdr + bytes([(crc32(hdr) + dh%s) %% 256]) + area + bytes([(crc32(area) + de%s) %% 256])' % (suffix, suffix))
            ow_feed(c, rd, 'img' + suffix, c.ext('cb' + suffix))
            c.ensure('no-exception', 'raised is None')
        c.ensure('valid-iff-crc', 'rd.valid == (start == 0xEB and dh == 0 and de == 0)')
        c.ensure('valid-is-bool', "typename(rd.valid) == 'bool'")
        c.ensure('reported-exactly-once', "len(sent('cb')) == 1 and is_same(sent('cb')[0][1][0], rd) and len(sent('cb0')) == 0 "
                 "and rd._update_finished_cb is None")
        c.ensure('header-fields', 'rd.pins == pins and rd.vid == vid and rd.pid == pid')
    return v


for _l in ((), (0,), (2,), (1, 2)):
    _ow_valid(_l)


@contract('C14', 'ow.any-element-area', [OW + ':OWElement.update', OW + ':OWElement.new_data',
                                       OW + ':OWElement._parse_and_check_header', OW + ':OWElement._parse_and_check_elements'],
          clause='validity follows the CRC for ANY element-area content: an image whose header and element-area CRC bytes are '
                 'both right is reported valid (exactly once, no exception), whatever the bytes of the element area are',
          bounded='element data of 3 arbitrary bytes')      # FINDING on the unchanged tree, see module docstring
def ow_any_area(c):
    rd, mh = ow_element(c)
    c.let('rd', rd)
    c.int('pins', 0, 2 ** 32 - 1), c.int('vid', 0, 255), c.int('pid', 0, 255)
    c.bytes('tlv', 3)
    c.snapshot('hdr', "pack('<BIBB', 0xEB, pins, vid, pid)")
    c.snapshot('area', "pack('BB', 0, len(tlv)) + tlv")
    c.snapshot('img', 'hdr + bytes([crc32(hdr) & 0xFF]) + area + bytes([crc32(area) & 0xFF])')
    ow_feed(c, rd, 'img', c.ext('cb'))
    c.ensure('reported-valid-without-exception', "raised is None and rd.valid is True and len(sent('cb')) == 1")


# ======================================================================================= lighthouse memory layout

# firmware structs (pulse_processor.h / lighthouse_calibration.h), little endian, packed:
#   baseStationGeometry_t  { float origin[3]; float mat[3][3]; bool valid; }                       49 bytes
#   lighthouseCalibration_t{ struct { float phase, tilt, curve, gibmag, gibphase, ogeemag, ogeephase; } sweep[2];
#                            uint32_t uid; bool valid; }                                           61 bytes
# memory map of the lighthouse memory: geometry of base station i at 0x0000 + i * 0x100, calibration at 0x1000 + i * 0x100
GEO_FMT = '<ffffffffffff?'
CAL_FMT = '<ffffffffffffffL?'
SWEEP_FIELDS = ('phase', 'tilt', 'curve', 'gibmag', 'gibphase', 'ogeemag', 'ogeephase')


def geo_object(c, name='g', vname='gv', validname='gvalid'):
    """a geometry object as client code fills it: origin, rotation matrix, valid"""
    g = c.new(LH + ':LighthouseBsGeometry')
    v = c.floats(vname, 12)
    c.bool(validname)
    c.let(name, g)
    c.snapshot('_', "(setattr({g}, 'origin', [{v}[0], {v}[1], {v}[2]]), setattr({g}, 'rotation_matrix', [[{v}[3], {v}[4], {v}[5]], "
                    "[{v}[6], {v}[7], {v}[8]], [{v}[9], {v}[10], {v}[11]]]), setattr({g}, 'valid', {b}))".format(g=name, v=vname, b=validname))
    return g


def calib_object(c, name='k', vname='kv', uidname='uid', validname='kvalid'):
    k = c.new(LH + ':LighthouseBsCalibration')
    c.floats(vname, 14)
    c.int(uidname)
    c.bool(validname)
    c.let(name, k)
    sets = ["setattr(%s.sweeps[%d], %r, %s[%d])" % (name, s, f, vname, 7 * s + i) for s in (0, 1) for i, f in enumerate(SWEEP_FIELDS)]
    c.snapshot('_', '(' + ', '.join(sets) + ", setattr({k}, 'uid', {u}), setattr({k}, 'valid', {b}))".format(k=name, u=uidname, b=validname))
    return k


GEO_FLAT = 'g2.origin + g2.rotation_matrix[0] + g2.rotation_matrix[1] + g2.rotation_matrix[2]'
CAL_FLAT = '[field(g2.sweeps[s], f) for s in (0, 1) for f in %r]' % (SWEEP_FIELDS,)


@contract('C14', 'lh.geo.add_mem_data', [LH + ':LighthouseBsGeometry.add_mem_data', LH + ':LighthouseBsGeometry._add_vector'],
          clause='geometry memory image = firmware struct baseStationGeometry_t (12 binary32 + bool, 49 bytes) appended to the buffer; '
                 'a component outside binary32 raises OverflowError')
def lh_geo_add(c):
    g = geo_object(c)
    pre = c.bytearray('pre', 2)
    c.snapshot('pre0', 'bytes(pre)')
    c.call((g, 'add_mem_data'), pre)
    c.ensure('raises-iff-unrepresentable', 'iff(raised is None, all(fits_f32(x) for x in gv))')
    if c.get('raised') is None:
        c.ensure('layout', 'bytes(pre) == pre0 + pack(%r, *gv, gvalid)' % GEO_FMT)
        c.ensure('size', 'len(pre) - 2 == 49 == g.SIZE_GEOMETRY')
        c.ensure('object-unchanged', 'all(same_float(g.origin[i], gv[i]) for i in range(3)) and g.valid == gvalid')
    else:
        c.ensure('declared-errors-only', "raised == 'OverflowError'")


@contract('C14', 'lh.geo.set_from_mem_data', [LH + ':LighthouseBsGeometry.set_from_mem_data', LH + ':LighthouseBsGeometry._read_vector'],
          clause='any 49-byte geometry image parses to the 12 binary32 values in struct order and valid = (last byte != 0)')
def lh_geo_set(c):
    g = c.new(LH + ':LighthouseBsGeometry')
    c.let('g2', g)
    c.bytes('img', 49)
    c.call((g, 'set_from_mem_data'), c.get('img'))
    c.ensure('no-exception', 'raised is None')
    c.snapshot('want', 'unpack(%r, img)' % GEO_FMT)
    c.snapshot('flat', GEO_FLAT)
    c.ensure('fields', 'len(flat) == 12 and all(same_float(flat[i], want[i]) for i in range(12))')
    c.ensure('valid-flag', "g2.valid == (img[48] != 0) and typename(g2.valid) == 'bool'")
    c.ensure('shape', "typename(g2.origin) == 'list' and len(g2.origin) == 3 and len(g2.rotation_matrix) == 3 and "
                      "all(len(r) == 3 for r in g2.rotation_matrix)")


@contract('C14', 'lh.geo.mem-roundtrip', [LH + ':LighthouseBsGeometry.add_mem_data', LH + ':LighthouseBsGeometry.set_from_mem_data',
                                         LH + ':LighthouseMemory.write_geo_data', LH + ':LighthouseMemory.read_geo_data',
                                         LH + ':LighthouseMemory.new_data'],
          clause='geometry written through LighthouseMemory.write_geo_data (page address 0x100 * id, 49 bytes, flushed) and read back '
                 'through read_geo_data / new_data is delivered once to the reader as an equal geometry at binary32 precision')
def lh_geo_roundtrip(c):
    mh = c.ext('mh')
    mem = c.new(LH + ':LighthouseMemory', 4, 0x14, 0x2000, mh)
    c.let('mem', mem)
    g = geo_object(c)
    c.int('bs', 0, 15)
    c.require('all(fits_f32(x) for x in gv)')
    c.call((mem, 'write_geo_data'), c.get('bs'), g, c.ext('wcb'))
    c.ensure('write-no-exception', 'raised is None')
    c.ensure('one-write', "calls('mh') == ('mh.write',)")
    c.snapshot('w', "sent('mh.write')[0]")
    c.ensure('write-target', "is_same(w[1][0], mem) and w[1][1] == 0x100 * bs and w[2] == {'flush_queue': True} and len(w[1][2]) == 49")
    c.snapshot('img', 'bytes(w[1][2])')
    c.reset_trace()
    c.call((mem, 'read_geo_data'), c.get('bs'), c.ext('rcb'))
    c.ensure('read-request', "raised is None and calls('mh') == ('mh.read',) and sent('mh.read')[0][1][1:] == (0x100 * bs, 49)")
    c.call((mem, 'new_data'), mem, c.snapshot('_a', '0x100 * bs'), c.get('img'))
    c.ensure('no-exception', 'raised is None')
    c.ensure('delivered-once', "len(sent('rcb')) == 1 and is_same(sent('rcb')[0][1][0], mem) and mem._update_finished_cb is None")
    c.snapshot('g2', "sent('rcb')[0][1][1]")
    c.snapshot('flat', GEO_FLAT)
    c.ensure('is-geometry', "typename(g2) == 'LighthouseBsGeometry'")
    c.ensure('equal-content', 'len(flat) == 12 and all(same_float(flat[i], f32(gv[i])) for i in range(12)) and g2.valid == gvalid')


@contract('C14', 'lh.calib.add_mem_data', [LH + ':LighthouseBsCalibration.add_mem_data', LH + ':LighthouseBsCalibration._pack_sweep_calib'],
          clause='calibration memory image = firmware struct lighthouseCalibration_t (2 x 7 binary32, uint32 uid, bool; 61 bytes) appended '
                 'to the buffer; unrepresentable values raise')
def lh_calib_add(c):
    k = calib_object(c)
    pre = c.bytearray('pre', 1)
    c.snapshot('pre0', 'bytes(pre)')
    c.call((k, 'add_mem_data'), pre)
    c.ensure('raises-iff-unrepresentable', 'iff(raised is None, all(fits_f32(x) for x in kv) and 0 <= uid < 2 ** 32)')
    if c.get('raised') is None:
        c.ensure('layout', 'bytes(pre) == pre0 + pack(%r, *kv, uid, kvalid)' % CAL_FMT)
        c.ensure('size', 'len(pre) - 1 == 61 == k.SIZE_CALIBRATION')
    else:
        c.ensure('declared-errors-only', "raised in ('OverflowError', 'struct.error')")


@contract('C14', 'lh.calib.set_from_mem_data', [LH + ':LighthouseBsCalibration.set_from_mem_data',
                                               LH + ':LighthouseBsCalibration._unpack_sweep_calibration'],
          clause='any 61-byte calibration image parses to the 14 binary32 values in struct order, the uid and valid = (last byte != 0)')
def lh_calib_set(c):
    k = c.new(LH + ':LighthouseBsCalibration')
    c.let('g2', k)
    c.bytes('img', 61)
    c.call((k, 'set_from_mem_data'), c.get('img'))
    c.ensure('no-exception', 'raised is None')
    c.snapshot('want', 'unpack(%r, img)' % CAL_FMT)
    c.snapshot('flat', CAL_FLAT)
    c.ensure('fields', 'len(flat) == 14 and all(same_float(flat[i], want[i]) for i in range(14))')
    c.ensure('uid-valid', "g2.uid == want[14] and g2.valid == (img[60] != 0) and typename(g2.valid) == 'bool' and len(g2.sweeps) == 2")


@contract('C14', 'lh.calib.mem-roundtrip', [LH + ':LighthouseBsCalibration.add_mem_data', LH + ':LighthouseBsCalibration.set_from_mem_data',
                                           LH + ':LighthouseMemory.write_calib_data', LH + ':LighthouseMemory.read_calib_data',
                                           LH + ':LighthouseMemory.new_data'],
          clause='calibration written through LighthouseMemory.write_calib_data (page address 0x1000 + 0x100 * id, 61 bytes, flushed) and '
                 'read back through read_calib_data / new_data is delivered once as an equal calibration at binary32 precision')
def lh_calib_roundtrip(c):
    mh = c.ext('mh')
    mem = c.new(LH + ':LighthouseMemory', 4, 0x14, 0x2000, mh)
    c.let('mem', mem)
    k = calib_object(c)
    c.int('bs', 0, 15)
    c.require('all(fits_f32(x) for x in kv) and 0 <= uid < 2 ** 32')
    c.call((mem, 'write_calib_data'), c.get('bs'), k, c.ext('wcb'))
    c.ensure('write-no-exception', 'raised is None')
    c.ensure('one-write', "calls('mh') == ('mh.write',)")
    c.snapshot('w', "sent('mh.write')[0]")
    c.ensure('write-target', "is_same(w[1][0], mem) and w[1][1] == 0x1000 + 0x100 * bs and w[2] == {'flush_queue': True} and len(w[1][2]) == 61")
    c.snapshot('img', 'bytes(w[1][2])')
    c.reset_trace()
    c.call((mem, 'read_calib_data'), c.get('bs'), c.ext('rcb'))
    c.ensure('read-request', "raised is None and calls('mh') == ('mh.read',) and sent('mh.read')[0][1][1:] == (0x1000 + 0x100 * bs, 61)")
    c.call((mem, 'new_data'), mem, c.snapshot('_a', '0x1000 + 0x100 * bs'), c.get('img'))
    c.ensure('no-exception', 'raised is None')
    c.ensure('delivered-once', "len(sent('rcb')) == 1 and is_same(sent('rcb')[0][1][0], mem) and mem._update_finished_cb is None")
    c.snapshot('g2', "sent('rcb')[0][1][1]")
    c.snapshot('flat', CAL_FLAT)
    c.ensure('is-calibration', "typename(g2) == 'LighthouseBsCalibration'")
    c.ensure('equal-content', 'len(flat) == 14 and all(same_float(flat[i], f32(kv[i])) for i in range(14)) and g2.uid == uid and g2.valid == kvalid')


@contract('C14', 'lh.file-objects', [LH + ':LighthouseBsGeometry.as_file_object', LH + ':LighthouseBsGeometry.from_file_object',
                                    LH + ':LighthouseBsCalibration.as_file_object', LH + ':LighthouseBsCalibration.from_file_object',
                                    LH + ':LighthouseCalibrationSweep.as_file_object', LH + ':LighthouseCalibrationSweep.from_file_object'],
          clause='from_file_object(as_file_object(x)) has the content of x and valid = True, for geometry and calibration; the file '
                 'objects are plain dict/list/number data with the documented keys')
def lh_file_objects(c):
    g = geo_object(c)
    k = calib_object(c)
    c.call((g, 'as_file_object'))
    c.ensure('geo-file-object', "raised is None and typename(result) == 'dict' and len(result) == 2 and "
             "all(same_float(result['origin'][i], gv[i]) for i in range(3)) and len(result['origin']) == 3 and len(result['rotation']) == 3 and "
             "all(len(result['rotation'][r]) == 3 and all(same_float(result['rotation'][r][i], gv[3 + 3 * r + i]) for i in range(3)) for r in range(3))")
    c.call((c.cls(LH + ':LighthouseBsGeometry'), 'from_file_object'), c.get('result'))
    c.let('g2', c.get('result'))
    c.snapshot('flat', GEO_FLAT)
    c.ensure('geo-round-trip', "raised is None and typename(g2) == 'LighthouseBsGeometry' and g2.valid is True and len(flat) == 12 and "
             "all(same_float(flat[i], gv[i]) for i in range(12))")
    c.call((k, 'as_file_object'))
    c.ensure('calib-file-object', "raised is None and typename(result) == 'dict' and len(result) == 2 and result['uid'] == uid and "
             "len(result['sweeps']) == 2 and all(len(result['sweeps'][s]) == 7 and all(same_float(result['sweeps'][s][%r[i]], kv[7 * s + i]) "
             "for i in range(7)) for s in (0, 1))" % (SWEEP_FIELDS,))
    c.call((c.cls(LH + ':LighthouseBsCalibration'), 'from_file_object'), c.get('result'))
    c.let('g2', c.get('result'))
    c.snapshot('flat', CAL_FLAT)
    c.ensure('calib-round-trip', "raised is None and typename(g2) == 'LighthouseBsCalibration' and g2.valid is True and g2.uid == uid and "
             "len(flat) == 14 and all(same_float(flat[i], kv[i]) for i in range(14))")


# ======================================================================================= YAML files
# Assumed contract of the external library (stated, not proved): yaml.safe_load(yaml.dump(d)) == d for plain data
# (None/bool/int/float/str, lists, dicts with int or str keys).  The symbolic back end models open/yaml.dump/yaml.safe_load as a
# store of documents under that contract; the native replay / concordance runs use the real PyYAML on a real temporary file.

def _tmpfile(tag):
    import os
    return '/tmp/pyvc-C14-%s-%d.yaml' % (tag, os.getpid())


def _rmfile(c, fname):
    """the native back end writes a real file: remove it (the symbolic back end has no file)"""
    import os
    if c.backend == 'native' and os.path.exists(fname):
        os.remove(fname)


def _geo_equal(obj, v):
    flat = '({o}.origin + {o}.rotation_matrix[0] + {o}.rotation_matrix[1] + {o}.rotation_matrix[2])'.format(o=obj)
    return "(typename({o}) == 'LighthouseBsGeometry' and {o}.valid is True and len({f}) == 12 and all(same_float({f}[i], {v}[i]) for i in range(12)))".format(
        o=obj, f=flat, v=v)


def _calib_equal(obj, v, uid):
    flat = '[field({o}.sweeps[s], f) for s in (0, 1) for f in {fs!r}]'.format(o=obj, fs=SWEEP_FIELDS)
    return ("(typename({o}) == 'LighthouseBsCalibration' and {o}.valid is True and {o}.uid == {u} and len({o}.sweeps) == 2 and "
            "all(same_float({f}[i], {v}[i]) for i in range(14)))").format(o=obj, f=flat, v=v, u=uid)


@contract('C14', 'lhcfg.file-roundtrip', [LHCFG + ':LighthouseConfigFileManager.write', LHCFG + ':LighthouseConfigFileManager.read',
                                         LH + ':LighthouseBsGeometry.as_file_object', LH + ':LighthouseBsGeometry.from_file_object',
                                         LH + ':LighthouseBsCalibration.as_file_object', LH + ':LighthouseBsCalibration.from_file_object'],
          clause='read(write(geos, calibs, system_type)) returns exactly the valid geometries and calibrations (every subset of the base '
                 'stations given), with equal content and valid = True, and the system type',
          bounded='base station ids 0 and 5 (geometries), 1 and 15 (calibrations); validity flags, all values and the system type symbolic')
def lhcfg_roundtrip(c):
    fname = c.let('fname', _tmpfile('lhcfg'))
    try:
        geos = c.dict([(0, geo_object(c, 'ga', 'gav', 'gavalid')), (5, geo_object(c, 'gb', 'gbv', 'gbvalid'))])
        calibs = c.dict([(1, calib_object(c, 'ka', 'kav', 'kauid', 'kavalid')), (15, calib_object(c, 'kb', 'kbv', 'kbuid', 'kbvalid'))])
        c.int('stype')
        c.call(LHCFG + ':LighthouseConfigFileManager.write', fname, geos, calibs, c.get('stype'))
        c.ensure('write-no-exception', 'raised is None')
        c.call(LHCFG + ':LighthouseConfigFileManager.read', fname)
        c.ensure('no-exception', 'raised is None')
        c.ensure('result-shape', "typename(result) == 'tuple' and len(result) == 3 and typename(result[0]) == 'dict' and typename(result[1]) == 'dict'")
        c.snapshot('rg', 'result[0]')
        c.snapshot('rk', 'result[1]')
        c.ensure('system-type', 'result[2] == stype')
        c.ensure('only-given-ids', 'all(i in (0, 5) for i in rg) and all(i in (1, 15) for i in rk)')
        c.ensure('geo-0', '(%s) if 0 in rg else (not gavalid)' % _geo_equal('rg[0]', 'gav'))
        c.ensure('geo-5', '(%s) if 5 in rg else (not gbvalid)' % _geo_equal('rg[5]', 'gbv'))
        c.ensure('calib-1', '(%s) if 1 in rk else (not kavalid)' % _calib_equal('rk[1]', 'kav', 'kauid'))
        c.ensure('calib-15', '(%s) if 15 in rk else (not kbvalid)' % _calib_equal('rk[15]', 'kbv', 'kbuid'))
        c.ensure('valid-ones-present', 'iff(0 in rg, gavalid) and iff(5 in rg, gbvalid) and iff(1 in rk, kavalid) and iff(15 in rk, kbvalid)')
    finally:
        _rmfile(c, fname)


PPS = 'cflib.crazyflie.param:PersistentParamState'


@contract('C14', 'param.file-roundtrip', [PIO + ':ParamFileManager.write', PIO + ':ParamFileManager.read'],
          clause='read(write(params)) returns the same parameter names with equal PersistentParamState content (stored flag, default value, '
                 'stored value or None)',
          bounded='three parameters: (bool, int, int), (False, float, None), (True, float, float); names concrete, values symbolic')
def param_roundtrip(c):
    fname = c.let('fname', _tmpfile('param'))
    try:
        c.bool('s1'), c.int('d1'), c.int('v1'), c.float('d2'), c.float('d3'), c.float('v3')
        params = c.dict([('ring.effect', c.namedtuple(PPS, c.get('s1'), c.get('d1'), c.get('v1'))),
                         ('activeMarker.mode', c.namedtuple(PPS, False, c.get('d2'), None)),
                         ('health.startPropTest', c.namedtuple(PPS, True, c.get('d3'), c.get('v3')))])
        c.call(PIO + ':ParamFileManager.write', fname, params)
        c.ensure('write-no-exception', 'raised is None')
        c.call(PIO + ':ParamFileManager.read', fname)
        c.ensure('no-exception', 'raised is None')
        c.ensure('names', "typename(result) == 'dict' and len(result) == 3 and all(typename(result[n]) == 'PersistentParamState' for n in result)")
        c.ensure('param-1', "result['ring.effect'] == (s1, d1, v1) and typename(result['ring.effect'][0]) == 'bool'")
        c.snapshot('p2', "result['activeMarker.mode']")
        c.ensure('param-2', "p2.is_stored is False and same_float(p2.default_value, d2) and p2.stored_value is None")
        c.snapshot('p3', "result['health.startPropTest']")
        c.ensure('param-3', "p3.is_stored is True and same_float(p3.default_value, d3) and same_float(p3.stored_value, v3)")
    finally:
        _rmfile(c, fname)


@contract('C14', 'file-type-envelope', [PIO + ':ParamFileManager.read', LHCFG + ':LighthouseConfigFileManager.read',
                                       PIO + ':ParamFileManager.write', LHCFG + ':LighthouseConfigFileManager.write'],
          clause='a file of the other type is refused: reading a lighthouse configuration file as a parameter file (and the reverse) raises '
                 '"Unsupported file type"; an empty parameter file reads as no parameters')
def file_type_envelope(c):
    fname = c.let('fname', _tmpfile('envelope'))
    try:
        which = c.choice('which', ['lh-as-param', 'param-as-lh', 'empty-params'])
        if which == 'lh-as-param':
            c.call(LHCFG + ':LighthouseConfigFileManager.write', fname, c.dict([]), c.dict([]), 2)
            c.require('raised is None')
            c.call(PIO + ':ParamFileManager.read', fname)
            c.ensure('refused', "raised == 'Exception' and str(exc) == 'Unsupported file type'")
        elif which == 'param-as-lh':
            c.call(PIO + ':ParamFileManager.write', fname, c.dict([]))
            c.require('raised is None')
            c.call(LHCFG + ':LighthouseConfigFileManager.read', fname)
            c.ensure('refused', "raised == 'Exception' and str(exc) == 'Unsupported file type'")
        else:
            c.call(PIO + ':ParamFileManager.write', fname, c.dict([]))
            c.require('raised is None')
            c.call(PIO + ':ParamFileManager.read', fname)
            c.ensure('empty', 'raised is None and result == {}')
    finally:
        _rmfile(c, fname)


@contract('C14', 'lhcfg.file-default-system-type', [LHCFG + ':LighthouseConfigFileManager.write', LHCFG + ':LighthouseConfigFileManager.read'],
          clause='a configuration written without an explicit system type reads back as lighthouse V2 (the documented default, value 2), with no '
                 'geometries and no calibrations when none were given')
def lhcfg_default_type(c):
    fname = c.let('fname', _tmpfile('lhcfgd'))
    try:
        c.call(LHCFG + ':LighthouseConfigFileManager.write', fname)
        c.ensure('write-no-exception', 'raised is None')
        c.call(LHCFG + ':LighthouseConfigFileManager.read', fname)
        c.ensure('empty-v2-configuration', 'raised is None and result == ({}, {}, 2)')
    finally:
        _rmfile(c, fname)


# ======================================================================================= deck memory info section

# firmware (deck_memory.c): info section = version byte (3) followed by 8 records of 0x20 bytes:
#   uint8 bitfield1 (1 valid, 2 started, 4 read, 8 write, 16 upgrade, 32 upgrade required, 64 bootloader active),
#   uint8 bitfield2 (1 reset to fw, 2 reset to bootloader), uint32 required hash, uint32 required length, uint32 base address,
#   char name[18] NUL padded (a name of 18 characters has no terminator)
DECK_FLAGS1 = ('is_valid', 'is_started', 'supports_read', 'supports_write', 'supports_fw_upgrade', 'is_fw_upgrade_required',
               'is_bootloader_active')
DECK_FLAGS2 = ('supports_reset_to_fw', 'supports_reset_to_bootloader')


def deck_record(c, suffix, name_len):
    """a symbolic info record whose ASCII name has exactly name_len characters; returns the spec expression of its 32 bytes"""
    c.int('bf1' + suffix, 0, 255), c.int('bf2' + suffix, 0, 255)
    c.int('hash' + suffix, 0, 2 ** 32 - 1), c.int('rlen' + suffix, 0, 2 ** 32 - 1), c.int('base' + suffix, 0, 2 ** 32 - 1)
    c.bytes('nm' + suffix, name_len)
    c.require('all(1 <= ch <= 127 for ch in nm%s)' % suffix)
    return "pack('<BBLLL', bf1{s}, bf2{s}, hash{s}, rlen{s}, base{s}) + nm{s} + bytes({pad})".format(s=suffix, pad=18 - name_len)


def deck_fields_ok(obj, suffix):
    flags = ' and '.join('%s.%s == ((bf1%s >> %d) & 1 == 1)' % (obj, f, suffix, i) for i, f in enumerate(DECK_FLAGS1))
    flags2 = ' and '.join('%s.%s == ((bf2%s >> %d) & 1 == 1)' % (obj, f, suffix, i) for i, f in enumerate(DECK_FLAGS2))
    return ("({f1} and {f2} and {o}.required_hash == hash{s} and {o}.required_length == rlen{s} and {o}._base_address == base{s} and "
            "{o}.name == nm{s}.decode('ascii'))").format(f1=flags, f2=flags2, o=obj, s=suffix)


@contract('C14', 'deck.parse-record', [DECK + ':DeckMemory._parse'] + [DECK + ':DeckMemory.' + f for f in DECK_FLAGS1 + DECK_FLAGS2],
          clause='a deck-memory info record parses to exactly the fields the device encoded: the seven + two flag properties equal the '
                 'bits of the two bit-field bytes for all 65,536 combinations, and a valid record yields hash, length, base address and the '
                 'name, for names of every length 0..18 (18 = no NUL terminator); an invalid record leaves the fields unset',
          bounded='names are ASCII (1..127) and NUL padded to the 18-byte field')
def deck_parse_record(c):
    n = c.choice('name_len', list(range(19)))
    rec = deck_record(c, '', n)
    d = c.new(DECK + ':DeckMemory', c.ext('mgr'), 0x1000)
    c.let('d', d)
    c.snapshot('rec', rec)
    c.require('len(rec) == 32')
    c.call((d, '_parse'), c.get('rec'))
    c.ensure('no-exception', 'raised is None')
    c.ensure('fields', '(%s) if bf1 & 1 == 1 else (%s)' % (
        deck_fields_ok('d', ''),
        'd.is_valid is False and d.name is None and d.required_hash is None and d.required_length is None and d._base_address is None and ' +
        ' and '.join('d.%s == ((bf1 >> %d) & 1 == 1)' % (f, i) for i, f in enumerate(DECK_FLAGS1)) + ' and ' +
        ' and '.join('d.%s == ((bf2 >> %d) & 1 == 1)' % (f, i) for i, f in enumerate(DECK_FLAGS2))))
    c.ensure('flag-types', ' and '.join("typename(d.%s) == 'bool'" % f for f in DECK_FLAGS1 + DECK_FLAGS2))
    c.ensure('command-address-kept', 'd._command_base_address == 0x1000')


def _deck_query(lens, suffix=''):
    valid = tuple(sorted(lens))
    others = tuple(i for i in range(8) if i not in lens)

    @contract('C14', 'deck.query' + suffix, [DECK + ':DeckMemoryManager.query_decks', DECK + ':DeckMemoryManager._new_data',
                                             DECK + ':DeckMemoryManager._parse_info_section', DECK + ':DeckMemory._parse', DECK + ':DeckMemory.__init__'],
              clause='a query reads the 257-byte info section once and reports, exactly once, a dictionary holding exactly the records whose valid '
                     'bit is set, keyed by record index, each with the fields the device encoded and its own command address 0x1000 + 0x20 * index',
              bounded='records %s fully symbolic with names of %s characters; records %s symbolic but not valid (the three deck.query contracts '
                      'together make every record index 0..7 valid-capable)' % (valid, tuple(lens[i] for i in valid), others))
    def deck_query(c):
        mh = c.ext('mh')
        mgr = c.new(DECK + ':DeckMemoryManager', 7, 0x19, 0x20000000, mh)
        c.let('mgr', mgr)
        recs = []
        for i in range(8):
            recs.append(deck_record(c, '_%d' % i, lens.get(i, 2)))
            if i not in lens:
                c.require('bf1_%d & 1 == 0' % i)
        c.snapshot('section', "pack('<B', 3) + " + ' + '.join(recs))
        c.require('len(section) == 257')
        c.call((mgr, 'query_decks'), c.ext('done'), c.ext('failed'))
        c.ensure('query-reads-info-section', "raised is None and calls() == ('mh.read',) and is_same(sent('mh.read')[0][1][0], mgr) and "
                 "sent('mh.read')[0][1][1:] == (0, 257)")
        c.reset_trace()
        c.call((mgr, '_new_data'), mgr, 0, c.get('section'))
        c.ensure('no-exception', 'raised is None')
        c.ensure('reported-once', "calls() == ('done',) and len(sent('done')[0][1]) == 1 and mgr._query_complete_cb is None")
        c.snapshot('decks', "sent('done')[0][1][0]")
        c.ensure('is-the-stored-dict', "typename(decks) == 'dict' and is_same(decks, mgr.deck_memories)")
        c.ensure('only-valid-records', 'all(i in %r for i in decks) and ' % (valid,) + ' and '.join('iff(%d in decks, bf1_%d & 1 == 1)' % (i, i) for i in valid))
        for i in valid:
            c.ensure('record-%d' % i, "(%s and decks[%d]._command_base_address == 0x1000 + 0x20 * %d and typename(decks[%d]) == 'DeckMemory') "
                     "if %d in decks else True" % (deck_fields_ok('decks[%d]' % i, '_%d' % i), i, i, i, i))
    return deck_query


_deck_query({0: 18, 3: 4, 7: 0})
_deck_query({1: 1, 4: 9}, '.records-1-4')
_deck_query({2: 17, 5: 3, 6: 18}, '.records-2-5-6')


@contract('C14', 'deck.query-version', [DECK + ':DeckMemoryManager.query_decks', DECK + ':DeckMemoryManager._new_data',
                                       DECK + ':DeckMemoryManager._parse_info_section'],
          clause='an info section of another version than 3 is not parsed: the failure callback is called once with a message and no decks are reported')
def deck_query_version(c):
    mh = c.ext('mh')
    mgr = c.new(DECK + ':DeckMemoryManager', 7, 0x19, 0x20000000, mh)
    c.let('mgr', mgr)
    c.bytes('section', 257)
    c.require('section[0] != 3')
    c.call((mgr, 'query_decks'), c.ext('done'), c.ext('failed'))
    c.require('raised is None')
    c.reset_trace()
    c.call((mgr, '_new_data'), mgr, 0, c.get('section'))
    c.ensure('failure-reported-once', "raised is None and calls() == ('failed',) and len(sent('failed')[0][1]) == 1 and "
             "typename(sent('failed')[0][1][0]) == 'str'")
    c.ensure('nothing-stored', 'mgr.deck_memories == {} and mgr._query_complete_cb is None and mgr._query_failed_cb is None')


# ======================================================================================= loco positioning anchor lists

# firmware (locodeck memory handler): LPS v1: byte 0 = number of anchors; anchor page i at 0x1000 + 0x100 * i = float x, y, z, bool valid.
# LPS v2: id list at 0x0000 and active id list at 0x1000 = count byte + up to 16 ids; anchor page of id at 0x2000 + 0x100 * id.

@contract('C14', 'loco.anchor-pages', [LOCO + ':LocoMemory.update', LOCO + ':LocoMemory.new_data', LOCO + ':LocoMemory._request_page',
                                      LOCO + ':AnchorData.set_from_mem_data', LOCO + ':AnchorData.__init__'],
          clause='the anchor count and the fff? record of every anchor page are parsed as encoded (pages requested in order at '
                 '0x1000 + 0x100 * i, 13 bytes), and completion is reported exactly once after the last page',
          bounded='anchor counts 0..3 (the count byte is concrete, page contents symbolic)')
def loco_pages(c):
    mh = c.ext('mh')
    m = c.new(LOCO + ':LocoMemory', 3, 0x11, 0x2000, mh)
    c.let('m', m)
    n = c.choice('n', [0, 1, 2, 3])
    c.let('n', n)
    c.call((m, 'update'), c.ext('cb'))
    c.ensure('update-reads-count', "raised is None and calls() == ('mh.read',) and sent('mh.read')[0][1][1:] == (0, 1) and m.valid is False")
    c.reset_trace()
    c.call((m, 'new_data'), m, 0, bytes([n]))
    c.ensure('count-no-exception', 'raised is None')
    for i in range(n):
        c.ensure('page-%d-requested' % i, "calls() == ('mh.read',) and sent('mh.read')[0][1][1:] == (0x1000 + 0x100 * %d, 13) and m.valid is False" % i)
        c.reset_trace()
        c.bytes('page%d' % i, 13)
        c.call((m, 'new_data'), m, 0x1000 + 0x100 * i, c.get('page%d' % i))
        c.ensure('page-%d-no-exception' % i, 'raised is None')
    c.ensure('reported-once', "calls() == ('cb',) and is_same(sent('cb')[0][1][0], m) and m.valid is True and m._update_finished_cb is None")
    c.ensure('count', 'm.nr_of_anchors == n and len(m.anchor_data) == n')
    for i in range(n):
        c.snapshot('want', "unpack('<fff?', page%d)" % i)
        c.snapshot('a', 'm.anchor_data[%d]' % i)
        c.ensure('anchor-%d' % i, "typename(a) == 'AnchorData' and typename(a.position) == 'tuple' and len(a.position) == 3 and "
                 "all(same_float(a.position[j], want[j]) for j in range(3)) and a.is_valid == (page%d[12] != 0) and typename(a.is_valid) == 'bool'" % i)


def _loco2_ids(n):
    @contract('C14', 'loco2.id-lists.n%d' % n, [LOCO2 + ':LocoMemory2.update_id_list', LOCO2 + ':LocoMemory2.update_active_id_list',
                                               LOCO2 + ':LocoMemory2.new_data', LOCO2 + ':LocoMemory2._handle_id_list_data',
                                               LOCO2 + ':LocoMemory2._handle_active_id_list_data'],
              clause='the anchor id list and the active id list parse to exactly the count and the ids the device encoded, in order, '
                     'ignoring the unused tail of the 17-byte list; each update is reported exactly once',
              bounded='%d ids (every count 0..16 the 17-byte list can hold is enumerated: complete), %d active ids' % (n, min(n, 2)))
    def k(c):
        mh = c.ext('mh')
        m = c.new(LOCO2 + ':LocoMemory2', 3, 0x13, 0x4000, mh)
        c.let('m', m)
        na = min(n, 2)
        c.let('n', n), c.let('na', na)
        c.bytes('ids', n), c.bytes('tail', 16 - n), c.bytes('act', na), c.bytes('atail', 16 - na)
        c.call((m, 'update_id_list'), c.ext('cb'))
        c.ensure('request', "raised is None and calls() == ('mh.read',) and sent('mh.read')[0][1][1:] == (0, 17) and m.ids_valid is False")
        c.reset_trace()
        c.call((m, 'new_data'), m, 0, c.snapshot('_l', 'bytes([n]) + ids + tail'))
        c.ensure('ids', "raised is None and m.nr_of_anchors == n and m.anchor_ids == list(ids) and m.ids_valid is True")
        c.ensure('reported-once', "calls() == ('cb',) and is_same(sent('cb')[0][1][0], m) and m._update_ids_finished_cb is None")
        c.reset_trace()
        c.call((m, 'update_active_id_list'), c.ext('acb'))
        c.ensure('active-request', "raised is None and calls() == ('mh.read',) and sent('mh.read')[0][1][1:] == (0x1000, 17) and m.active_ids_valid is False")
        c.reset_trace()
        c.call((m, 'new_data'), m, 0x1000, c.snapshot('_a', 'bytes([na]) + act + atail'))
        c.ensure('active-ids', "raised is None and m.active_anchor_ids == list(act) and m.active_ids_valid is True and m.anchor_ids == list(ids)")
        c.ensure('active-reported-once', "calls() == ('acb',) and is_same(sent('acb')[0][1][0], m) and m._update_active_ids_finished_cb is None")
        # history: the lists are read again later (anchors come and go); each read gives exactly the list of that read
        na2 = 1 if n else 0
        c.let('na2', na2)
        c.bytes('act2', na2), c.bytes('atail2', 16 - na2)
        c.call((m, 'update_active_id_list'), c.ext('acb2'))
        c.reset_trace()
        c.call((m, 'new_data'), m, 0x1000, c.snapshot('_a2', 'bytes([na2]) + act2 + atail2'))
        c.ensure('active-ids-of-the-second-read-only', "raised is None and m.active_anchor_ids == list(act2) and m.active_ids_valid is True and calls() == ('acb2',)")
        c.bytes('ids2', n), c.bytes('tail2', 16 - n)
        c.call((m, 'update_id_list'), c.ext('cb2'))
        c.reset_trace()
        c.call((m, 'new_data'), m, 0, c.snapshot('_l2', 'bytes([n]) + ids2 + tail2'))
        c.ensure('ids-of-the-second-read-only', "raised is None and m.nr_of_anchors == n and m.anchor_ids == list(ids2) and m.active_anchor_ids == [] and calls() == ('cb2',)")
    return k


for _n in range(17):
    _loco2_ids(_n)


@contract('C14', 'loco2.anchor-data', [LOCO2 + ':LocoMemory2.update_data', LOCO2 + ':LocoMemory2.new_data', LOCO2 + ':LocoMemory2._handle_anchor_data',
                                      LOCO2 + ':LocoMemory2._request_page', LOCO2 + ':AnchorData2.set_from_mem_data',
                                      LOCO2 + ':LocoMemory2._handle_id_list_data'],
          clause='anchor data is fetched for exactly the listed ids, in list order, from page 0x2000 + 0x100 * id (13 bytes), each fff? record '
                 'is stored under its id as encoded, and completion is reported exactly once after the last one',
          bounded='two anchors with ids (0, 1), (7, 2) or (255, 128); page contents symbolic')
def loco2_data(c):
    mh = c.ext('mh')
    m = c.new(LOCO2 + ':LocoMemory2', 3, 0x13, 0x4000, mh)
    c.let('m', m)
    id0, id1 = c.choice('ids', [(0, 1), (7, 2), (255, 128)])
    c.let('id0', id0), c.let('id1', id1)
    c.bytes('p0', 13), c.bytes('p1', 13)
    c.call((m, 'update_id_list'), c.ext('cb'))
    c.call((m, 'new_data'), m, 0, bytes([2, id0, id1]) + bytes(14))
    c.require('raised is None')
    c.reset_trace()
    c.call((m, 'update_data'), c.ext('dcb'))
    c.ensure('first-page', "raised is None and calls() == ('mh.read',) and sent('mh.read')[0][1][1:] == (0x2000 + 0x100 * id0, 13) and m.data_valid is False")
    c.reset_trace()
    c.call((m, 'new_data'), m, 0x2000 + 0x100 * id0, c.get('p0'))
    c.ensure('second-page', "raised is None and calls() == ('mh.read',) and sent('mh.read')[0][1][1:] == (0x2000 + 0x100 * id1, 13) and m.data_valid is False")
    c.reset_trace()
    c.call((m, 'new_data'), m, 0x2000 + 0x100 * id1, c.get('p1'))
    c.ensure('reported-once', "raised is None and calls() == ('dcb',) and is_same(sent('dcb')[0][1][0], m) and m.data_valid is True and "
             "m._update_data_finished_cb is None")
    c.ensure('exactly-the-listed-ids', 'len(m.anchor_data) == 2 and id0 in m.anchor_data and id1 in m.anchor_data')
    for i in (0, 1):
        c.snapshot('want', "unpack('<fff?', p%d)" % i)
        c.snapshot('a', 'm.anchor_data[id%d]' % i)
        c.ensure('anchor-%d' % i, "typename(a) == 'AnchorData2' and len(a.position) == 3 and all(same_float(a.position[j], want[j]) for j in range(3)) "
                 "and a.is_valid == (p%d[12] != 0)" % i)


# ======================================================================================= write-only images

# firmware struct poly4d { float p[4][8]; float duration; } (x, y, z, yaw polynomials, then the duration): 132 bytes, little endian
@contract('C14', 'poly4d.pack', [TRAJ + ':Poly4D.pack', TRAJ + ':Poly4D.__init__', TRAJ + ':Poly4D.Poly.__init__'],
          clause='a polynomial trajectory piece is packed as 33 binary32 values in the order x[0..7], y[0..7], z[0..7], yaw[0..7], duration '
                 '(132 bytes); an omitted polynomial is all zeros; a coefficient outside binary32 raises OverflowError')
def poly4d_pack(c):
    names = ['x', 'y', 'z', 'yaw']
    omit = c.choice('omit', [None, 'z'])
    polys = {}
    for nm in names:
        if nm == omit:
            c.let(nm, [0.0] * 8)
            continue
        vals = c.floats(nm, 8)
        polys[nm] = c.new(TRAJ + ':Poly4D.Poly', vals)
    c.float('duration')
    p = c.new(TRAJ + ':Poly4D', c.get('duration'), **polys)
    c.call((p, 'pack'))
    c.ensure('raises-iff-unrepresentable', 'iff(raised is None, all(fits_f32(v) for v in list(x) + list(y) + list(z) + list(yaw) + [duration]))')
    if c.get('raised') is None:
        c.ensure('layout', "bytes(result) == pack('<' + 'f' * 33, *x, *y, *z, *yaw, duration)")
        c.ensure('size', "len(result) == 132 and typename(result) == 'bytearray'")
    else:
        c.ensure('declared-errors-only', "raised == 'OverflowError'")


@contract('C14', 'trajectory.write_data', [TRAJ + ':TrajectoryMemory.write_data', TRAJ + ':Poly4D.pack'],
          clause='the trajectory image is the concatenation of the packed pieces in list order, written once (flushed) at the start address; the '
                 'number of bytes is returned',
          bounded='two pieces (representable coefficients), set through `trajectory` or the deprecated alias `poly4Ds`; '
                  'the empty trajectory: trajectory.write_data.empty')
def trajectory_write(c):
    mh = c.ext('mh')
    t = c.new(TRAJ + ':TrajectoryMemory', 5, 0x12, 4096, mh)
    c.let('t', t)
    pieces = []
    for i in (0, 1):
        ps = {}
        for nm in ('x', 'y', 'z', 'yaw'):
            ps[nm] = c.new(TRAJ + ':Poly4D.Poly', c.floats('%s%d' % (nm, i), 8))
        c.float('dur%d' % i)
        pieces.append(c.new(TRAJ + ':Poly4D', c.get('dur%d' % i), **ps))
        c.require('all(fits_f32(v) for v in list(x{i}) + list(y{i}) + list(z{i}) + list(yaw{i}) + [dur{i}])'.format(i=i))
    c.let('pieces', pieces)
    via = c.choice('via', ['trajectory', 'poly4Ds'])          # poly4Ds: the deprecated name of the same list
    c.snapshot('_', "setattr(t, %r, pieces)" % via)
    c.ensure('both-names-give-the-pieces-that-were-set', 'all(len(l) == 2 and is_same(l[0], pieces[0]) and is_same(l[1], pieces[1]) for l in (t.trajectory, t.poly4Ds))')
    c.int('start', 0, 4095)
    c.reset_trace()
    c.call((t, 'write_data'), c.ext('done'), c.ext('failed'), c.get('start'))
    c.ensure('no-exception', 'raised is None')
    c.ensure('one-write', "calls() == ('mh.write',) and is_same(sent('mh.write')[0][1][0], t) and sent('mh.write')[0][1][1] == start and "
             "len(sent('mh.write')[0][1]) == 3 and sent('mh.write')[0][2] == {'flush_queue': True}")
    c.ensure('layout', "bytes(sent('mh.write')[0][1][2]) == pack('<' + 'f' * 33, *x0, *y0, *z0, *yaw0, dur0) + pack('<' + 'f' * 33, *x1, *y1, *z1, *yaw1, dur1)")
    c.ensure('returns-size', 'result == 264')


@contract('C14', 'trajectory.write_data.empty', [TRAJ + ':TrajectoryMemory.write_data', TRAJ + ':TrajectoryMemory.__init__'],
          clause='a trajectory memory that was given no pieces writes an empty image (one flushed write of 0 bytes at the start address) and returns 0')
def trajectory_write_empty(c):
    mh = c.ext('mh')
    t = c.new(TRAJ + ':TrajectoryMemory', 5, 0x12, 4096, mh)
    c.let('t', t)
    c.reset_trace()
    c.call((t, 'write_data'), c.ext('done'))
    c.ensure('empty-image-at-0', "raised is None and calls() == ('mh.write',) and is_same(sent('mh.write')[0][1][0], t) and sent('mh.write')[0][1][1] == 0 and "
             "len(sent('mh.write')[0][1][2]) == 0 and sent('mh.write')[0][2] == {'flush_queue': True} and result == 0")


# firmware (ledring12.c, "timing memory" effect): records of 4 bytes: duration, RGB565 high byte, RGB565 low byte,
# leds (bits 0-3) | fade (bit 4) | rotate (bits 5-7); the sequence ends at the first all-zero record.  RGB565 = nearest 5/6/5-bit level.
LED565 = '(((2 * r{i} * 31 + 255) // 510) * 2048 + ((2 * g{i} * 63 + 255) // 510) * 32 + ((2 * b{i} * 31 + 255) // 510))'


@contract('C14', 'ledtimings.write_data', [LEDT + ':LEDTimingsDriverMemory.add', LEDT + ':LEDTimingsDriverMemory.write_data'],
          clause='the LED timing image is one 4-byte record per timing (duration, RGB565 big endian with each colour rounded to the nearest 5/6/5 '
                 'bit level, leds | fade << 4 | rotate << 5), in order, a timing that would read as the all-zero terminator is not emitted, and '
                 'the image ends with the all-zero terminator record; written once (flushed) at address 0',
          bounded='two timings; time 0..65535 (only the low byte is transmitted), colours 0..255, leds 0..15, rotate 0..7')
def ledtimings_write(c):
    mh = c.ext('mh')
    m = c.new(LEDT + ':LEDTimingsDriverMemory', 6, 0x17, 2000, mh)
    c.let('m', m)
    for i in (0, 1):
        c.int('time%d' % i, 0, 65535), c.int('r%d' % i, 0, 255), c.int('g%d' % i, 0, 255), c.int('b%d' % i, 0, 255)
        c.int('leds%d' % i, 0, 15), c.bool('fade%d' % i), c.int('rotate%d' % i, 0, 7)
        c.call((m, 'add'), c.get('time%d' % i), c.dict([('r', c.get('r%d' % i)), ('g', c.get('g%d' % i)), ('b', c.get('b%d' % i))]),
               c.get('leds%d' % i), c.get('fade%d' % i), c.get('rotate%d' % i))
        c.require('raised is None')
        c.snapshot('led%d' % i, LED565.format(i=i))
        c.snapshot('rec%d' % i, '(time{i} % 256, led{i} // 256, led{i} % 256, leds{i} + (16 if fade{i} else 0) + rotate{i} * 32)'.format(i=i))
    c.reset_trace()
    c.call((m, 'write_data'), c.ext('done'))
    c.ensure('no-exception', 'raised is None')
    c.ensure('one-write', "calls() == ('mh.write',) and is_same(sent('mh.write')[0][1][0], m) and sent('mh.write')[0][1][1] == 0 and "
             "len(sent('mh.write')[0][1]) == 3 and sent('mh.write')[0][2] == {'flush_queue': True}")
    c.snapshot('img', "bytes(sent('mh.write')[0][1][2])")
    c.snapshot('z', '(0, 0, 0, 0)')
    nrec = c.snapshot('nrec', 'len(img) // 4 - 1')        # concrete on every path
    c.ensure('terminated', 'len(img) % 4 == 0 and nrec >= 0 and tuple(img[-4:]) == z')
    if nrec == 0:
        c.ensure('layout', 'rec0 == z and rec1 == z')
    elif nrec == 1:
        c.ensure('layout', '(tuple(img[0:4]) == rec0 and rec0 != z and rec1 == z) or (rec0 == z and tuple(img[0:4]) == rec1 and rec1 != z)')
    else:
        c.ensure('layout', 'nrec == 2 and tuple(img[0:4]) == rec0 and tuple(img[4:8]) == rec1 and rec0 != z and rec1 != z')
    c.ensure('is-bytearray', "typename(sent('mh.write')[0][1][2]) == 'bytearray'")


@contract('C14', 'ledtimings.write_data.empty', [LEDT + ':LEDTimingsDriverMemory.write_data', LEDT + ':LEDTimingsDriverMemory.__init__'],
          clause='an LED timing memory without timings writes just the all-zero terminator record (4 bytes, flushed, at address 0)')
def ledtimings_write_empty(c):
    mh = c.ext('mh')
    m = c.new(LEDT + ':LEDTimingsDriverMemory', 6, 0x17, 2000, mh)
    c.let('m', m)
    c.call((m, 'write_data'), c.ext('done'))
    c.ensure('terminator-only', "raised is None and calls() == ('mh.write',) and is_same(sent('mh.write')[0][1][0], m) and sent('mh.write')[0][1][1] == 0 and "
             "bytes(sent('mh.write')[0][1][2]) == bytes(4) and sent('mh.write')[0][2] == {'flush_queue': True}")


# ======================================================================================= re-reads on the same object (content)

@contract('C14', 'ow.reread-roundtrip', [OW + ':OWElement.write_data', OW + ':OWElement.update', OW + ':OWElement.new_data',
                                        OW + ':OWElement._parse_and_check_elements'],
          clause='round trip on a re-read: an element object that has read one written image and then reads another written image (the '
                 'memory was rewritten) reports exactly the elements of the image it read last',
          bounded='first image {Custom: 1 char}, second image {Board name: 2 chars}')   # FINDING, see module docstring
def ow_reread(c):
    c.int('pins', 0, 2 ** 32 - 1), c.int('vid', 0, 255), c.int('pid', 0, 255)
    c.str('custom', 1, lo=0, hi=255), c.str('name', 2, lo=0, hi=255)
    imgs = []
    for i, d in enumerate(("{'Custom': custom}", "{'Board name': name}")):
        w, _ = ow_element(c, 'wmh%d' % i)
        ow_fill(c, w, d)
        c.call((w, 'write_data'), c.ext('wcb'))
        c.require('raised is None')
        c.snapshot('img%d' % i, "bytes(sent('wmh%d.write')[0][1][2])" % i)
    rd, _ = ow_element(c)
    c.let('rd', rd)
    ow_feed(c, rd, 'img0', c.ext('cb0'))
    c.require("raised is None and rd.valid is True and rd.elements == {'Custom': custom}")
    ow_feed(c, rd, 'img1', c.ext('cb'))
    c.ensure('valid', 'raised is None and rd.valid is True')
    c.ensure('elements-of-the-last-image', "rd.elements == {'Board name': name}")


@contract('C14', 'i2c.reread-roundtrip', [I2C + ':I2CElement.update', I2C + ':I2CElement.new_data'],
          clause='round trip on a re-read: an element object that has read a version-1 image and then reads a valid version-0 image reports '
                 'exactly the fields of the version-0 image (no radio address left over from the earlier image)',
          )                                                                             # FINDING, see module docstring
def i2c_reread(c):
    el, mh = i2c_element(c)
    c.let('el', el)
    c.bytes('img0', 21), c.bytes('img', 16)
    c.require(I2C_VALID.replace('img', 'img0') + ' and img0[4] == 1')
    c.require("img[0:4] == b'0xBC' and img[4] == 0 and sum(img[0:15]) % 256 == img[15]")
    i2c_feed(c, el, mh, 'img0', c.ext('cb0'))
    c.require("raised is None and el.valid is True and 'radio_address' in el.elements")
    i2c_feed(c, el, mh, 'img', c.ext('cb'))
    c.ensure('valid', 'raised is None and el.valid is True')
    c.ensure('fields-of-the-last-image', "len(el.elements) == 5 and 'radio_address' not in el.elements")


# ======================================================================================= lighthouse: all base stations (LighthouseMemHelper)
# The helper reads / writes the images of ALL 16 base stations one after the other through the real LighthouseMemory.  The
# memory handler is a stub; the contract plays the memory subsystem: after every request it delivers the reply (data / read
# failed / write done / write failed) the way cflib.crazyflie.mem.Memory does, i.e. as a later call of the element's callback.
# A read of a base station id fails when the firmware does not support that id (or the transfer failed); the data of every
# OTHER id must still arrive ("any subset of base stations").

LH_KINDS = {
    'geos': dict(read='read_all_geos', write='write_geos', base=0x0000, size=49, fmt=GEO_FMT, cls='LighthouseBsGeometry', nfl=12),
    'calibs': dict(read='read_all_calibs', write='write_calibs', base=0x1000, size=61, fmt=CAL_FMT, cls='LighthouseBsCalibration', nfl=14),
}


def lh_helper(c):
    mh = c.ext('mh')
    mem = c.new(LH + ':LighthouseMemory', 4, 0x14, 0x2000, mh)
    cf = c.ext('cf', returns={'mem.get_mems': [mem]})
    h = c.new(LH + ':LighthouseMemHelper', cf)
    c.let('mem', mem), c.let('h', h)
    return h, mem, mh


def _lh_flat(kind, o):
    if kind == 'geos':
        return '({o}.origin + {o}.rotation_matrix[0] + {o}.rotation_matrix[1] + {o}.rotation_matrix[2])'.format(o=o)
    return '[field({o}.sweeps[s], f) for s in (0, 1) for f in {fs!r}]'.format(o=o, fs=SWEEP_FIELDS)


def _lh_is_image(kind, o, img, want):
    """spec: object `o` is exactly what the image `img` of this kind encodes (`want` = the unpacked image)"""
    K = LH_KINDS[kind]
    tail = ('{o}.valid == ({img}[48] != 0)' if kind == 'geos' else
            "{o}.uid == {want}[14] and {o}.valid == ({img}[60] != 0) and len({o}.sweeps) == 2").format(o=o, img=img, want=want)
    return ("(typename({o}) == {cls!r} and len({flat}) == {n} and all(same_float({flat}[i], {want}[i]) for i in range({n})) and {tail})"
            ).format(o=o, cls=K['cls'], flat=_lh_flat(kind, o), n=K['nfl'], want=want, tail=tail)


def lh_read_all(c, kind, h, mem, failing, cbname, imgprefix):
    """one complete read_all_*: every request is answered with the image of that base station or, for the ids in `failing`,
    with a read failure.  States the request sequence; returns the reported dictionary (None when nothing or more than one
    thing was reported: an obligation has failed then) - the caller states its content."""
    K = LH_KINDS[kind]
    got = []
    cb = c.ext(cbname, returns={'()': lambda _i, a, _k: got.append(a)})
    c.reset_trace()
    c.call((h, K['read']), cb)
    for i in range(16):
        addr = K['base'] + 0x100 * i
        c.ensure('%s-request-%d' % (cbname, i), "raised is None and calls('mh') == ('mh.read',) and is_same(sent('mh.read')[0][1][0], mem) and "
                 "sent('mh.read')[0][1][1:] == (%d, %d) and len(sent(%r)) == 0" % (addr, K['size'], cbname))
        c.reset_trace()
        if i in failing:
            c.call((mem, 'new_data_failed'), mem, addr, bytearray())
        else:
            c.call((mem, 'new_data'), mem, addr, c.get('%s%d' % (imgprefix, i)))
    c.ensure(cbname + '-reported-once-after-the-last-id', "raised is None and calls('mh') == () and len(sent(%r)) == 1 and len(sent(%r)[0][1]) == 1 and "
             "typename(sent(%r)[0][1][0]) == 'dict'" % (cbname, cbname, cbname))
    c.let('_n_reports', len(got))
    c.ensure(cbname + '-reported-once-in-all', '_n_reports == 1')
    return got[0][0] if len(got) == 1 and len(got[0]) == 1 else None


def lh_result_is(c, kind, resname, failing, imgprefix, tag=''):
    ok = [i for i in range(16) if i not in failing]
    c.ensure(tag + 'exactly-the-readable-ids', 'len(%s) == %d and all(i in %s for i in %r)' % (resname, len(ok), resname, tuple(ok)))
    for i in ok:
        c.snapshot('_want', 'unpack(%r, %s%d)' % (LH_KINDS[kind]['fmt'], imgprefix, i))
        c.ensure(tag + 'id-%d-is-its-image' % i, '%s if %d in %s else False' % (
            _lh_is_image(kind, '%s[%d]' % (resname, i), '%s%d' % (imgprefix, i), '_want'), i, resname))


LH_FAIL_PATTERNS = [()] + [(i,) for i in range(16)] + [(0, 1), (14, 15), (3, 9), tuple(range(0, 16, 2)), tuple(range(1, 16)), tuple(range(16))]


def _lh_read_all(kind, patterns, suffix='', what=None, thorough_only=False):
    K = LH_KINDS[kind]

    @contract('C14', 'lhhelper.read_all.' + kind + suffix, [LH + ':LighthouseMemHelper.' + K['read'], LH + ':LighthouseMemHelper._ObjectReader.read_all',
                                                   LH + ':LighthouseMemHelper._ObjectReader._data_updated',
                                                   LH + ':LighthouseMemHelper._ObjectReader._update_failed',
                                                   LH + ':LighthouseMemHelper._ObjectReader._get_object',
                                                   LH + ':LighthouseMemHelper.__init__', LH + ':LighthouseMemory.new_data', LH + ':LighthouseMemory.new_data_failed'],
              clause='reading all base stations requests the image of every id 0..15 once, in order, at its page address, and reports exactly once a '
                     'dictionary that holds, for exactly the ids whose read did not fail, the object encoded by THAT id\'s image (any image bytes): '
                     'a failing id (not supported / transfer failed) neither hides the ids above it nor shifts them',
              bounded='failing subsets: %s (%d of the 65,536 subsets)' % (
                  what or 'none, every single id, {0,1}, {14,15}, {3,9}, all even ids, all but 0, all 16', len(patterns)),
              thorough_only=thorough_only)
    def k(c):
        h, mem, mh = lh_helper(c)
        failing = c.choice('failing', patterns)
        for i in range(16):
            if i not in failing:
                c.bytes('img%d' % i, K['size'])
        res = lh_read_all(c, kind, h, mem, failing, 'cb', 'img')
        if res is not None:
            c.let('res', res)
            lh_result_is(c, kind, 'res', failing, 'img')
    return k


_lh_read_all('geos', LH_FAIL_PATTERNS)
_lh_read_all('calibs', [(), (3,), (15,), (0, 15), tuple(range(16))], what='none, {3}, {15}, {0,15}, all 16')
_lh_read_all('geos', [(i, j) for i in range(16) for j in range(i + 1, 16)], suffix='.all-pairs', what='every pair of ids', thorough_only=True)


def lh_objects(c, kind, ids, prefix):
    """one symbolic object of the kind per id (as client code fills them); returns {id: (object, spec of its image)}"""
    out = {}
    for i in ids:
        n = '%s%d' % (prefix, i)
        if kind == 'geos':
            o = geo_object(c, n, n + 'v', n + 'valid')
            c.require('all(fits_f32(x) for x in %sv)' % n)
            out[i] = (o, 'pack(%r, *%sv, %svalid)' % (GEO_FMT, n, n))
        else:
            o = calib_object(c, n, n + 'v', n + 'uid', n + 'valid')
            c.require('all(fits_f32(x) for x in %sv) and 0 <= %suid < 2 ** 32' % (n, n))
            out[i] = (o, 'pack(%r, *%sv, %suid, %svalid)' % (CAL_FMT, n, n, n))
    return out


def lh_serve_page_writes(c, mem, expected, fail_addrs, tag, donename):
    """play the memory subsystem for a sequence of page writes: after every write request deliver write_done (or write_failed for
    the addresses in fail_addrs).  `expected` = {page address: (spec expression of the image that has to arrive there, size)}.
    States: one request at a time, each expected page exactly once (flushed), with its image, nothing else.  The ORDER of the
    pages is not constrained.  Returns the list of addresses in the order written (None when an obligation has failed)."""
    todo = dict(expected)
    order = []
    for _step in range(len(expected)):
        c.ensure('%s-one-request-at-a-time' % tag, "raised is None and calls('mh') == ('mh.write',) and is_same(sent('mh.write')[0][1][0], mem) and "
                 "len(sent('mh.write')[0][1]) == 3 and sent('mh.write')[0][2] == {'flush_queue': True} and len(sent(%r)) == 0" % donename)
        tr = [t for t in c.get('trace') if t[0] == 'mh.write']
        if len(tr) != 1:
            return None
        addr = c.concretize("sent('mh.write')[0][1][1]")
        c.let('_addr', addr)
        if addr not in todo:
            c.ensure('%s-page-still-to-write' % tag, 'False and _addr >= 0')
            return None
        spec, size = todo.pop(addr)
        c.ensure('%s-image-at-0x%04x' % (tag, addr), "bytes(sent('mh.write')[0][1][2]) == %s and len(sent('mh.write')[0][1][2]) == %d" % (spec, size))
        order.append(addr)
        c.reset_trace()
        c.call((mem, 'write_failed' if addr in fail_addrs else 'write_done'), mem, addr)
    return order


def lh_pages(kind, specs):
    """{id: image spec} of one kind -> {page address: (image spec, size)}"""
    K = LH_KINDS[kind]
    return {K['base'] + 0x100 * i: (sp, K['size']) for i, sp in specs.items()}


def lh_serve_writes(c, kind, mem, expected, fail_ids, tag, donename):
    K = LH_KINDS[kind]
    return lh_serve_page_writes(c, mem, lh_pages(kind, expected), tuple(K['base'] + 0x100 * i for i in fail_ids), tag, donename)


def _lh_write(kind, idsets):
    K = LH_KINDS[kind]

    @contract('C14', 'lhhelper.write.' + kind, [LH + ':LighthouseMemHelper.' + K['write'], LH + ':LighthouseMemHelper._ObjectWriter.write',
                                                LH + ':LighthouseMemHelper._ObjectWriter._write_next_object',
                                                LH + ':LighthouseMemHelper._ObjectWriter._data_written',
                                                LH + ':LighthouseMemHelper._ObjectWriter._write_failed',
                                                LH + ':LighthouseMemory.write_done', LH + ':LighthouseMemory.write_failed'],
              clause='writing a dictionary of base stations writes, one request at a time, the image of every given id exactly once at its page '
                     'address (nothing for other ids, any order), and reports once, after the last acknowledgement, True exactly when no write '
                     'failed; a failed write does not stop the remaining ids; the caller\'s dictionary is not modified; on a second use of the '
                     'same helper an earlier failure is forgotten',
              bounded='id sets %r with one failing position each or none; second use: one id, no failure' % (idsets,))
    def k(c):
        h, mem, mh = lh_helper(c)
        ids = c.choice('ids', idsets)
        fail = c.choice('fail', [None] + list(ids))
        objs = lh_objects(c, kind, ids, 'o')
        d = c.dict([(i, objs[i][0]) for i in ids])
        c.let('d', d)
        done = c.ext('done')
        c.reset_trace()
        c.call((h, K['write']), d, done)
        order = lh_serve_writes(c, kind, mem, {i: objs[i][1] for i in ids}, () if fail is None else (fail,), 'first', 'done')
        if order is None:
            return
        c.ensure('reported-once-after-the-last', "raised is None and calls('mh') == () and len(sent('done')) == 1 and sent('done')[0][1] == (%r,)" % (fail is None,))
        c.ensure('callers-dictionary-kept', 'len(d) == %d and all(i in d for i in %r)' % (len(ids), tuple(ids)))
        # second use of the same helper
        o2 = lh_objects(c, kind, (5,), 'p')
        c.reset_trace()
        c.call((h, K['write']), c.dict([(5, o2[5][0])]), c.ext('done2'))
        if lh_serve_writes(c, kind, mem, {5: o2[5][1]}, (), 'second', 'done2') is None:
            return
        c.ensure('second-use-reports-its-own-outcome', "raised is None and calls('mh') == () and len(sent('done2')) == 1 and sent('done2')[0][1] == (True,) and len(sent('done')) == 0")
    return k


_lh_write('geos', [(), (0,), (15, 2), (7, 0, 9)])
_lh_write('calibs', [(), (3,), (1, 14)])


# ======================================================================================= lighthouse: upload + persist (LighthouseConfigWriter)
# write_and_store_config(cb, geos, calibs, system_type): for each data type that is GIVEN (a dictionary, possibly of a subset of
# the base stations) the images of all 16 base stations are written to the Crazyflie RAM (given ids: their content; all others:
# the invalid default image, all zero), then ONE persist request names exactly the ids of the uploaded data types, and only the
# acknowledgement of that request (LH_PERSIST_DATA location packet) completes the operation.  A data type that is None is neither
# written nor persisted.  The system type is switched BEFORE the upload (switching erases the images in the Crazyflie).

LOCN = 'cflib.crazyflie.localization:Localization'


def lhcfg_writer(c):
    mh = c.ext('mh')
    mem = c.new(LH + ':LighthouseMemory', 4, 0x14, 0x2000, mh)
    persist_type = c.getfield(c.cls(LOCN), 'LH_PERSIST_DATA')
    regs = []           # the callbacks registered for location packets, whenever the writer registers them
    loc = c.ext('cf.loc', attrs={'LH_PERSIST_DATA': persist_type}, returns={'receivedLocationPacket.add_callback': lambda _i, a, _k: regs.append(a[0])})
    cf = c.ext('cf', attrs={'loc': loc}, returns={'mem.get_mems': [mem]})
    c.use_stubs(LHCFG, ['time'])
    w = c.new(LHCFG + ':LighthouseConfigWriter', cf)
    c.let('mem', mem), c.let('w', w), c.let('persist_type', persist_type)
    return w, mem, regs


def lhcfg_upload(c, w, mem, regs, tag, donename, geo_specs, calib_specs, fail=(None, None)):
    """drive one complete write_and_store_config that has just been started: serve the page writes, state the persist request,
    deliver the acknowledgement to the callback the writer registered for location packets (`regs`).  geo_specs / calib_specs: None (type not given) or {id: image spec} of
    the GIVEN ids.  fail = (kind, id) of one write that fails."""
    given = [(k, s) for k, s in (('geos', geo_specs), ('calibs', calib_specs)) if s is not None]
    c.ensure(tag + '-started', 'raised is None and len(sent(%r)) == %d' % (donename, 0 if given else 1))
    pages = {}
    for kind, specs in given:           # the images of both types may be uploaded in any order
        pages.update(lh_pages(kind, {i: specs.get(i, 'bytes(%d)' % LH_KINDS[kind]['size']) for i in range(16)}))
    fail_addrs = () if fail[0] is None else (LH_KINDS[fail[0]]['base'] + 0x100 * fail[1],)
    if lh_serve_page_writes(c, mem, pages, fail_addrs, tag, donename) is None:
        return False
    if not given:
        c.ensure(tag + '-nothing-to-do-reports-success-at-once', "calls('mh') == () and len(sent('cf.loc.send_lh_persist_data_packet')) == 0 and "
                 "sent(%r)[0][1] == (True,)" % donename)
        return True
    c.ensure(tag + '-no-write-of-a-type-not-given', "raised is None and calls('mh') == ()")
    c.ensure(tag + '-one-persist-request-naming-the-uploaded-types', "len(sent('cf.loc.send_lh_persist_data_packet')) == 1 and "
             "len(sent('cf.loc.send_lh_persist_data_packet')[0][1]) == 2 and "
             "sorted(sent('cf.loc.send_lh_persist_data_packet')[0][1][0]) == %r and sorted(sent('cf.loc.send_lh_persist_data_packet')[0][1][1]) == %r" % (
                 list(range(16)) if geo_specs is not None else [], list(range(16)) if calib_specs is not None else []))
    c.ensure(tag + '-not-complete-before-the-acknowledgement', 'len(sent(%r)) == 0' % donename)
    c.let('_listening', len(regs) >= 1)
    c.ensure(tag + '-listens-for-the-acknowledgement', '_listening')
    if not regs:
        return False
    on_packet = regs[-1]          # (a callback registered twice is called once by the real Caller)
    persist_type = c.get('persist_type')
    c.reset_trace()
    c.call(on_packet, c.ext('other_pkt', attrs={'type': persist_type + 1}))
    c.ensure(tag + '-other-location-packets-do-not-complete', "raised is None and calls('mh') == () and len(sent('cf.loc.send_lh_persist_data_packet')) == 0 and "
             "len(sent(%r)) == 0" % donename)
    c.call(on_packet, c.ext('ack_pkt', attrs={'type': persist_type}))
    c.ensure(tag + '-acknowledgement-completes-once', "raised is None and calls('mh') == () and len(sent('cf.loc.send_lh_persist_data_packet')) == 0 and "
             "len(sent(%r)) == 1 and sent(%r)[0][1] == (%r,)" % (donename, donename, fail[0] is None))
    return True


@contract('C14', 'lhcfg.writer.upload-and-persist', [LHCFG + ':LighthouseConfigWriter.__init__', LHCFG + ':LighthouseConfigWriter.write_and_store_config',
                                                    LHCFG + ':LighthouseConfigWriter._next', LHCFG + ':LighthouseConfigWriter._upload_done',
                                                    LHCFG + ':LighthouseConfigWriter._received_location_packet',
                                                    LHCFG + ':LighthouseConfigWriter._prepare_geos', LHCFG + ':LighthouseConfigWriter._prepare_calibs',
                                                    LH + ':LighthouseMemHelper.write_geos', LH + ':LighthouseMemHelper.write_calibs'],
          clause='for each data type given (geometries, calibrations, both or none) the images of all 16 base stations reach the lighthouse memory: '
                 'the given ids with the image of their object, every other id with the invalid all-zero image; a type that is None is neither '
                 'written nor persisted; exactly one persist request names all 16 ids of exactly the uploaded types; completion is reported once, '
                 'only after the persist acknowledgement, True iff no write failed; a system type is set before the first image is written',
          bounded='given ids: geometries {0, 5}, calibrations {1} (contents symbolic); at most one failing write (geometry 5 / calibration 0)')
def lhcfg_writer_upload(c):
    w, mem, regs = lhcfg_writer(c)
    types = c.choice('types', ['both', 'geos', 'calibs', 'none'])
    with_type = c.choice('with_system_type', [False, True])
    fail = c.choice('fail', [(None, None)] + ([('geos', 5)] if types in ('both', 'geos') else []) + ([('calibs', 0)] if types in ('both', 'calibs') else []))
    geos = lh_objects(c, 'geos', (0, 5), 'g') if types in ('both', 'geos') else None
    calibs = lh_objects(c, 'calibs', (1,), 'k') if types in ('both', 'calibs') else None
    kw = {}
    if geos is not None:
        kw['geos'] = c.dict([(i, geos[i][0]) for i in geos])
    if calibs is not None:
        kw['calibs'] = c.dict([(i, calibs[i][0]) for i in calibs])
    if with_type:
        kw['system_type'] = c.int('stype')
    c.reset_trace()
    c.call((w, 'write_and_store_config'), c.ext('done'), **kw)
    names = [t[0] for t in c.get('trace')]
    if with_type:
        c.ensure('system-type-set-once', "len(sent('cf.param.set_value')) == 1 and sent('cf.param.set_value')[0][1] == ('lighthouse.systemType', stype)")
        c.let('_type_first', 'cf.param.set_value' in names and ('mh.write' not in names or names.index('cf.param.set_value') < names.index('mh.write')))
        c.ensure('system-type-set-before-the-first-image', '_type_first')
    else:
        c.ensure('system-type-untouched', "len(sent('cf.param.set_value')) == 0")
    lhcfg_upload(c, w, mem, regs, 'upload', 'done', None if geos is None else {i: geos[i][1] for i in geos},
                 None if calibs is None else {i: calibs[i][1] for i in calibs}, fail)
    c.let('given', [kw.get('geos'), kw.get('calibs')])
    c.ensure('callers-dictionaries-kept', '(given[0] is None or (len(given[0]) == 2 and 0 in given[0] and 5 in given[0])) and '
             '(given[1] is None or (len(given[1]) == 1 and 1 in given[1]))')


@contract('C14', 'lhcfg.writer.second-use', [LHCFG + ':LighthouseConfigWriter.write_and_store_config', LHCFG + ':LighthouseConfigWriter._next',
                                            LHCFG + ':LighthouseConfigWriter._upload_done', LHCFG + ':LighthouseConfigWriter._received_location_packet'],
          clause='a second upload on the same writer is independent of the first: after an upload of geometries in which a write failed (reported '
                 'False), an upload of calibrations only writes only calibration images, persists only calibrations and reports True',
          bounded='first: geometries {0} with the write of id 3 failing; second: calibrations {2}')
def lhcfg_writer_second(c):
    w, mem, regs = lhcfg_writer(c)
    geos = lh_objects(c, 'geos', (0,), 'g')
    c.reset_trace()
    c.call((w, 'write_and_store_config'), c.ext('done'), geos=c.dict([(0, geos[0][0])]))
    if not lhcfg_upload(c, w, mem, regs, 'first', 'done', {0: geos[0][1]}, None, ('geos', 3)):
        return
    calibs = lh_objects(c, 'calibs', (2,), 'k')
    c.reset_trace()
    c.call((w, 'write_and_store_config'), c.ext('done2'), calibs=c.dict([(2, calibs[2][0])]))
    c.ensure('first-callback-not-called-again', "len(sent('done')) == 0")
    lhcfg_upload(c, w, mem, regs, 'second', 'done2', None, {2: calibs[2][1]})
    c.ensure('first-callback-never-called-again', "len(sent('done')) == 0")


@contract('C14', 'lhcfg.writer.from-file', [LHCFG + ':LighthouseConfigWriter.write_and_store_config_from_file', LHCFG + ':LighthouseConfigWriter.write_and_store_config',
                                           LHCFG + ':LighthouseConfigFileManager.write', LHCFG + ':LighthouseConfigFileManager.read',
                                           LHCFG + ':LighthouseConfigWriter._prepare_geos', LHCFG + ':LighthouseConfigWriter._prepare_calibs'],
          clause='a configuration file written by the file manager and uploaded with write_and_store_config_from_file puts into the lighthouse memory, '
                 'for every base station that was valid when the file was written, the image of its content (valid = True), and the invalid all-zero '
                 'image for every other base station; the system type of the file is set first; both data types are persisted',
          bounded='geometries {0 (valid symbolic), 5 (valid)}, calibrations {1 (valid symbolic)}; contents (not NaN) and system type symbolic')
def lhcfg_writer_from_file(c):
    fname = c.let('fname', _tmpfile('lhcfgw'))
    try:
        w, mem, regs = lhcfg_writer(c)
        geos = lh_objects(c, 'geos', (0, 5), 'g')
        calibs = lh_objects(c, 'calibs', (1,), 'k')
        c.require('g5valid')
        # the text file keeps that a value is NaN (lhcfg.file-roundtrip) but not the sign / payload bits of a NaN, which an image would show
        c.require('not any(is_nan(x) for x in g0v + g5v + k1v)')
        c.int('stype')
        c.call(LHCFG + ':LighthouseConfigFileManager.write', fname, c.dict([(i, geos[i][0]) for i in geos]), c.dict([(i, calibs[i][0]) for i in calibs]), c.get('stype'))
        c.require('raised is None')
        g0valid = c.concretize('g0valid')
        k1valid = c.concretize('k1valid')
        c.reset_trace()
        c.call((w, 'write_and_store_config_from_file'), c.ext('done'), fname)
        names = [t[0] for t in c.get('trace')]
        c.ensure('system-type-of-the-file-set-once', "len(sent('cf.param.set_value')) == 1 and sent('cf.param.set_value')[0][1] == ('lighthouse.systemType', stype)")
        c.let('_type_first', 'cf.param.set_value' in names and ('mh.write' not in names or names.index('cf.param.set_value') < names.index('mh.write')))
        c.ensure('system-type-set-before-the-first-image', '_type_first')
        gspec = {5: 'pack(%r, *g5v, True)' % GEO_FMT}
        if g0valid:
            gspec[0] = 'pack(%r, *g0v, True)' % GEO_FMT
        kspec = {1: 'pack(%r, *k1v, k1uid, True)' % CAL_FMT} if k1valid else {}
        lhcfg_upload(c, w, mem, regs, 'upload', 'done', gspec, kspec)
    finally:
        _rmfile(c, fname)


@contract('C14', 'lhhelper.read_all.second-use', [LH + ':LighthouseMemHelper.read_all_geos', LH + ':LighthouseMemHelper._ObjectReader.read_all',
                                                 LH + ':LighthouseMemHelper._ObjectReader._data_updated', LH + ':LighthouseMemHelper._ObjectReader._update_failed',
                                                 LH + ':LighthouseMemHelper._ObjectReader._get_object'],
          clause='every read of all base stations on the same helper reports the content of THAT read: after a read in which all 16 ids had data, a '
                 'read in which only ids 0 and 1 can be read (and hold other images) reports exactly those two, with the new content; a read of '
                 'the calibrations afterwards reports calibrations only',
          bounded='first read: 16 images; second read: ids 2..15 fail; third: calibrations of ids 0 and 9')
def lh_read_all_second_use(c):
    h, mem, mh = lh_helper(c)
    for i in range(16):
        c.bytes('a%d' % i, 49)
    c.bytes('b0', 49), c.bytes('b1', 49), c.bytes('k0', 61), c.bytes('k9', 61)
    r1 = lh_read_all(c, 'geos', h, mem, (), 'cb1', 'a')
    if r1 is None:
        return
    r2 = lh_read_all(c, 'geos', h, mem, tuple(range(2, 16)), 'cb2', 'b')
    if r2 is None:
        return
    c.let('r1', r1), c.let('r2', r2)
    lh_result_is(c, 'geos', 'r2', tuple(range(2, 16)), 'b', 'second-')
    c.ensure('first-result-not-changed-by-the-second-read', 'len(r1) == 16 and not is_same(r1, r2)')
    lh_result_is(c, 'geos', 'r1', (), 'a', 'first-')
    keep = tuple(i for i in range(16) if i not in (0, 9))
    r3 = lh_read_all(c, 'calibs', h, mem, keep, 'cb3', 'k')
    if r3 is None:
        return
    c.let('r3', r3)
    lh_result_is(c, 'calibs', 'r3', keep, 'k', 'third-')


def _lh_sync(kind):
    K = LH_KINDS[kind]

    @contract('C14', 'lhhelper.reply-before-request-returns.' + kind, [LH + ':LighthouseMemHelper.' + K['read'], LH + ':LighthouseMemHelper.' + K['write'],
                                                                       LH + ':LighthouseMemory.read_%s_data' % kind[:-1],
                                                                       LH + ':LighthouseMemory.write_%s_data' % kind[:-1],
                                                                       LH + ':LighthouseMemory.new_data', LH + ':LighthouseMemory.write_done'],
              clause='whatever the timing of the replies: when the memory subsystem (another thread) delivers every reply before the requesting call '
                     'has returned - the earliest possible schedule - writing a set of base stations and reading all of them back gives exactly '
                     'the ids written, each with the content of the image written for it; ids that were never written read as failures',
              bounded='ids {0, 3, 15} written (contents symbolic); every reply is delivered from inside mem_handler.read / write',
              max_depth=400)
    def k(c):
        store = {}          # the memory of the device: page address -> image

        def on_write(_i, a, _k):
            m, addr = a[0], a[1]
            c.let('_d', a[2])
            store[c.concretize(addr) if not isinstance(addr, int) else addr] = c.snapshot('_img', 'bytes(_d)')
            c.invoke((m, 'write_done'), m, addr)

        def on_read(_i, a, _k):
            m, addr = a[0], a[1]
            addr = c.concretize(addr) if not isinstance(addr, int) else addr
            if addr in store:
                c.invoke((m, 'new_data'), m, addr, store[addr])
            else:
                c.invoke((m, 'new_data_failed'), m, addr, bytearray())
        mh = c.ext('mh', returns={'write': on_write, 'read': on_read})
        mem = c.new(LH + ':LighthouseMemory', 4, 0x14, 0x2000, mh)
        cf = c.ext('cf', returns={'mem.get_mems': [mem]})
        h = c.new(LH + ':LighthouseMemHelper', cf)
        c.let('mem', mem)
        ids = (0, 3, 15)
        objs = lh_objects(c, kind, ids, 'o')
        got = []
        c.call((h, K['write']), c.dict([(i, objs[i][0]) for i in ids]), c.ext('wdone'))
        c.ensure('written', "raised is None and len(sent('mh.write')) == 3 and len(sent('wdone')) == 1 and sent('wdone')[0][1] == (True,)")
        c.let('_pages', sorted(store))
        c.ensure('pages', '_pages == %r' % [K['base'] + 0x100 * i for i in ids])
        c.reset_trace()
        c.call((h, K['read']), c.ext('rdone', returns={'()': lambda _i, a, _k: got.append(a)}))
        c.ensure('read-back', "raised is None and len(sent('mh.read')) == 16 and len(sent('rdone')) == 1")
        if len(got) != 1 or len(got[0]) != 1:
            return
        c.let('res', got[0][0])
        c.ensure('exactly-the-ids-written', 'len(res) == 3 and all(i in res for i in (0, 3, 15))')
        for i in ids:
            c.let('_w', store.get(K['base'] + 0x100 * i))
            c.ensure('id-%d-content' % i, "(_w == %s and %s) if %d in res else False" % (
                objs[i][1], _lh_is_image(kind, 'res[%d]' % i, '_w', "unpack(%r, _w)" % K['fmt']), i))
    return k


_lh_sync('geos')
_lh_sync('calibs')


# ======================================================================================= anchor lists: re-reads on the same object

@contract('C14', 'loco.reread', [LOCO + ':LocoMemory.update', LOCO + ':LocoMemory.new_data', LOCO + ':LocoMemory._request_page',
                                LOCO + ':AnchorData.set_from_mem_data'],
          clause='every read of the anchor memory reports exactly what the device encoded in THAT read: after a complete read of two anchors a '
                 'second read on the same object (the system now has fewer anchors) reports the new count and exactly that many anchors with the '
                 'new page contents, and the memory is not valid while the second read is in progress',
          bounded='first read 2 anchors, second read 0 or 1 anchor; page contents symbolic')
def loco_reread(c):
    mh = c.ext('mh')
    m = c.new(LOCO + ':LocoMemory', 3, 0x11, 0x2000, mh)
    c.let('m', m)
    n2 = c.choice('n2', [0, 1])
    c.let('n2', n2)
    c.bytes('p0', 13), c.bytes('p1', 13), c.bytes('q0', 13)
    c.call((m, 'update'), c.ext('cb'))
    c.call((m, 'new_data'), m, 0, bytes([2]))
    c.call((m, 'new_data'), m, 0x1000, c.get('p0'))
    c.call((m, 'new_data'), m, 0x1100, c.get('p1'))
    c.require("raised is None and m.valid is True and len(sent('cb')) == 1 and len(m.anchor_data) == 2")
    c.reset_trace()
    c.call((m, 'update'), c.ext('cb2'))
    c.ensure('second-read-requested-and-not-valid-meanwhile', "raised is None and calls() == ('mh.read',) and sent('mh.read')[0][1][1:] == (0, 1) and m.valid is False")
    c.reset_trace()
    c.call((m, 'new_data'), m, 0, bytes([n2]))
    if n2 == 1:
        c.ensure('page-requested', "raised is None and calls() == ('mh.read',) and sent('mh.read')[0][1][1:] == (0x1000, 13) and m.valid is False")
        c.reset_trace()
        c.call((m, 'new_data'), m, 0x1000, c.get('q0'))
    c.ensure('reported-once', "raised is None and calls() == ('cb2',) and is_same(sent('cb2')[0][1][0], m) and m.valid is True")
    c.ensure('count-and-anchors-of-the-second-read', 'm.nr_of_anchors == n2 and len(m.anchor_data) == n2')
    if n2 == 1:
        c.snapshot('want', "unpack('<fff?', q0)")
        c.snapshot('a', 'm.anchor_data[0]')
        c.ensure('anchor-of-the-second-read', "all(same_float(a.position[j], want[j]) for j in range(3)) and a.is_valid == (q0[12] != 0)")


@contract('C14', 'loco2.reread', [LOCO2 + ':LocoMemory2.update_id_list', LOCO2 + ':LocoMemory2.update_data', LOCO2 + ':LocoMemory2.new_data',
                                 LOCO2 + ':LocoMemory2._handle_anchor_data', LOCO2 + ':LocoMemory2._handle_id_list_data', LOCO2 + ':LocoMemory2._request_page'],
          clause='every read reports exactly what the device encoded in THAT read: after the id list (2 ids) and the anchor data have been read, a new '
                 'id list with one other id and a new read of the anchor data fetch exactly the page of that id and leave exactly that anchor; a '
                 'repeated update_data fetches the same pages again and stores the new contents',
          bounded='ids (7, 2) then (9,); page contents symbolic')
def loco2_reread(c):
    mh = c.ext('mh')
    m = c.new(LOCO2 + ':LocoMemory2', 3, 0x13, 0x4000, mh)
    c.let('m', m)
    c.bytes('p0', 13), c.bytes('p1', 13), c.bytes('r0', 13), c.bytes('r1', 13), c.bytes('q', 13)
    c.call((m, 'update_id_list'), c.ext('cb'))
    c.call((m, 'new_data'), m, 0, bytes([2, 7, 2]) + bytes(14))
    c.call((m, 'update_data'), c.ext('dcb'))
    c.call((m, 'new_data'), m, 0x2000 + 0x100 * 7, c.get('p0'))
    c.call((m, 'new_data'), m, 0x2000 + 0x100 * 2, c.get('p1'))
    c.require("raised is None and m.data_valid is True and len(sent('dcb')) == 1 and len(m.anchor_data) == 2")
    # the same anchors are read again (positions may have changed)
    c.reset_trace()
    c.call((m, 'update_data'), c.ext('dcb2'))
    c.ensure('again-first-page', "raised is None and calls() == ('mh.read',) and sent('mh.read')[0][1][1:] == (0x2000 + 0x100 * 7, 13) and m.data_valid is False")
    c.reset_trace()
    c.call((m, 'new_data'), m, 0x2000 + 0x100 * 7, c.get('r0'))
    c.ensure('again-second-page', "raised is None and calls() == ('mh.read',) and sent('mh.read')[0][1][1:] == (0x2000 + 0x100 * 2, 13) and m.data_valid is False")
    c.reset_trace()
    c.call((m, 'new_data'), m, 0x2000 + 0x100 * 2, c.get('r1'))
    c.ensure('again-reported-once', "raised is None and calls() == ('dcb2',) and m.data_valid is True and len(m.anchor_data) == 2")
    for i, (aid, img) in enumerate(((7, 'r0'), (2, 'r1'))):
        c.snapshot('want', "unpack('<fff?', %s)" % img)
        c.snapshot('a', 'm.anchor_data[%d]' % aid)
        c.ensure('again-anchor-%d' % aid, "all(same_float(a.position[j], want[j]) for j in range(3)) and a.is_valid == (%s[12] != 0)" % img)
    # the system changes: one other anchor
    c.call((m, 'update_id_list'), c.ext('cb3'))
    c.reset_trace()
    c.call((m, 'new_data'), m, 0, bytes([1, 9]) + bytes(15))
    c.ensure('new-id-list', "raised is None and calls() == ('cb3',) and m.nr_of_anchors == 1 and m.anchor_ids == [9] and m.data_valid is False")
    c.reset_trace()
    c.call((m, 'update_data'), c.ext('dcb3'))
    c.ensure('only-page', "raised is None and calls() == ('mh.read',) and sent('mh.read')[0][1][1:] == (0x2000 + 0x100 * 9, 13)")
    c.reset_trace()
    c.call((m, 'new_data'), m, 0x2000 + 0x100 * 9, c.get('q'))
    c.ensure('reported-once', "raised is None and calls() == ('dcb3',) and m.data_valid is True")
    c.snapshot('want', "unpack('<fff?', q)")
    c.ensure('exactly-the-new-anchor', "len(m.anchor_data) == 1 and 9 in m.anchor_data and "
             "all(same_float(m.anchor_data[9].position[j], want[j]) for j in range(3)) and m.anchor_data[9].is_valid == (q[12] != 0)")


# ======================================================================================= 1-wire: erased memory, longest element area

@contract('C14', 'ow.erase', [OW + ':OWElement.erase', OW + ':OWElement.update', OW + ':OWElement.new_data', OW + ':OWElement._parse_and_check_header'],
          clause='erasing writes the erased state of the whole 112-byte memory (0xFF) in one write at address 0; read back, the erased memory is '
                 'reported exactly once and NOT valid (its start byte is not 0xEB), also by an element that held a valid identity before')
def ow_erase(c):
    el, mh = ow_element(c)
    c.let('el', el)
    c.reset_trace()
    c.call((el, 'erase'), c.ext('wcb'))
    c.ensure('one-write-of-the-erased-state', "raised is None and calls() == ('mh.write',) and is_same(sent('mh.write')[0][1][0], el) and "
             "sent('mh.write')[0][1][1] == 0 and len(sent('mh.write')[0][1]) == 3 and bytes(sent('mh.write')[0][1][2]) == bytes([0xFF]) * 112")
    c.snapshot('erased', "bytes(sent('mh.write')[0][1][2])")
    # the element read a valid identity before (empty element area)
    c.int('pins', 0, 2 ** 32 - 1), c.int('vid', 0, 255), c.int('pid', 0, 255)
    c.snapshot('hdr', "pack('<BIBB', 0xEB, pins, vid, pid)")
    c.snapshot('area', "pack('BB', 0, 0)")
    c.snapshot('img0', 'hdr + bytes([crc32(hdr) & 0xFF]) + area + bytes([crc32(area) & 0xFF])')
    ow_feed(c, el, 'img0', c.ext('cb0'))
    c.require('raised is None and el.valid is True')
    ow_feed(c, el, 'erased', c.ext('cb'))
    c.ensure('erased-memory-not-valid', 'raised is None and el.valid is False')
    c.ensure('reported-once', "len(sent('cb')) == 1 and is_same(sent('cb')[0][1][0], el) and len(sent('cb0')) == 0")


@contract('C14', 'ow.write_data.area-too-long', [OW + ':OWElement.write_data'],
          clause='an element area longer than the one-byte length field can express (255) is unrepresentable: write_data raises and nothing is written',
          bounded='one element of 254 characters (area of 256 bytes)')
def ow_too_long(c):
    el, mh = ow_element(c)
    ow_fill(c, el, ow_content(c, ('Custom',), (254,)))
    c.require(OW_OK)
    c.reset_trace()
    c.call((el, 'write_data'), c.ext('wcb'))
    c.ensure('raises', "raised == 'struct.error'")
    c.ensure('nothing-written', 'calls() == ()')


# ======================================================================================= deck memory: blocking query, repeated query

@contract('C14', 'deck.query-sync', [DECK + ':SyncDeckMemoryManager.__init__', DECK + ':SyncDeckMemoryManager.query_decks',
                                    DECK + ':DeckMemoryManager.query_decks', DECK + ':DeckMemoryManager._new_data',
                                    DECK + ':DeckMemoryManager._parse_info_section', DECK + ':DeckMemory._parse'],
          clause='the blocking query returns the same dictionary of exactly the valid records with the fields the device encoded; an info section of '
                 'an unsupported version raises RuntimeError instead of returning decks',
          bounded='records 1 and 6 symbolic (names of 5 and 18 characters), the others not valid; the reply is delivered by the memory subsystem '
                  'while the caller is blocked (explicit schedule: from inside mem_handler.read)')
def deck_query_sync(c):
    lens = {1: 5, 6: 18}
    recs = []
    for i in range(8):
        recs.append(deck_record(c, '_%d' % i, lens.get(i, 1)))
        if i not in lens:
            c.require('bf1_%d & 1 == 0' % i)
    c.int('version', 0, 255)
    c.snapshot('section', "pack('<B', version) + " + ' + '.join(recs))
    c.require('len(section) == 257')

    def reply(_i, a, _k):
        c.invoke((a[0], '_new_data'), a[0], 0, c.get('section'))
    mh = c.ext('mh', returns={'read': reply})
    mgr = c.new(DECK + ':DeckMemoryManager', 7, 0x19, 0x20000000, mh)
    sync = c.new(DECK + ':SyncDeckMemoryManager', mgr)
    c.let('mgr', mgr)
    c.call((sync, 'query_decks'))
    c.ensure('returns-iff-supported-version', "iff(raised is None, version == 3) and raised in (None, 'RuntimeError')")
    c.ensure('one-read-of-the-info-section', "len(sent('mh.read')) == 1 and sent('mh.read')[0][1][1:] == (0, 257)")
    if c.get('raised') is None:
        c.let('decks', c.get('result'))
        c.ensure('only-valid-records', "typename(decks) == 'dict' and all(i in (1, 6) for i in decks) and iff(1 in decks, bf1_1 & 1 == 1) and iff(6 in decks, bf1_6 & 1 == 1)")
        for i in (1, 6):
            c.ensure('record-%d' % i, "(%s and decks[%d]._command_base_address == 0x1000 + 0x20 * %d) if %d in decks else True" % (
                deck_fields_ok('decks[%d]' % i, '_%d' % i), i, i, i))


@contract('C14', 'deck.requery', [DECK + ':DeckMemoryManager.query_decks', DECK + ':DeckMemoryManager._new_data',
                                 DECK + ':DeckMemoryManager._parse_info_section', DECK + ':DeckMemory._parse'],
          clause='every query reports exactly the valid records of the info section read by THAT query: after a query that found decks 0 and 2, a '
                 'second query on the same manager whose section holds only deck 5 reports exactly deck 5',
          bounded='first section: records 0, 2 valid; second section: record 5 valid (fields symbolic)')
def deck_requery(c):
    mh = c.ext('mh')
    mgr = c.new(DECK + ':DeckMemoryManager', 7, 0x19, 0x20000000, mh)
    c.let('mgr', mgr)
    secs = []
    for s, valid in (('a', (0, 2)), ('b', (5,))):
        recs = []
        for i in range(8):
            recs.append(deck_record(c, '_%s%d' % (s, i), 3))
            c.require(('bf1_%s%d & 1 == 1' if i in valid else 'bf1_%s%d & 1 == 0') % (s, i))
        secs.append(c.snapshot('sec_' + s, "pack('<B', 3) + " + ' + '.join(recs)))
    c.call((mgr, 'query_decks'), c.ext('done1'))
    c.call((mgr, '_new_data'), mgr, 0, secs[0])
    c.require("raised is None and len(sent('done1')) == 1")
    c.snapshot('first', "sent('done1')[0][1][0]")
    c.require('len(first) == 2')
    c.reset_trace()
    c.call((mgr, 'query_decks'), c.ext('done2'))
    c.ensure('second-query-reads-again', "raised is None and calls() == ('mh.read',) and sent('mh.read')[0][1][1:] == (0, 257)")
    c.reset_trace()
    c.call((mgr, '_new_data'), mgr, 0, secs[1])
    c.ensure('reported-once', "raised is None and calls() == ('done2',) and len(sent('done2')[0][1]) == 1")
    c.snapshot('second', "sent('done2')[0][1][0]")
    c.ensure('exactly-the-decks-of-the-second-section', "len(second) == 1 and 5 in second and is_same(second, mgr.deck_memories)")
    c.ensure('record-5', deck_fields_ok('second[5]', '_b5') + ' and second[5]._command_base_address == 0x1000 + 0x20 * 5')


# ======================================================================================= data of ANOTHER memory
# The memory subsystem broadcasts every reply (new_data / new_data_failed / write_done / write_failed) to ALL memory elements; an
# element must take only the replies of its own memory (mem.id) as its image.

def _foreign(c, own_id):
    c.int('oid', 0, 255)
    c.require('oid != %d' % own_id)
    return c.ext('other', attrs={'id': c.get('oid')})


@contract('C14', 'foreign-data.i2c', [I2C + ':I2CElement.update', I2C + ':I2CElement.new_data'],
          clause='bytes read from another memory are not taken for the EEPROM image: delivered while an update is pending (at address 0 or 16) they '
                 'change nothing, request nothing and report nothing; the element\'s own image that follows is then judged by its own checksum')
def foreign_i2c(c):
    el, mh = i2c_element(c)
    c.let('el', el)
    other = _foreign(c, 0)
    c.bytes('junk', 21), c.bytes('img', 21)
    faddr = c.choice('foreign_addr', [0, 16])
    c.call((el, 'update'), c.ext('cb'))
    c.require('raised is None')
    c.reset_trace()
    c.call((el, 'new_data'), other, faddr, c.snapshot('_j', 'junk[0:16]' if faddr == 0 else 'junk[16:21]'))
    c.ensure('foreign-data-ignored', 'raised is None and calls() == () and el.valid is False and el.elements == {}')
    c.call((el, 'new_data'), el, 0, c.snapshot('_first', 'img[0:16]'))
    tr = c.get('trace')
    if c.get('raised') is None and tr and tr[-1][0] == 'mh.read':
        c.call((el, 'new_data'), other, 16, c.snapshot('_j2', 'junk[16:21]'))
        c.ensure('foreign-address-part-ignored', "raised is None and len(sent('cb')) == 0 and 'radio_address' not in el.elements")
        c.call((el, 'new_data'), el, 16, c.snapshot('_second', 'img[16:21]'))
    c.ensure('own-image-judged-by-its-checksum', 'raised is None and el.valid == %s' % I2C_VALID)
    c.ensure('reported-at-most-once', "len(sent('cb')) <= 1")
    c.ensure('address-of-the-own-image', "(el.elements['radio_address'] == img[15] * 2 ** 32 + unpack('<I', img[16:20])[0]) if 'radio_address' in el.elements else True")


@contract('C14', 'foreign-data.ow', [OW + ':OWElement.update', OW + ':OWElement.new_data'],
          clause='bytes read from another memory are not taken for the 1-wire image: delivered while an update is pending they change nothing, request '
                 'nothing and report nothing; the own image that follows is valid by its own CRCs',
          bounded='own image with an empty element area; foreign data: a VALID image of another deck')
def foreign_ow(c):
    rd, mh = ow_element(c)
    c.let('rd', rd)
    other = _foreign(c, 0)
    for sfx in ('', 'f'):
        c.int('pins' + sfx, 0, 2 ** 32 - 1), c.int('vid' + sfx, 0, 255), c.int('pid' + sfx, 0, 255)
        c.snapshot('hdr', "pack('<BIBB', 0xEB, pins%s, vid%s, pid%s)" % (sfx, sfx, sfx))
        c.snapshot('area', "pack('BB', 0, 0)")
        c.snapshot('img' + sfx, 'hdr + bytes([crc32(hdr) & 0xFF]) + area + bytes([crc32(area) & 0xFF])')
    c.call((rd, 'update'), c.ext('cb'))
    c.require('raised is None')
    c.reset_trace()
    c.call((rd, 'new_data'), other, 0, c.get('imgf'))
    c.ensure('foreign-image-ignored', 'raised is None and calls() == () and rd.valid is False and rd.pins is None and rd.vid is None and rd.pid is None')
    c.call((rd, 'new_data'), other, 8, c.snapshot('_a', 'imgf[8:11]'))
    c.ensure('foreign-element-area-ignored', 'raised is None and calls() == () and rd.valid is False')
    c.call((rd, 'new_data'), rd, 0, c.get('img'))
    c.ensure('own-image', "raised is None and rd.valid is True and rd.pins == pins and rd.vid == vid and rd.pid == pid and len(sent('cb')) == 1")


def _foreign_lh(kind):
    K = LH_KINDS[kind]
    one = kind[:-1]

    @contract('C14', 'foreign-data.lh.' + kind, [LH + ':LighthouseMemory.new_data', LH + ':LighthouseMemory.new_data_failed',
                                                 LH + ':LighthouseMemory.write_done', LH + ':LighthouseMemory.write_failed',
                                                 LH + ':LighthouseMemory.read_%s_data' % one, LH + ':LighthouseMemory.write_%s_data' % one],
              clause='replies for another memory do not answer a pending lighthouse request: foreign data / a foreign read failure leave the read '
                     'pending (the own image that follows is delivered, once, as the object it encodes), and a foreign write acknowledgement / '
                     'failure leaves the write pending (its own acknowledgement is then reported once)')
    def k(c):
        mh = c.ext('mh')
        mem = c.new(LH + ':LighthouseMemory', 4, 0x14, 0x2000, mh)
        c.let('mem', mem)
        other = _foreign(c, 4)
        c.int('bs', 0, 15)
        c.bytes('img', K['size']), c.bytes('junk', K['size'])
        c.snapshot('addr', '%d + 0x100 * bs' % K['base'])
        c.call((mem, 'read_%s_data' % one), c.get('bs'), c.ext('rcb'), c.ext('fcb'))
        c.require('raised is None')
        c.reset_trace()
        c.call((mem, 'new_data'), other, c.get('addr'), c.get('junk'))
        c.call((mem, 'new_data_failed'), other, c.get('addr'), bytearray())
        c.ensure('foreign-replies-ignored', 'raised is None and calls() == ()')
        c.call((mem, 'new_data'), mem, c.get('addr'), c.get('img'))
        c.ensure('own-image-delivered-once', "raised is None and calls() == ('rcb',) and is_same(sent('rcb')[0][1][0], mem)")
        if len([t for t in c.get('trace') if t[0] == 'rcb']) == 1:
            c.snapshot('o', "sent('rcb')[0][1][1]")
            c.snapshot('_want', 'unpack(%r, img)' % K['fmt'])
            c.ensure('object-of-the-own-image', _lh_is_image(kind, 'o', 'img', '_want'))
        obj = lh_objects(c, kind, (0,), 'w')[0]
        c.reset_trace()
        c.call((mem, 'write_%s_data' % one), c.get('bs'), obj[0], c.ext('wcb'), c.ext('wfcb'))
        c.require("raised is None and len(sent('mh.write')) == 1")
        c.reset_trace()
        c.call((mem, 'write_done'), other, c.get('addr'))
        c.call((mem, 'write_failed'), other, c.get('addr'))
        c.ensure('foreign-acknowledgements-ignored', 'raised is None and calls() == ()')
        c.call((mem, 'write_done'), mem, c.get('addr'))
        c.ensure('own-acknowledgement-reported-once', "raised is None and calls() == ('wcb',) and is_same(sent('wcb')[0][1][0], mem) and sent('wcb')[0][1][1] == addr")
    return k


_foreign_lh('geos')
_foreign_lh('calibs')


@contract('C14', 'foreign-data.loco', [LOCO + ':LocoMemory.new_data', LOCO2 + ':LocoMemory2.new_data', DECK + ':DeckMemoryManager._new_data'],
          clause='bytes read from another memory are not taken for an anchor list / anchor page / deck info section: delivered while the read is '
                 'pending they change nothing, request nothing and report nothing',
          bounded='one foreign delivery per kind of request (count byte, id list, active id list, anchor page, info section)')
def foreign_loco(c):
    mh = c.ext('mh')
    which = c.choice('which', ['loco', 'loco2', 'deck'])
    if which == 'loco':
        m = c.new(LOCO + ':LocoMemory', 3, 0x11, 0x2000, mh)
        c.let('m', m)
        other = _foreign(c, 3)
        c.bytes('junk', 13), c.int('jn', 0, 255)
        c.call((m, 'update'), c.ext('cb'))
        c.reset_trace()
        c.call((m, 'new_data'), other, 0, c.snapshot('_c', 'bytes([jn])'))
        c.ensure('foreign-count-ignored', 'raised is None and calls() == () and m.valid is False and m.nr_of_anchors == 0 and m.anchor_data == []')
        c.call((m, 'new_data'), m, 0, bytes([1]))
        c.reset_trace()
        c.call((m, 'new_data'), other, 0x1000, c.get('junk'))
        c.ensure('foreign-page-ignored', 'raised is None and calls() == () and m.valid is False and m.anchor_data[0].is_valid is False and '
                 'm.anchor_data[0].position == (0.0, 0.0, 0.0)')
    elif which == 'loco2':
        m = c.new(LOCO2 + ':LocoMemory2', 3, 0x13, 0x4000, mh)
        c.let('m', m)
        other = _foreign(c, 3)
        c.bytes('junk', 17), c.bytes('page', 13)
        c.require('junk[0] <= 16')
        c.call((m, 'update_id_list'), c.ext('cb'))
        c.reset_trace()
        c.call((m, 'new_data'), other, 0, c.get('junk'))
        c.ensure('foreign-id-list-ignored', 'raised is None and calls() == () and m.ids_valid is False and m.anchor_ids == [] and m.nr_of_anchors == 0')
        c.call((m, 'update_active_id_list'), c.ext('acb'))
        c.reset_trace()
        c.call((m, 'new_data'), other, 0x1000, c.get('junk'))
        c.ensure('foreign-active-id-list-ignored', 'raised is None and calls() == () and m.active_ids_valid is False and m.active_anchor_ids == []')
        c.call((m, 'new_data'), m, 0, bytes([1, 4]) + bytes(15))
        c.call((m, 'update_data'), c.ext('dcb'))
        c.reset_trace()
        c.call((m, 'new_data'), other, 0x2000 + 0x100 * 4, c.get('page'))
        c.ensure('foreign-anchor-page-ignored', 'raised is None and calls() == () and m.data_valid is False and m.anchor_data == {}')
    else:
        mgr = c.new(DECK + ':DeckMemoryManager', 7, 0x19, 0x20000000, mh)
        c.let('m', mgr)
        other = _foreign(c, 7)
        c.bytes('junk', 257)
        c.call((mgr, 'query_decks'), c.ext('done'), c.ext('failed'))
        c.reset_trace()
        c.call((mgr, '_new_data'), other, 0, c.get('junk'))
        c.ensure('foreign-info-section-ignored', 'raised is None and calls() == () and m.deck_memories == {}')
        c.call((mgr, '_new_data'), mgr, 0, bytes([3]) + bytes(256))
        c.ensure('own-info-section-still-awaited', "raised is None and calls() == ('done',) and sent('done')[0][1] == ({},)")


# ======================================================================================= error exit: an unrepresentable object, then a representable one

@contract('C14', 'lh.rejected-write.memory', [LH + ':LighthouseMemory.write_geo_data', LH + ':LighthouseMemory.write_calib_data',
                                             LH + ':LighthouseBsGeometry.add_mem_data', LH + ':LighthouseBsCalibration.add_mem_data'],
          clause='every representable content round-trips, also after an error exit: a geometry / calibration that cannot be represented (a value '
                 'outside binary32, a uid outside 32 bits) is refused with an exception and nothing is written, and the same memory object then writes a '
                 'representable one normally (the refused write does not count as a write in progress)',
          bounded='the unrepresentable component is the first, the eighth or the last value, or the uid')
def lh_rejected_write_memory(c):
    mh = c.ext('mh')
    mem = c.new(LH + ':LighthouseMemory', 4, 0x14, 0x2000, mh)
    c.let('mem', mem)
    kind = c.choice('kind', ['geos', 'calibs'])
    K = LH_KINDS[kind]
    one = kind[:-1]
    j = c.choice('unrepresentable_component', [0, 7, K['nfl'] - 1] + (['uid'] if kind == 'calibs' else []))
    if kind == 'geos':
        bad = geo_object(c, 'bad', 'badv', 'badvalid')
    else:
        bad = calib_object(c, 'bad', 'badv', 'baduid', 'badvalid')
        c.require('not (0 <= baduid < 2 ** 32)' if j == 'uid' else '0 <= baduid < 2 ** 32')
    c.require(' and '.join(('fits_f32(badv[%d])' if i != j else 'not fits_f32(badv[%d])') % i for i in range(K['nfl'])))
    good = lh_objects(c, kind, (0,), 'good')[0]
    c.int('bs', 0, 15)
    c.reset_trace()
    c.call((mem, 'write_%s_data' % one), c.get('bs'), bad, c.ext('wcb0'))
    c.ensure('refused-nothing-written', "raised in ('OverflowError', 'struct.error') and calls() == ()")
    c.call((mem, 'write_%s_data' % one), c.get('bs'), good[0], c.ext('wcb'))
    c.ensure('representable-one-written-afterwards', "raised is None and calls() == ('mh.write',) and sent('mh.write')[0][1][1] == %d + 0x100 * bs and "
             "bytes(sent('mh.write')[0][1][2]) == %s" % (K['base'], good[1]))


@contract('C14', 'lhhelper.rejected-write', [LH + ':LighthouseMemHelper.write_geos', LH + ':LighthouseMemHelper._ObjectWriter.write',
                                            LH + ':LighthouseMemHelper._ObjectWriter._write_next_object',
                                            LHCFG + ':LighthouseConfigWriter.write_and_store_config'],
          clause='every representable content round-trips, also after an error exit: after a dictionary with an unrepresentable geometry was refused '
                 'with an exception, the same helper / configuration writer uploads a representable dictionary normally',
          bounded='one geometry with a value outside binary32, then one representable geometry (id 0)',
          thorough_only=True)      # FAILS on the unchanged tree (candidate finding, see module docstring)
def lhhelper_rejected_write(c):
    via = c.choice('via', ['helper', 'config-writer'])
    bad = geo_object(c, 'bad', 'badv', 'badvalid')
    c.require('not fits_f32(badv[4]) and ' + ' and '.join('fits_f32(badv[%d])' % i for i in range(12) if i != 4))
    if via == 'helper':
        h, mem, mh = lh_helper(c)
        good = lh_objects(c, 'geos', (0,), 'good')[0]
        c.call((h, 'write_geos'), c.dict([(0, bad)]), c.ext('done0'))
        c.require("raised == 'OverflowError'")
        c.reset_trace()
        c.call((h, 'write_geos'), c.dict([(0, good[0])]), c.ext('done'))
        c.ensure('representable-dictionary-written-afterwards', "raised is None and len(sent('mh.write')) == 1 and bytes(sent('mh.write')[0][1][2]) == " + good[1])
    else:
        w, mem, regs = lhcfg_writer(c)
        good = lh_objects(c, 'geos', (0,), 'good')[0]
        c.call((w, 'write_and_store_config'), c.ext('done0'), geos=c.dict([(0, bad)]))
        c.require("raised == 'OverflowError'")
        c.reset_trace()
        c.call((w, 'write_and_store_config'), c.ext('done'), geos=c.dict([(0, good[0])]))
        c.ensure('representable-configuration-uploaded-afterwards', "raised is None and len(sent('mh.write')) == 1")
