"""C10 - unanswered requests are retried until answered, and only then (sequential fragment).

Decided here: the timer / transmit rules of Crazyflie.send_packet for first sends and retries, longest-prefix
cancellation in _check_for_answers, close_link clearing the pending patterns, "nothing on a closed link" and
"a request of one session is never transmitted in a later session" as histories of real calls on one real
Crazyflie object (built by its real constructor).  threading.Timer is a recording stub: a "timer firing" is the
contract calling the function the code handed to Timer.

Not decidable by this technique (stated, not claimed): retransmission *at the timeout interval* in real time, and races
between a firing timer thread and a reply handled on the dispatcher thread (thread interleavings).
Assumed: threading.Timer calls its function at most once after the interval unless cancelled.
"""
from pyvc.api import contract

CF = 'cflib.crazyflie'
STK = 'cflib.crtp.crtpstack'
SEND = [CF + ':Crazyflie.send_packet']


def fresh_cf(c, needs_resending=True, with_link=True):
    c.use_stubs(CF, ['Timer'])
    cf = c.new(CF + ':Crazyflie')
    link = c.ext('link', attrs={'needs_resending': needs_resending})
    if with_link:
        c.set(cf, 'link', link)
    ps = c.ext('packet_sent')
    c.set(cf, 'packet_sent', ps)
    c.let('cf', cf)
    c.reset_trace()
    return cf, link


def packet(c, n=3):
    c.int('h', 0, 255)
    pk = c.new(STK + ':CRTPPacket', c.get('h'), c.bytes('data', n))
    c.let('pk', pk)
    return pk


@contract('C10', 'send.first', SEND,
          clause='a request sent with an expected reply on a link that does not guarantee delivery registers exactly one retry timer '
                 'for the pattern (header,)+expected_reply and is transmitted once; on links that guarantee delivery no timer is ever created')
def send_first(c):
    nr = c.bool('needs_resending')
    cf, link = fresh_cf(c, nr)
    pk = packet(c)
    n = c.choice('n_expected', [0, 1, 3])
    exp = c.ints('exp', n, 0, 255, kind='tuple')
    c.float('timeout', finite=True)
    c.call((cf, 'send_packet'), pk, exp, False, c.get('timeout'))
    c.let('n', n)
    c.ensure('no-exception', 'raised is None')
    c.ensure('transmitted-exactly-once', "len(sent('link.send_packet')) == 1 and is_same(sent('link.send_packet')[0][1][0], pk)")
    c.ensure('packet-sent-notified-once', "len(sent('packet_sent.call')) == 1")
    c.ensure('timer-iff-unreliable-link-and-expectation', "iff(len(sent('Timer')) == 1, needs_resending and n > 0) and len(sent('Timer')) <= 1")
    c.ensure('pattern-registered', "implies(needs_resending and n > 0, len(cf._answer_patterns) == 1 and "
             "list(cf._answer_patterns.keys())[0] == (pk.header,) + exp and "
             "is_same(list(cf._answer_patterns.values())[0], sent('Timer')[0][2]['timer']))")
    c.ensure('no-pattern-otherwise', "implies(not (needs_resending and n > 0), len(cf._answer_patterns) == 0)")
    c.ensure('timer-interval-and-started', "implies(needs_resending and n > 0, same_float(float(sent('Timer')[0][1][0]), float(timeout)) and "
             "calls('timer') == ('timer!0.start',))")
    c.ensure('send-lock-released', 'not cf._send_lock.locked()')


@contract('C10', 'send.closed-link', SEND, clause='nothing is ever transmitted on a closed link (and no timer is created)')
def send_closed(c):
    cf, link = fresh_cf(c, True, with_link=False)
    pk = packet(c)
    exp = c.ints('exp', 2, 0, 255, kind='tuple')
    resend = c.bool('resend')
    c.call((cf, 'send_packet'), pk, exp, resend)
    c.ensure('no-exception', 'raised is None')
    c.ensure('nothing-happens', "len(trace) == 0 and len(cf._answer_patterns) == 0")
    c.ensure('send-lock-released', 'not cf._send_lock.locked()')


@contract('C10', 'retry.pending', SEND + [CF + ':Crazyflie._no_answer_do_retry'],
          clause='while the request is unanswered its timer retransmits it: the fired timer transmits the same packet once and is replaced by a new started timer for the same pattern')
def retry_pending(c):
    cf, link = fresh_cf(c, True)
    pk = packet(c)
    exp = c.ints('exp', 2, 0, 255, kind='tuple')
    c.call((cf, 'send_packet'), pk, exp)
    c.require('raised is None')
    c.snapshot('t0', "sent('Timer')[0][2]['timer']")
    c.snapshot('fire', "sent('Timer')[0][1][1]")
    c.reset_trace()
    k = c.choice('fires', [1, 2])
    for i in range(k):
        c.call(c.get('fire'))          # the timer fires
        c.ensure('no-exception-%d' % i, 'raised is None')
        c.ensure('retransmitted-once-%d' % i, "len(sent('link.send_packet')) == %d and all(is_same(e[1][0], pk) for e in sent('link.send_packet'))" % (i + 1))
        c.ensure('new-timer-for-same-pattern-%d' % i, "len(sent('Timer')) == %d and len(cf._answer_patterns) == 1 and "
                 "list(cf._answer_patterns.keys())[0] == (pk.header,) + exp and "
                 "is_same(list(cf._answer_patterns.values())[0], sent('Timer')[-1][2]['timer'])" % (i + 1))
        c.ensure('new-timer-started-%d' % i, "calls('timer')[-1].endswith('.start') and len(calls('timer')) == %d" % (i + 1))
        c.snapshot('fire', "sent('Timer')[-1][1][1]")
    c.ensure('send-lock-released', 'not cf._send_lock.locked()')


@contract('C10', 'retry.answered', SEND + [CF + ':Crazyflie._check_for_answers', CF + ':Crazyflie._no_answer_do_retry'],
          clause='once a packet whose header and leading bytes match the expectation is received the request is not retransmitted any more, '
                 'even if its timer had already fired concurrently')
def retry_answered(c):
    cf, link = fresh_cf(c, True)
    pk = packet(c)
    exp = c.ints('exp', 2, 0, 255, kind='tuple')
    c.call((cf, 'send_packet'), pk, exp)
    c.require('raised is None')
    c.snapshot('fire', "sent('Timer')[0][1][1]")
    c.reset_trace()
    # the reply: same header, data starting with the expected bytes
    tail = c.bytes('tail', c.choice('tail_len', [0, 2]))          # 0: the reply is exactly header + expected bytes
    reply = c.new(STK + ':CRTPPacket', c.get('h'), c.snapshot('rdata', 'bytes(exp) + tail'))
    # the reply travels the way every received packet does: through the packet_received callbacks of the session
    # (the initial-packet check, which unregisters itself on the first packet of a session, and the answer check)
    first_packet = c.choice('first_packet_of_the_session', [True, False])
    if first_packet:
        c.invoke((c.getfield(cf, 'packet_received'), 'add_callback'), c.getfield(cf, '_check_for_initial_packet_cb'))
    else:
        c.invoke((c.getfield(cf, 'packet_received'), 'remove_callback'), c.getfield(cf, '_check_for_initial_packet_cb'))
    c.set(cf, 'link_established', c.ext('link_established'))
    c.call((c.getfield(cf, 'packet_received'), 'call'), reply)
    c.ensure('reply-cancels-timer', "raised is None and calls('timer') == ('timer!0.cancel',) and len(cf._answer_patterns) == 0")
    c.reset_trace()
    c.call(c.get('fire'))              # the (already running) timer function still executes
    c.ensure('no-exception', 'raised is None')
    c.ensure('not-retransmitted-after-answer', "len(sent('link.send_packet')) == 0 and len(sent('Timer')) == 0")
    c.ensure('send-lock-released', 'not cf._send_lock.locked()')


@contract('C10', 'answers.longest-prefix', [CF + ':Crazyflie._check_for_answers'],
          clause='an incoming packet cancels only the pending request whose pattern is its longest matching prefix',
          bounded='three pending patterns of lengths 2, 3 and 2 with symbolic bytes, packets with 3 data bytes')
def longest_prefix(c):
    cf, link = fresh_cf(c, True)
    pats = [c.ints('p0', 2, 0, 255, kind='tuple'), c.ints('p1', 3, 0, 255, kind='tuple'), c.ints('p2', 2, 0, 255, kind='tuple')]
    c.require('p0 != p2')
    timers = [c.ext('T%d' % i) for i in range(3)]
    c.set(cf, '_answer_patterns', c.dict(list(zip(pats, timers))))
    pk = packet(c, 3)
    c.snapshot('data', '(pk.header,) + tuple(pk.data)')
    c.call((cf, '_check_for_answers'), pk)
    c.ensure('no-exception', 'raised is None')
    for i, n in enumerate((2, 3, 2)):
        c.let('P', pats[i])
        c.snapshot('m%d' % i, 'data[:%d] == P' % n)
    # the longest matching prefix, from the property
    c.snapshot('win', '1 if m1 else (0 if m0 else (2 if m2 else -1))')
    for i in range(3):
        c.ensure('cancelled-iff-longest-match-%d' % i, "iff(len(sent('T%d.cancel')) == 1, win == %d) and len(sent('T%d.cancel')) <= 1" % (i, i, i))
    c.let('pats', tuple(pats))
    c.ensure('only-that-pattern-removed', "len(cf._answer_patterns) == (3 if win == -1 else 2) and "
             "all(iff(pats[i] in cf._answer_patterns, win != i) for i in range(3))")


@contract('C10', 'session.close-reopen', SEND + [CF + ':Crazyflie.close_link', CF + ':Crazyflie._link_error_cb'],
          clause='a request from one session is never transmitted in a later session: after the link is closed (with or without a preceding '
                 'link error) a retry timer of the old session transmits nothing, neither on the closed link nor on the link of the next session')
def close_reopen(c):
    cf, link = fresh_cf(c, True)
    pk = packet(c)
    exp = c.ints('exp', 2, 0, 255, kind='tuple')
    c.call((cf, 'send_packet'), pk, exp)
    c.require('raised is None')
    c.snapshot('fire', "sent('Timer')[0][1][1]")
    how = c.choice('how', ['close', 'error-then-close', 'error-only'])
    c.set(cf, 'state', c.choice('state', [1, 2, 3]))
    if how != 'close':
        c.call((cf, '_link_error_cb'), 'link died')
        c.ensure('error-handled', 'raised is None and cf.link is None')
    if how != 'error-only':
        c.call((cf, 'close_link'))
        c.ensure('closed', 'raised is None and cf.link is None and len(cf._answer_patterns) == 0')
    c.reset_trace()
    fire_when = c.choice('fire_when', ['while-closed', 'after-reopen'])
    if fire_when == 'after-reopen':
        if how == 'error-only':
            return          # the application must close before it can reopen through open_link; error-only + reopen is not a session change
        link2 = c.ext('link2', attrs={'needs_resending': True})
        c.set(cf, 'link', link2)
    c.call(c.get('fire'))
    c.ensure('no-exception', 'raised is None')
    c.ensure('old-request-not-transmitted', "len(sent('link.send_packet')) == 0 and len(sent('link2.send_packet')) == 0 and len(sent('Timer')) == 0")
    c.ensure('send-lock-released', 'not cf._send_lock.locked()')


@contract('C10', 'drivers.needs_resending', ['cflib.crtp.crtpdriver:CRTPDriver.__init__'],
          clause='links that guarantee delivery declare it (needs_resending False); the base driver defaults to resending')
def drivers(c):
    d = c.new('cflib.crtp.crtpdriver:CRTPDriver')
    c.let('d', d)
    c.call((d, 'get_status'))
    c.ensure('default-needs-resending', 'd.needs_resending is True')


@contract('C10', 'drivers.reliable-links', ['cflib.crtp.usbdriver:UsbDriver.__init__', 'cflib.crtp.tcpdriver:TcpDriver.__init__',
                                          'cflib.crtp.serialdriver:SerialDriver.__init__', 'cflib.crtp.radiodriver:RadioDriver.__init__'],
          clause='on links that guarantee delivery no retransmission happens: usb, tcp and serial links declare needs_resending False; the radio '
                 'link starts as needing retries (until safelink is confirmed, see C01 negotiation)')
def reliable_links(c):
    which = c.choice('driver', ['cflib.crtp.usbdriver:UsbDriver', 'cflib.crtp.tcpdriver:TcpDriver', 'cflib.crtp.serialdriver:SerialDriver',
                                'cflib.crtp.radiodriver:RadioDriver'])
    d = c.new(which)
    c.let('d', d)
    c.let('is_radio', which.endswith('RadioDriver'))
    c.call((d, 'get_name'))
    c.ensure('declared-reliability', 'd.needs_resending is is_radio')
    # and such a link never gets a retry timer
    cf, link = fresh_cf(c, True)
    c.set(cf, 'link', d)
    c.set(d, 'send_packet', c.ext('drv_send'))
    pk = packet(c)
    exp = c.ints('exp', 2, 0, 255, kind='tuple')
    c.call((cf, 'send_packet'), pk, exp)
    c.ensure('timer-only-on-the-radio-link', "raised is None and len(sent('Timer')) == (1 if is_radio else 0) and len(sent('drv_send')) == 1")


@contract('C10', 'radio.needs_resending-follows-each-negotiation', ['cflib.crtp.radiodriver:_RadioDriverThread.run', 'cflib.crtp.radiodriver:RadioDriver.__init__'],
          clause='whether requests are retried follows the link of the CURRENT session: after a session with safelink, a new radio thread on the '
                 'same driver whose peer does not confirm safelink (e.g. the bootloader) makes the link need retries again',
          bounded='two successive radio threads on one RadioDriver; every order of (confirmed, not confirmed)')
def needs_resending_follows(c):
    RD = 'cflib.crtp.radiodriver'
    ACK = 'cflib.drivers.crazyradio:_radio_ack'
    drv = c.new(RD + ':RadioDriver')
    c.let('drv', drv)
    first = c.choice('first_session_safelink', [True, False])
    second = c.choice('second_session_safelink', [True, False])
    for idx, confirmed in enumerate((first, second)):
        n = [0]
        stop = c.raiser('StopLoop')

        def send(_i, args, _k, confirmed=confirmed, n=n):
            n[0] += 1
            if confirmed and n[0] == 1:
                return c.obj(ACK, ack=True, data=c.snapshot('good', 'bytes([0xff, 0x05, 0x01])'), powerDet=False, retry=0)
            if not confirmed and n[0] <= 10:
                return c.obj(ACK, ack=True, data=(), powerDet=False, retry=0)
            return stop()
        radio = c.ext('radio%d' % idx, returns={'send_packet': send})
        th = c.new(RD + ':_RadioDriverThread', radio, c.queue('inq%d' % idx), c.queue('outq%d' % idx, maxsize=1), None, c.ext('link_error'), drv, None)
        c.set(th, '_radio_link_statistics', c.ext('stats'))
        c.call((th, 'run'))
        c.let('confirmed', confirmed)
        c.ensure('session-%d-started' % idx, "raised == 'StopLoop'")
        c.ensure('session-%d-retries-iff-no-safelink' % idx, 'drv.needs_resending is (not confirmed)')
