"""C10 - unanswered requests are retried until answered, and only then (sequential fragment).

Decided here: the timer / transmit rules of Crazyflie.send_packet for first sends and retries, longest-prefix
cancellation in _check_for_answers, close_link clearing the pending patterns, "nothing on a closed link" and
"a request of one session is never transmitted in a later session" as histories of real calls on one real
Crazyflie object (built by its real constructor).  threading.Timer is a recording stub: a "timer firing" is the
contract calling the function the code handed to Timer.

Extension round (second half of the file): sessions reopened through the REAL open_link (driver lookup stubbed), second use of
one pattern, pending sets of every shape (patterns longer than the packet, nested, absent), and the drivers' side of "nothing
on a closed link" / "not in a later session" (RadioDriver close / pause / restart / connect, _RadioDriverThread.stop, the
shared radio instance, UsbDriver send / close).  Thread interleavings are covered ONLY as explicit schedules, each named in
its contract's `bounded=`: the caller waits for the send lock while the link is closed (`c.lock(..., on_block=...)`: the other
threads' actions run while this one waits), the reply is dispatched from inside link.send_packet, the reply / a link error
arrives while another thread is inside the locked region of send_packet (logging call = schedule point), close() / pause()
arrives while the radio thread is transmitting.

Contracts that state the property and FAIL on the unchanged tree (native replay; kept under thorough_only, reported):
  session.link-error-then-open_link          _link_error_cb keeps the pending patterns; after open_link an old timer transmits the
                                             old request on the new link and keeps retrying it there
  retry.interval-kept                        retries after the first are armed with 0.2 s, not with the request's timeout
  retry.reply-while-the-timer-thread-re-arms KeyError in the timer thread, _send_lock held for ever
  send.link-error-while-sending              AttributeError on None in the sending thread, _send_lock held for ever

Not decidable by this technique (stated, not claimed): retransmission *at the timeout interval* in real time (only the interval
handed to Timer is checked), and thread interleavings other than the explicit schedules above (real pre-emption between two
arbitrary statements).
Assumed: threading.Timer calls its function at most once after the interval unless cancelled.
"""
from pyvc.api import contract

CF = 'cflib.crazyflie'
STK = 'cflib.crtp.crtpstack'
SEND = [CF + ':Crazyflie.send_packet']


def fresh_cf(c, needs_resending=True, with_link=True):
    c.use_stubs(CF, ['Timer'])
    cf = c.new(CF + ':Crazyflie')
    link = c.ext('link', attrs={'needs_resending': needs_resending})
    if with_link:
        c.set(cf, 'link', link)
    ps = c.ext('packet_sent')
    c.set(cf, 'packet_sent', ps)
    c.let('cf', cf)
    c.reset_trace()
    return cf, link


def packet(c, n=3):
    c.int('h', 0, 255)
    pk = c.new(STK + ':CRTPPacket', c.get('h'), c.bytes('data', n))
    c.let('pk', pk)
    return pk


@contract('C10', 'send.first', SEND,
          clause='a request sent with an expected reply on a link that does not guarantee delivery registers exactly one retry timer '
                 'for the pattern (header,)+expected_reply and is transmitted once; on links that guarantee delivery no timer is ever created')
def send_first(c):
    nr = c.bool('needs_resending')
    cf, link = fresh_cf(c, nr)
    pk = packet(c)
    n = c.choice('n_expected', [0, 1, 3])
    exp = c.ints('exp', n, 0, 255, kind='tuple')
    c.float('timeout', finite=True)
    c.call((cf, 'send_packet'), pk, exp, False, c.get('timeout'))
    c.let('n', n)
    c.ensure('no-exception', 'raised is None')
    c.ensure('transmitted-exactly-once', "len(sent('link.send_packet')) == 1 and is_same(sent('link.send_packet')[0][1][0], pk)")
    c.ensure('packet-sent-notified-once', "len(sent('packet_sent.call')) == 1")
    c.ensure('timer-iff-unreliable-link-and-expectation', "iff(len(sent('Timer')) == 1, needs_resending and n > 0) and len(sent('Timer')) <= 1")
    c.ensure('pattern-registered', "implies(needs_resending and n > 0, len(cf._answer_patterns) == 1 and "
             "list(cf._answer_patterns.keys())[0] == (pk.header,) + exp and "
             "is_same(list(cf._answer_patterns.values())[0], sent('Timer')[0][2]['timer']))")
    c.ensure('no-pattern-otherwise', "implies(not (needs_resending and n > 0), len(cf._answer_patterns) == 0)")
    c.ensure('timer-interval-and-started', "implies(needs_resending and n > 0, same_float(float(sent('Timer')[0][1][0]), float(timeout)) and "
             "calls('timer') == ('timer!0.start',))")
    c.ensure('send-lock-released', 'not cf._send_lock.locked()')


@contract('C10', 'send.closed-link', SEND, clause='nothing is ever transmitted on a closed link (and no timer is created)')
def send_closed(c):
    cf, link = fresh_cf(c, True, with_link=False)
    pk = packet(c)
    exp = c.ints('exp', 2, 0, 255, kind='tuple')
    resend = c.bool('resend')
    c.call((cf, 'send_packet'), pk, exp, resend)
    c.ensure('no-exception', 'raised is None')
    c.ensure('nothing-happens', "len(trace) == 0 and len(cf._answer_patterns) == 0")
    c.ensure('send-lock-released', 'not cf._send_lock.locked()')


@contract('C10', 'retry.pending', SEND + [CF + ':Crazyflie._no_answer_do_retry'],
          clause='while the request is unanswered its timer retransmits it: the fired timer transmits the same packet once and is replaced by a new started timer for the same pattern')
def retry_pending(c):
    cf, link = fresh_cf(c, True)
    pk = packet(c)
    exp = c.ints('exp', 2, 0, 255, kind='tuple')
    c.call((cf, 'send_packet'), pk, exp)
    c.require('raised is None')
    c.snapshot('t0', "sent('Timer')[0][2]['timer']")
    c.snapshot('fire', "sent('Timer')[0][1][1]")
    c.reset_trace()
    k = c.choice('fires', [1, 2])
    for i in range(k):
        c.call(c.get('fire'))          # the timer fires
        c.ensure('no-exception-%d' % i, 'raised is None')
        c.ensure('retransmitted-once-%d' % i, "len(sent('link.send_packet')) == %d and all(is_same(e[1][0], pk) for e in sent('link.send_packet'))" % (i + 1))
        c.ensure('new-timer-for-same-pattern-%d' % i, "len(sent('Timer')) == %d and len(cf._answer_patterns) == 1 and "
                 "list(cf._answer_patterns.keys())[0] == (pk.header,) + exp and "
                 "is_same(list(cf._answer_patterns.values())[0], sent('Timer')[-1][2]['timer'])" % (i + 1))
        c.ensure('new-timer-started-%d' % i, "calls('timer')[-1].endswith('.start') and len(calls('timer')) == %d" % (i + 1))
        c.snapshot('fire', "sent('Timer')[-1][1][1]")
    c.ensure('send-lock-released', 'not cf._send_lock.locked()')


@contract('C10', 'retry.answered', SEND + [CF + ':Crazyflie._check_for_answers', CF + ':Crazyflie._no_answer_do_retry'],
          clause='once a packet whose header and leading bytes match the expectation is received the request is not retransmitted any more, '
                 'even if its timer had already fired concurrently')
def retry_answered(c):
    cf, link = fresh_cf(c, True)
    pk = packet(c)
    exp = c.ints('exp', 2, 0, 255, kind='tuple')
    c.call((cf, 'send_packet'), pk, exp)
    c.require('raised is None')
    c.snapshot('fire', "sent('Timer')[0][1][1]")
    c.reset_trace()
    # the reply: same header, data starting with the expected bytes
    tail = c.bytes('tail', c.choice('tail_len', [0, 2]))          # 0: the reply is exactly header + expected bytes
    reply = c.new(STK + ':CRTPPacket', c.get('h'), c.snapshot('rdata', 'bytes(exp) + tail'))
    # the reply travels the way every received packet does: through the packet_received callbacks of the session
    # (the initial-packet check, which unregisters itself on the first packet of a session, and the answer check)
    first_packet = c.choice('first_packet_of_the_session', [True, False])
    if first_packet:
        c.invoke((c.getfield(cf, 'packet_received'), 'add_callback'), c.getfield(cf, '_check_for_initial_packet_cb'))
    else:
        c.invoke((c.getfield(cf, 'packet_received'), 'remove_callback'), c.getfield(cf, '_check_for_initial_packet_cb'))
    c.set(cf, 'link_established', c.ext('link_established'))
    c.call((c.getfield(cf, 'packet_received'), 'call'), reply)
    c.ensure('reply-cancels-timer', "raised is None and calls('timer') == ('timer!0.cancel',) and len(cf._answer_patterns) == 0")
    c.reset_trace()
    c.call(c.get('fire'))              # the (already running) timer function still executes
    c.ensure('no-exception', 'raised is None')
    c.ensure('not-retransmitted-after-answer', "len(sent('link.send_packet')) == 0 and len(sent('Timer')) == 0")
    c.ensure('send-lock-released', 'not cf._send_lock.locked()')


@contract('C10', 'answers.longest-prefix', [CF + ':Crazyflie._check_for_answers'],
          clause='an incoming packet cancels only the pending request whose pattern is its longest matching prefix',
          bounded='three pending patterns of lengths 2, 3 and 2 with symbolic bytes, packets with 3 data bytes')
def longest_prefix(c):
    cf, link = fresh_cf(c, True)
    pats = [c.ints('p0', 2, 0, 255, kind='tuple'), c.ints('p1', 3, 0, 255, kind='tuple'), c.ints('p2', 2, 0, 255, kind='tuple')]
    c.require('p0 != p2')
    timers = [c.ext('T%d' % i) for i in range(3)]
    c.set(cf, '_answer_patterns', c.dict(list(zip(pats, timers))))
    pk = packet(c, 3)
    c.snapshot('data', '(pk.header,) + tuple(pk.data)')
    c.call((cf, '_check_for_answers'), pk)
    c.ensure('no-exception', 'raised is None')
    for i, n in enumerate((2, 3, 2)):
        c.let('P', pats[i])
        c.snapshot('m%d' % i, 'data[:%d] == P' % n)
    # the longest matching prefix, from the property
    c.snapshot('win', '1 if m1 else (0 if m0 else (2 if m2 else -1))')
    for i in range(3):
        c.ensure('cancelled-iff-longest-match-%d' % i, "iff(len(sent('T%d.cancel')) == 1, win == %d) and len(sent('T%d.cancel')) <= 1" % (i, i, i))
    c.let('pats', tuple(pats))
    c.ensure('only-that-pattern-removed', "len(cf._answer_patterns) == (3 if win == -1 else 2) and "
             "all(iff(pats[i] in cf._answer_patterns, win != i) for i in range(3))")


@contract('C10', 'session.close-reopen', SEND + [CF + ':Crazyflie.close_link', CF + ':Crazyflie._link_error_cb'],
          clause='a request from one session is never transmitted in a later session: after the link is closed (with or without a preceding '
                 'link error) a retry timer of the old session transmits nothing, neither on the closed link nor on the link of the next session')
def close_reopen(c):
    cf, link = fresh_cf(c, True)
    pk = packet(c)
    exp = c.ints('exp', 2, 0, 255, kind='tuple')
    c.call((cf, 'send_packet'), pk, exp)
    c.require('raised is None')
    c.snapshot('fire', "sent('Timer')[0][1][1]")
    how = c.choice('how', ['close', 'error-then-close', 'error-only'])
    c.set(cf, 'state', c.choice('state', [1, 2, 3]))
    if how != 'close':
        c.call((cf, '_link_error_cb'), 'link died')
        c.ensure('error-handled', 'raised is None and cf.link is None')
    if how != 'error-only':
        c.call((cf, 'close_link'))
        c.ensure('closed', 'raised is None and cf.link is None and len(cf._answer_patterns) == 0')
    c.reset_trace()
    fire_when = c.choice('fire_when', ['while-closed', 'after-reopen'])
    if fire_when == 'after-reopen':
        if how == 'error-only':
            return          # link error + reopen without close_link: see session.link-error-then-open_link (real open_link)
        link2 = c.ext('link2', attrs={'needs_resending': True})
        c.set(cf, 'link', link2)
    c.call(c.get('fire'))
    c.ensure('no-exception', 'raised is None')
    c.ensure('old-request-not-transmitted', "len(sent('link.send_packet')) == 0 and len(sent('link2.send_packet')) == 0 and len(sent('Timer')) == 0")
    c.ensure('send-lock-released', 'not cf._send_lock.locked()')


@contract('C10', 'drivers.needs_resending', ['cflib.crtp.crtpdriver:CRTPDriver.__init__'],
          clause='links that guarantee delivery declare it (needs_resending False); the base driver defaults to resending')
def drivers(c):
    d = c.new('cflib.crtp.crtpdriver:CRTPDriver')
    c.let('d', d)
    c.call((d, 'get_status'))
    c.ensure('default-needs-resending', 'd.needs_resending is True')


@contract('C10', 'drivers.reliable-links', ['cflib.crtp.usbdriver:UsbDriver.__init__', 'cflib.crtp.tcpdriver:TcpDriver.__init__',
                                          'cflib.crtp.serialdriver:SerialDriver.__init__', 'cflib.crtp.radiodriver:RadioDriver.__init__'],
          clause='on links that guarantee delivery no retransmission happens: usb, tcp and serial links declare needs_resending False; the radio '
                 'link starts as needing retries (until safelink is confirmed, see C01 negotiation)')
def reliable_links(c):
    which = c.choice('driver', ['cflib.crtp.usbdriver:UsbDriver', 'cflib.crtp.tcpdriver:TcpDriver', 'cflib.crtp.serialdriver:SerialDriver',
                                'cflib.crtp.radiodriver:RadioDriver'])
    d = c.new(which)
    c.let('d', d)
    c.let('is_radio', which.endswith('RadioDriver'))
    c.call((d, 'get_name'))
    c.ensure('declared-reliability', 'd.needs_resending is is_radio')
    # and such a link never gets a retry timer
    cf, link = fresh_cf(c, True)
    c.set(cf, 'link', d)
    c.set(d, 'send_packet', c.ext('drv_send'))
    pk = packet(c)
    exp = c.ints('exp', 2, 0, 255, kind='tuple')
    c.call((cf, 'send_packet'), pk, exp)
    c.ensure('timer-only-on-the-radio-link', "raised is None and len(sent('Timer')) == (1 if is_radio else 0) and len(sent('drv_send')) == 1")


@contract('C10', 'radio.needs_resending-follows-each-negotiation', ['cflib.crtp.radiodriver:_RadioDriverThread.run', 'cflib.crtp.radiodriver:RadioDriver.__init__'],
          clause='whether requests are retried follows the link of the CURRENT session: after a session with safelink, a new radio thread on the '
                 'same driver whose peer does not confirm safelink (e.g. the bootloader) makes the link need retries again',
          bounded='two successive radio threads on one RadioDriver; every order of (confirmed, not confirmed)')
def needs_resending_follows(c):
    RD = 'cflib.crtp.radiodriver'
    ACK = 'cflib.drivers.crazyradio:_radio_ack'
    drv = c.new(RD + ':RadioDriver')
    c.let('drv', drv)
    first = c.choice('first_session_safelink', [True, False])
    second = c.choice('second_session_safelink', [True, False])
    for idx, confirmed in enumerate((first, second)):
        n = [0]
        stop = c.raiser('StopLoop')

        def send(_i, args, _k, confirmed=confirmed, n=n):
            n[0] += 1
            if confirmed and n[0] == 1:
                return c.obj(ACK, ack=True, data=c.snapshot('good', 'bytes([0xff, 0x05, 0x01])'), powerDet=False, retry=0)
            if not confirmed and n[0] <= 10:
                return c.obj(ACK, ack=True, data=(), powerDet=False, retry=0)
            return stop()
        radio = c.ext('radio%d' % idx, returns={'send_packet': send})
        th = c.new(RD + ':_RadioDriverThread', radio, c.queue('inq%d' % idx), c.queue('outq%d' % idx, maxsize=1), None, c.ext('link_error'), drv, None)
        c.set(th, '_radio_link_statistics', c.ext('stats'))
        c.call((th, 'run'))
        c.let('confirmed', confirmed)
        c.ensure('session-%d-started' % idx, "raised == 'StopLoop'")
        c.ensure('session-%d-retries-iff-no-safelink' % idx, 'drv.needs_resending is (not confirmed)')


# ------------------------------------------------------------------------- extension round: histories, schedules, drivers

URI2 = 'radio://0/80/2M'


def fresh_cf_vt(c, needs_resending=True):
    """like fresh_cf, for histories that go through the real open_link (which starts the dispatcher thread: recorded)"""
    c.virtual_time()
    return fresh_cf(c, needs_resending)


def reopen(c, cf, needs_resending=True):
    """the next session, opened the way applications open it: the real open_link; the driver lookup hands out the stub link2.
    The requests of the new session's own connection set-up are sent on link2 (they are not the old request)."""
    link2 = c.ext('link2', attrs={'needs_resending': needs_resending})
    c.let('link2', link2)
    c.patch('cflib.crtp:get_link_driver', c.ext('get_link_driver', returns={'()': lambda *_a: link2}))
    c.call((cf, 'open_link'), URI2)
    c.ensure('next-session-open', 'raised is None and is_same(cf.link, link2)', cls='A')
    return link2


def fire_timers(c, since, label, rounds=2):
    """every retry timer created since trace index `since` fires (also the ones a cancel came too late for), and so do
    the timers those firings create, `rounds` times"""
    for r in range(rounds):
        c.snapshot('n_timers', "len(sent('Timer'))")
        n = c.concretize('n_timers')
        for i in range(since, n):
            c.snapshot('fire', "sent('Timer')[%d][1][1]" % i)
            c.call(c.get('fire'))
            c.ensure('%s-timer-%d-survives' % (label, i), 'raised is None')
        since = n


def fire_nth(c, i):
    """the i-th timer ever created fires; False (nothing happens) when there is no such timer - the obligations that follow then fail"""
    c.snapshot('n_timers', "len(sent('Timer'))")
    if c.concretize('n_timers') <= i:
        return False
    c.call(c.snapshot('fire', "sent('Timer')[%d][1][1]" % i))
    return True


NOT_ON = "not any(is_same(e[1][0], pk) for e in sent('%s.send_packet'))"


@contract('C10', 'send.link-closed-while-waiting-for-send-lock',
          SEND + [CF + ':Crazyflie.close_link', CF + ':Crazyflie._link_error_cb', CF + ':Crazyflie._no_answer_do_retry', CF + ':Crazyflie.open_link'],
          clause='nothing is ever transmitted on a closed link and a request from one session is never transmitted in a later session, also when '
                 'the sending thread had to wait for the send lock and the link was closed (link error and/or close_link) while it waited: the '
                 'request is not handed to the closed link, and no retry timer of it transmits it on the link of the next session',
          bounded='explicit schedule: the send lock is held by a thread that is transmitting; while the caller waits for the lock the link is '
                  'closed and the holder releases the lock; then the next session is opened and every timer of the request fires (2 rounds)')
def closed_while_waiting(c):
    cf, link = fresh_cf_vt(c, True)
    pk = packet(c)
    exp = c.ints('exp', 2, 0, 255, kind='tuple')
    how = c.choice('how', ['error', 'close', 'error-then-close'])
    c.set(cf, 'state', c.choice('state', [1, 2]))
    box = []

    def others():
        lk = box[0]
        waited = how != 'close' and c.invoke_catch((cf, '_link_error_cb'), 'link died') == 'Deadlock'
        c.invoke((lk, 'release'))                                 # the transmitting thread is done
        if waited:
            c.invoke((cf, '_link_error_cb'), 'link died')        # the error report had to wait for the lock too, and gets it first
        if how != 'error':
            c.invoke((cf, 'close_link'))                          # its zero set-point gets the lock before the waiting caller
    lk = c.lock('send_lock', held=True, on_block=others)
    box.append(lk)
    c.set(cf, '_send_lock', lk)
    c.call((cf, 'send_packet'), pk, exp)
    c.ensure('returns', 'raised is None')
    c.ensure('schedule-ran', 'cf.link is None')
    c.ensure('not-handed-to-the-closed-link', NOT_ON % 'link')
    c.ensure('send-lock-released', 'not cf._send_lock.locked()')
    reopen(c, cf)
    fire_timers(c, 0, 'old')
    c.ensure('old-request-not-transmitted-in-the-next-session', (NOT_ON % 'link2') + ' and ' + (NOT_ON % 'link'))
    c.ensure('send-lock-released-at-the-end', 'not cf._send_lock.locked()')


def deliver_reply(c, cf, data_expr, name='reply'):
    """a packet with the request's header and the given data arrives and goes through the packet_received callbacks of the session"""
    reply = c.new(STK + ':CRTPPacket', c.get('h'), c.snapshot(name + '_data', data_expr))
    c.let(name, reply)
    c.call((c.getfield(cf, 'packet_received'), 'call'), reply)
    return reply


def _reopen_history(name, hows, **opts):
    @contract('C10', name, SEND + [CF + ':Crazyflie.close_link', CF + ':Crazyflie._link_error_cb', CF + ':Crazyflie.open_link',
                                   CF + ':Crazyflie._no_answer_do_retry', CF + ':Crazyflie._check_for_answers'],
              clause='a request from one session is never transmitted in a later session: after the link went away (%s) and the application '
                     'opened the next session with open_link, no retry timer of the old request - fired at any point of its retry chain - '
                     'transmits it, neither on the old link nor on the new one; and the new session retries its own requests until answered, '
                     'and only then' % ' / '.join(hows),
              bounded='0 or 1 retransmissions before the link goes away; every timer of the old request fires after the reopen (2 rounds)', **opts)
    def k(c):
        cf, link = fresh_cf_vt(c, True)
        pk = packet(c)
        exp = c.ints('exp', 2, 0, 255, kind='tuple')
        c.call((cf, 'send_packet'), pk, exp)
        c.require('raised is None')
        first = 0
        if c.choice('retransmitted_before', [False, True]):
            fire_nth(c, 0)
            c.require("raised is None and len(sent('Timer')) == 2")
            first = 1
        how = c.choice('how', hows)
        c.set(cf, 'state', c.choice('state', [1, 2, 3]))
        if how != 'close':
            c.call((cf, '_link_error_cb'), 'link died')
            c.ensure('error-handled', 'raised is None and cf.link is None')
        if how != 'error':
            c.call((cf, 'close_link'))
            c.ensure('closed', 'raised is None and cf.link is None')
        c.snapshot('old_tx', "len([e for e in sent('link.send_packet') if is_same(e[1][0], pk)])")
        reopen(c, cf)
        fire_timers(c, first, 'old')
        c.ensure('old-request-not-transmitted-in-the-next-session',
                 (NOT_ON % 'link2') + " and len([e for e in sent('link.send_packet') if is_same(e[1][0], pk)]) == old_tx")
        c.ensure('send-lock-released', 'not cf._send_lock.locked()')
        # the new session: its own request (same expectation as the old one) is retried until answered, and only then
        pk2 = c.new(STK + ':CRTPPacket', c.get('h'), c.bytes('data2', 2))
        c.let('pk2', pk2)
        c.snapshot('t_before', "len(sent('Timer'))")
        t0 = c.concretize('t_before')
        c.call((cf, 'send_packet'), pk2, exp)
        c.ensure('new-request-transmitted-once-on-the-new-link',
                 "raised is None and len([e for e in sent('link2.send_packet') if is_same(e[1][0], pk2)]) == 1")
        c.ensure('new-request-has-a-retry-timer', "len(sent('Timer')) == t_before + 1")
        fire_nth(c, t0)
        c.ensure('new-request-retransmitted-while-unanswered',
                 "raised is None and len([e for e in sent('link2.send_packet') if is_same(e[1][0], pk2)]) == 2 and len(sent('Timer')) == t_before + 2")
        deliver_reply(c, cf, 'bytes(exp)')
        c.ensure('reply-delivered', 'raised is None')
        fire_timers(c, t0 + 1, 'new', rounds=1)
        c.ensure('new-request-not-retransmitted-after-its-answer',
                 "len([e for e in sent('link2.send_packet') if is_same(e[1][0], pk2)]) == 2 and " + (NOT_ON % 'link2'))
    return k


_reopen_history('session.close-then-open_link', ['close', 'error-then-close'])
# on the unchanged tree this one FAILS and replays natively (reported): _link_error_cb closes the link but keeps the pending patterns,
# open_link does not clear them either, so a retry timer that fires after the application reconnected transmits the old request
_reopen_history('session.link-error-then-open_link', ['error'], thorough_only=True)


@contract('C10', 'retry.interval-kept', SEND + [CF + ':Crazyflie._no_answer_do_retry'],
          clause='an unanswered request is retransmitted at ITS timeout interval: every timer of the retry chain is armed with the timeout the '
                 'request was sent with (requests of the memory subsystem are sent with timeout=1)',
          bounded='the first two retransmissions', thorough_only=True)
def interval_kept(c):
    # on the unchanged tree this FAILS and replays natively (reported): _no_answer_do_retry does not pass the timeout on, every
    # retransmission after the first is armed with the default 0.2 s
    cf, link = fresh_cf(c, True)
    pk = packet(c)
    exp = c.ints('exp', 2, 0, 255, kind='tuple')
    c.float('timeout', finite=True)
    c.require('timeout > 0.0')
    c.call((cf, 'send_packet'), pk, exp, False, c.get('timeout'))
    c.require('raised is None')
    for i in range(2):
        fire_nth(c, i)
        c.ensure('retry-%d-armed-with-the-request-timeout' % i,
                 "raised is None and len(sent('Timer')) == %d and same_float(float(sent('Timer')[%d][1][0]), float(timeout))" % (i + 2, i + 1))


@contract('C10', 'retry.same-request-sent-twice', SEND + [CF + ':Crazyflie._no_answer_do_retry', CF + ':Crazyflie._check_for_answers'],
          clause='second use: a request sent again while its first transmission is still unanswered (same header and expectation) is still '
                 'retransmitted while unanswered, and once the reply has arrived NO timer of either transmission retransmits anything',
          bounded='two sends of one pattern; answered before or after the first round of timers; every timer ever created fires once')
def sent_twice(c):
    cf, link = fresh_cf(c, True)
    pk = packet(c)
    exp = c.ints('exp', 2, 0, 255, kind='tuple')
    pk2 = c.new(STK + ':CRTPPacket', c.get('h'), c.bytes('data2', 3))
    c.let('pk2', pk2)
    c.call((cf, 'send_packet'), pk, exp)
    c.require('raised is None')
    c.call((cf, 'send_packet'), pk2, exp)
    c.ensure('second-send-transmitted', "raised is None and len(sent('link.send_packet')) == 2")
    first = 0
    if c.choice('answered', ['after-one-round', 'at-once']) == 'after-one-round':
        c.snapshot('tx0', "len(sent('link.send_packet'))")
        fire_timers(c, 0, 'pending', rounds=1)
        c.ensure('retransmitted-while-unanswered', "len(sent('link.send_packet')) > tx0 and len(cf._answer_patterns) == 1")
        first = 2
    deliver_reply(c, cf, 'bytes(exp) + data2')
    c.ensure('reply-delivered', 'raised is None')
    c.snapshot('tx1', "len(sent('link.send_packet'))")
    fire_timers(c, first, 'late')
    c.ensure('nothing-retransmitted-after-the-answer', "len(sent('link.send_packet')) == tx1")
    c.ensure('send-lock-released', 'not cf._send_lock.locked()')


@contract('C10', 'answers.longest-prefix.shapes', [CF + ':Crazyflie._check_for_answers'],
          clause='an incoming packet cancels only the pending request whose pattern is its longest matching prefix - for pending sets of '
                 'every shape: patterns shorter than, as long as and LONGER than the packet, nested prefixes of each other, no pattern at all',
          bounded='up to three pending patterns, each of length 2, 3 or 5 (or absent), symbolic bytes; packets with 1 or 3 data bytes')
def longest_prefix_shapes(c):
    cf, link = fresh_cf(c, True)
    lens = [c.choice('len%d' % i, [0, 2, 3, 5]) for i in range(3)]
    idx = [i for i in range(3) if lens[i]]
    pats = {i: c.ints('p%d' % i, lens[i], 0, 255, kind='tuple') for i in idx}
    for i in idx:
        for j in idx:
            if i < j and lens[i] == lens[j]:
                c.require('p%d != p%d' % (i, j))          # keys of one dict
    timers = {i: c.ext('T%d' % i) for i in idx}
    c.set(cf, '_answer_patterns', c.dict([(pats[i], timers[i]) for i in idx]))
    pk = packet(c, c.choice('n_data', [1, 3]))
    c.snapshot('data', '(pk.header,) + tuple(pk.data)')
    c.call((cf, '_check_for_answers'), pk)
    c.ensure('no-exception', 'raised is None')
    # the longest matching prefix, from the property: among the patterns that are a prefix of the packet, the longest
    for i in idx:
        c.let('P', pats[i])
        c.snapshot('m%d' % i, 'len(data) >= %d and data[:%d] == P' % (lens[i], lens[i]))
    order = sorted(idx, key=lambda i: -lens[i])
    win = '-1'
    for i in reversed(order):
        win = '(%d if m%d else %s)' % (i, i, win)
    c.snapshot('win', win)
    for i in idx:
        c.ensure('cancelled-iff-longest-match-%d' % i, "iff(len(sent('T%d.cancel')) == 1, win == %d) and len(sent('T%d.cancel')) <= 1" % (i, i, i))
        c.let('P', pats[i])
        c.ensure('removed-iff-longest-match-%d' % i, 'iff(P in cf._answer_patterns, win != %d)' % i)
    c.ensure('nothing-else-touched', 'len(cf._answer_patterns) == %d - (0 if win == -1 else 1) and len(calls("T")) == (0 if win == -1 else 1)' % len(idx))


RD = 'cflib.crtp.radiodriver'
UD = 'cflib.crtp.usbdriver'
ACK = 'cflib.drivers.crazyradio:_radio_ack'


def radio_script(c, name, safelink, after_handshake, then):
    """radio stub: the safelink handshake is confirmed at once or refused 10 times, then `after_handshake` empty acks, then `then()`"""
    n = [0]
    hs = 1 if safelink else 10

    def send(_i, args, _k):
        n[0] += 1
        if n[0] <= hs:
            data = c.snapshot('good', 'bytes([0xff, 0x05, 0x01])') if safelink else ()
            return c.obj(ACK, ack=True, data=data, powerDet=False, retry=0)
        if n[0] <= hs + after_handshake:
            return c.obj(ACK, ack=True, data=(), powerDet=False, retry=0)
        return then(n[0] - hs - after_handshake)
    radio = c.ext(name, attrs={'version': 0.5}, returns={'send_packet': send})
    return radio, hs


@contract('C10', 'radio.stopped-thread-transmits-nothing',
          [RD + ':_RadioDriverThread.stop', RD + ':_RadioDriverThread.run', RD + ':RadioDriver.close', RD + ':RadioDriver.pause', RD + ':RadioDriver.send_packet'],
          clause='nothing is ever transmitted on a closed link: once the radio link is closed (or paused) its thread puts nothing on the air any '
                 'more - not the request that was waiting in its queue, not a null packet - and ends',
          bounded='explicit schedule: close()/pause() is called by another thread while the radio thread is inside its k-th transmission '
                  '(k = 1 or 2) with a request waiting in the out queue; with and without safelink')
def stopped_thread(c):
    c.virtual_time()
    drv = c.new(RD + ':RadioDriver')
    c.let('drv', drv)
    safelink = c.choice('safelink', [False, True])
    how = c.choice('how', ['close', 'pause'])
    k = c.choice('k', [1, 2])
    box = []
    pk = packet(c)

    def then(j):
        if j == 1:
            # another thread: a request is queued, then the link is closed / paused (join of the running thread is recorded)
            c.invoke((drv, 'send_packet'), pk)
            c.let('tx_at_stop', c.snapshot('tx_now', "len(sent('radio.send_packet'))"))
            c.invoke((drv, how))
            return c.obj(ACK, ack=True, data=(), powerDet=False, retry=0)
        return c.raiser('StopLoop')()       # a further transmission: recorded, then the run is cut off
    radio, hs = radio_script(c, 'radio', safelink, k - 1, then)
    inq, outq = c.queue('inq'), c.queue('outq', maxsize=1)
    th = c.new(RD + ':_RadioDriverThread', radio, inq, outq, None, c.ext('link_error'), drv, None)
    c.set(th, '_radio_link_statistics', c.ext('stats'))
    c.set(drv, '_radio', radio), c.set(drv, 'in_queue', inq), c.set(drv, 'out_queue', outq), c.set(drv, '_thread', th)
    c.call((th, 'run'))
    c.ensure('thread-ends', 'raised is None')
    c.ensure('nothing-on-the-air-after-the-stop', "len(sent('radio.send_packet')) == tx_at_stop")
    c.ensure('request-was-not-transmitted', "not any(len(e[1][0]) == 4 for e in sent('radio.send_packet')[%d:])" % hs)


@contract('C10', 'radio.request-of-a-closed-session-never-on-the-air',
          [RD + ':RadioDriver.close', RD + ':RadioDriver.connect', RD + ':RadioDriver.send_packet', RD + ':_RadioDriverThread.run',
           RD + ':_RadioDriverThread.stop'],
          clause='a request from one session is never transmitted in a later session and nothing is transmitted on a closed link, at the radio '
                 'link itself: a request still waiting in the out queue when the link is closed, and a request handed to the link after it was '
                 'closed, are not put on the air when the same driver object is connected again',
          bounded='one request queued before and one after close(); the next session of the same RadioDriver transmits 3 packets after its handshake')
def closed_session_requests(c):
    c.virtual_time()
    drv = c.new(RD + ':RadioDriver')
    c.let('drv', drv)
    safelink = c.choice('safelink_in_the_next_session', [False, True])
    radio1 = c.ext('radio1', attrs={'version': 0.5})
    inq, outq = c.queue('inq'), c.queue('outq', maxsize=1)
    th1 = c.new(RD + ':_RadioDriverThread', radio1, inq, outq, None, c.ext('link_error'), drv, None)
    c.set(drv, '_radio', radio1), c.set(drv, 'in_queue', inq), c.set(drv, 'out_queue', outq), c.set(drv, '_thread', th1)
    c.set(drv, 'link_error_callback', c.ext('link_error'))
    pk = packet(c)
    c.int('h2', 0, 255)
    pk2 = c.new(STK + ':CRTPPacket', c.get('h2'), c.bytes('data2', 3))
    c.call((drv, 'send_packet'), pk)                # waits in the queue: the radio thread has not taken it yet
    c.require('raised is None')
    c.call((drv, 'close'))
    c.ensure('closed', "raised is None and len(sent('radio1.close')) == 1")
    c.call((drv, 'send_packet'), pk2)               # a late sender on the closed link
    c.ensure('closed-link-transmits-nothing', "len(sent('radio1.send_packet')) == 0")
    # the same driver object is connected again
    radio2, hs = radio_script(c, 'radio2', safelink, 3, lambda j: c.raiser('StopLoop')())
    c.patch(RD + ':RadioManager', c.ext('RadioManager', returns={'open': lambda *_a: radio2}))
    c.call((drv, 'connect'), URI2, None, c.ext('link_error2'))
    c.ensure('connected-again', 'raised is None and drv._thread is not None')
    c.call((c.getfield(drv, '_thread'), 'run'))
    c.ensure('next-session-ran', "raised == 'StopLoop' and len(sent('radio2.send_packet')) == %d" % (hs + 4))
    c.ensure('only-null-packets-on-the-air', "all(len(e[1][0]) == 1 for e in sent('radio2.send_packet')[%d:])" % hs)


@contract('C10', 'radio.restart-renegotiates-reliability',
          [RD + ':RadioDriver.pause', RD + ':RadioDriver.restart', RD + ':_RadioDriverThread.run', RD + ':_RadioDriverThread.stop'],
          clause='whether requests are retried follows the link as it is NOW: after pause() + restart() of a radio link (warm boot into the '
                 'bootloader and back) the new radio thread negotiates safelink again and the driver needs retries iff the peer did not confirm; '
                 'a second restart() does not start a second transmitter',
          bounded='one pause/restart cycle, every combination of (confirmed, not confirmed) before and after')
def restart_renegotiates(c):
    c.virtual_time()
    drv = c.new(RD + ':RadioDriver')
    c.let('drv', drv)
    before = c.choice('safelink_before', [True, False])
    after = c.choice('safelink_after', [True, False])
    stop = lambda j: c.raiser('StopLoop')()
    radio, hs1 = radio_script(c, 'radio', before, 0, stop)
    inq, outq = c.queue('inq'), c.queue('outq', maxsize=1)
    th1 = c.new(RD + ':_RadioDriverThread', radio, inq, outq, None, c.ext('link_error'), drv, None)
    c.set(th1, '_radio_link_statistics', c.ext('stats'))
    c.set(drv, '_radio', radio), c.set(drv, 'in_queue', inq), c.set(drv, 'out_queue', outq), c.set(drv, '_thread', th1)
    c.call((th1, 'run'))
    c.let('before', before), c.let('after', after)
    c.ensure('first-negotiation', "raised == 'StopLoop' and drv.needs_resending is (not before)")
    c.call((drv, 'pause'))
    c.ensure('paused', 'raised is None')
    c.let('th1', th1)
    radio2, hs2 = radio_script(c, 'radio_b', after, 0, stop)
    c.set(drv, '_radio', radio2)
    c.call((drv, 'restart'))
    c.ensure('restarted', "raised is None and drv._thread is not None and not is_same(drv._thread, th1)")
    th2 = c.getfield(drv, '_thread')
    c.let('th2', th2)
    c.call((drv, 'restart'))
    c.ensure('second-restart-keeps-the-one-thread', 'raised is None and is_same(drv._thread, th2)')
    c.set(th2, '_radio_link_statistics', c.ext('stats2'))
    c.call((th2, 'run'))
    c.ensure('second-negotiation-decides', "raised == 'StopLoop' and drv.needs_resending is (not after)")


@contract('C10', 'usb.closed-link-transmits-nothing',
          [UD + ':UsbDriver.send_packet', UD + ':UsbDriver.close', UD + ':UsbDriver.pause', UD + ':UsbDriver.restart',
           UD + ':_UsbReceiveThread.__init__', UD + ':_UsbReceiveThread.stop'],
          clause='nothing is ever transmitted on a closed link (USB): an open USB link hands each packet to the device exactly once (no '
                 'retransmission of its own), and after close() - also when the device was unplugged and closing it fails - nothing is handed '
                 'to the device any more; pause()/restart() of the receive thread do not close the link',
          bounded='packets with 3 data bytes; one send before and one after each step')
def usb_closed(c):
    c.virtual_time()
    drv = c.new(UD + ':UsbDriver')
    c.let('drv', drv)
    unplugged = c.choice('unplugged', [False, True])
    paused_first = c.choice('paused_and_restarted_first', [False, True])
    ret = {'set_crtp_to_usb': c.raiser('OSError', 'no device')} if unplugged else {}
    cfusb = c.ext('cfusb', returns=ret)
    inq = c.queue('inq')
    th = c.new(UD + ':_UsbReceiveThread', cfusb, inq, None, c.ext('link_error'))
    c.set(drv, 'cfusb', cfusb), c.set(drv, 'in_queue', inq), c.set(drv, '_thread', th)
    pk = packet(c)
    c.snapshot('wire', '(pk.header,) + tuple(pk.data)')
    c.call((drv, 'send_packet'), pk)
    c.ensure('open-link-transmits-once', "raised is None and len(sent('cfusb.send_packet')) == 1 and tuple(sent('cfusb.send_packet')[0][1][0]) == wire")
    if paused_first:
        c.call((drv, 'pause'))
        c.ensure('paused', 'raised is None')
        c.call((drv, 'send_packet'), pk)
        c.ensure('paused-link-is-still-open', "raised is None and len(sent('cfusb.send_packet')) == 2")
        c.call((drv, 'restart'))
        c.ensure('restarted', 'raised is None and drv._thread is not None')
    c.snapshot('tx', "len(sent('cfusb.send_packet'))")
    c.call((drv, 'close'))
    c.ensure('close-does-not-raise', 'raised is None')
    c.call((drv, 'send_packet'), pk)
    c.ensure('closed-link-transmits-nothing', "len(sent('cfusb.send_packet')) == tx")


@contract('C10', 'radio.closed-instance-commands-nothing',
          [RD + ':_SharedRadioInstance.close', RD + ':_SharedRadioInstance.send_packet', RD + ':_SharedRadioInstance.set_arc',
           RD + ':_SharedRadioInstance.scan_selected', RD + ':_SharedRadioInstance.scan_channels'],
          clause='nothing is ever transmitted on a closed link, at the shared dongle: once a link\'s radio instance is closed, none of its '
                 'operations that make the dongle transmit (send_packet, scan_selected, scan_channels) nor set_arc reaches the dongle thread\'s '
                 'command queue any more; before that each reaches it exactly once',
          bounded='one operation before and one after close(); payload of 3 bytes')
def closed_instance(c):
    cmdq = c.queue('cmdq')
    rspq = c.queue('rspq', ['ack-1', 'ack-2'])
    inst = c.new(RD + ':_SharedRadioInstance', 7, cmdq, rspq, 0.5)
    c.let('inst', inst)
    op = c.choice('op', ['send_packet', 'set_arc', 'scan_selected', 'scan_channels'])
    payload = c.ints('payload', 3, 0, 255, kind='tuple')
    args = {'send_packet': (payload,), 'set_arc': (3,), 'scan_selected': ((), payload), 'scan_channels': (0, 125, payload)}[op]
    c.call((inst, op), *args)
    c.ensure('open-instance-commands-once', 'raised is None and cmdq.qsize() == 1 and cmdq.queue[0][0] == 7')
    c.call((inst, 'close'))
    c.ensure('close-tells-the-dongle-thread-once', 'raised is None and cmdq.qsize() == 2')
    c.call((inst, op), *args)
    c.ensure('closed-instance-commands-nothing', 'cmdq.qsize() == 2')


@contract('C10', 'retry.reply-before-send-returns', SEND + [CF + ':Crazyflie._check_for_answers', CF + ':Crazyflie._no_answer_do_retry'],
          clause='all reply delays relative to the retry timers, the shortest one included: a reply that the dispatcher thread handles before '
                 'the transmitting call has even returned still counts as the answer - the request is not retransmitted after it',
          bounded='explicit schedule: the reply is dispatched from inside link.send_packet of the first transmission or of the first '
                  'retransmission; afterwards every timer created so far fires (2 rounds)')
def reply_before_send_returns(c):
    c.use_stubs(CF, ['Timer'])
    cf = c.new(CF + ':Crazyflie')
    c.let('cf', cf)
    pk = packet(c)
    exp = c.ints('exp', 2, 0, 255, kind='tuple')
    tail = c.bytes('tail', c.choice('tail_len', [0, 1]))
    during = c.choice('reply_during', ['first-transmission', 'first-retransmission'])
    n = [0]

    def send(_i, args, _k):
        n[0] += 1
        if n[0] == (1 if during == 'first-transmission' else 2):
            reply = c.new(STK + ':CRTPPacket', c.get('h'), c.snapshot('rdata', 'bytes(exp) + tail'))
            c.invoke((c.getfield(cf, 'packet_received'), 'call'), reply)
        return None
    c.set(cf, 'link', c.ext('link', attrs={'needs_resending': True}, returns={'send_packet': send}))
    c.reset_trace()
    c.call((cf, 'send_packet'), pk, exp)
    c.ensure('sent', "raised is None and len(sent('link.send_packet')) == 1")
    first = 0
    if during == 'first-retransmission':
        fire_nth(c, 0)
        c.ensure('retransmitted-while-unanswered', "raised is None and len(sent('link.send_packet')) == 2")
        first = 1
    c.snapshot('tx', "len(sent('link.send_packet'))")
    fire_timers(c, first, 'late')
    c.ensure('not-retransmitted-after-the-early-reply', "len(sent('link.send_packet')) == tx")
    c.ensure('send-lock-released', 'not cf._send_lock.locked()')


@contract('C10', 'send.reliability-read-at-send-time', SEND + [CF + ':Crazyflie.open_link'],
          clause='whether a request is retried follows what the link says when the request is SENT (the radio link learns only after the '
                 'safelink negotiation, i.e. after open_link returned, whether it guarantees delivery): no timer on a link that guarantees '
                 'delivery by then, a timer on a link that does not',
          bounded='one session opened through the real open_link; the link changes its needs_resending once before the request')
def reliability_at_send_time(c):
    cf, link = fresh_cf_vt(c, True)
    at_open = c.choice('needs_resending_at_open', [True, False])
    now = c.choice('needs_resending_at_send', [True, False])
    c.set(cf, 'link', None)
    link2 = reopen(c, cf, at_open)
    c.set(link2, 'needs_resending', now)
    c.let('now', now)
    pk = packet(c)
    exp = c.ints('exp', 2, 0, 255, kind='tuple')
    c.snapshot('t0', "len(sent('Timer'))")
    c.call((cf, 'send_packet'), pk, exp)
    c.ensure('transmitted-once', "raised is None and len([e for e in sent('link2.send_packet') if is_same(e[1][0], pk)]) == 1")
    c.ensure('timer-iff-link-does-not-guarantee-delivery-now', "len(sent('Timer')) == t0 + (1 if now else 0)")


@contract('C10', 'retry.reply-while-the-timer-thread-re-arms', SEND + [CF + ':Crazyflie._check_for_answers', CF + ':Crazyflie._no_answer_do_retry'],
          clause='all reply delays relative to the retry timers: a reply that the dispatcher thread handles while the timer thread of the same '
                 'request is inside send_packet (it has found the request pending and is about to re-arm) must leave the library able to send: '
                 'the timer thread ends normally with the send lock released, and a later request is still transmitted',
          bounded='explicit schedule: the reply is dispatched when the timer thread is inside the logging call between its pending test and '
                  'the re-arming (a thread switch is possible there); if the dispatcher cannot run there (it would wait for a lock) it runs '
                  'right after the timer thread', thorough_only=True)
def reply_while_rearming(c):
    # on the unchanged tree this FAILS and replays natively (reported): the pattern is deleted between `pattern in self._answer_patterns`
    # and `self._answer_patterns[pattern]`; the KeyError leaves _send_lock held for ever, every later send_packet blocks
    cf, link = fresh_cf(c, True)
    pk = packet(c)
    exp = c.ints('exp', 2, 0, 255, kind='tuple')
    c.call((cf, 'send_packet'), pk, exp)
    c.require('raised is None')
    c.snapshot('fire', "sent('Timer')[0][1][1]")
    reply = c.new(STK + ':CRTPPacket', c.get('h'), c.snapshot('rdata', 'bytes(exp)'))
    state = []

    def log(_i, args, _k):
        if not state and lk.held is True:
            # the timer thread is inside the locked region; the dispatcher thread handles the reply now
            state.append('running')
            state[0] = c.invoke_catch((c.getfield(cf, 'packet_received'), 'call'), reply)
        return None
    lk = c.lock('send_lock')
    c.set(cf, '_send_lock', lk)
    c.patch(CF + ':logger', c.ext('logger', returns={'debug': log, 'info': log}))
    c.reset_trace()
    c.call(c.get('fire'))
    c.let('scheduled', bool(state))
    c.ensure('schedule-ran', 'scheduled')
    c.snapshot('timer_raised', 'raised')
    if state and state[0] == 'Deadlock':
        c.call((c.getfield(cf, 'packet_received'), 'call'), reply)     # the dispatcher had to wait: it runs now
    c.ensure('timer-thread-ends-normally', 'timer_raised is None')
    c.ensure('send-lock-released', 'not cf._send_lock.locked()')
    pk2 = c.new(STK + ':CRTPPacket', c.get('h'), c.bytes('data2', 1))
    c.let('pk2', pk2)
    c.call((cf, 'send_packet'), pk2)
    c.ensure('later-request-still-transmitted', "raised is None and len([e for e in sent('link.send_packet') if is_same(e[1][0], pk2)]) == 1")


@contract('C10', 'send.link-error-while-sending', SEND + [CF + ':Crazyflie._link_error_cb', CF + ':Crazyflie.open_link'],
          clause='all close times relative to a request: a link error that the link\'s own thread reports while another thread is inside '
                 'send_packet (after it has seen the link open, before it hands the packet over) must leave the library able to send: the '
                 'call ends normally with the send lock released, nothing goes to the closed link, and a request of the next session is '
                 'transmitted on the new link',
          bounded='explicit schedule: _link_error_cb runs when the sending thread is inside the logging call of the locked region (first '
                  'transmission with an expected reply) - a thread switch is possible there', thorough_only=True)
def link_error_while_sending(c):
    # on the unchanged tree this FAILS and replays natively (reported): `self.link.send_packet(pk)` hits None, the AttributeError
    # leaves _send_lock held for ever; every later send_packet - also in the next session - blocks
    cf, link = fresh_cf_vt(c, True)
    pk = packet(c)
    exp = c.ints('exp', 2, 0, 255, kind='tuple')
    c.set(cf, 'state', c.choice('state', [1, 2]))
    state = []

    def log(_i, args, _k):
        if not state and lk.held is True:
            state.append('running')
            state[0] = c.invoke_catch((cf, '_link_error_cb'), 'Too many packets lost')
        return None
    lk = c.lock('send_lock')
    c.set(cf, '_send_lock', lk)
    c.patch(CF + ':logger', c.ext('logger', returns={'debug': log, 'info': log}))
    c.call((cf, 'send_packet'), pk, exp)
    c.let('scheduled', bool(state))
    c.snapshot('sender_raised', 'raised')
    if state and state[0] == 'Deadlock':
        c.call((cf, '_link_error_cb'), 'Too many packets lost')       # the reporting thread had to wait for a lock: it runs now
    c.ensure('schedule-ran', 'scheduled and cf.link is None')
    c.ensure('sender-ends-normally', 'sender_raised is None')
    c.ensure('send-lock-released', 'not cf._send_lock.locked()')
    c.ensure('nothing-to-the-closed-link', "'link.close' in calls('link') and 'link.send_packet' not in calls('link')[calls('link').index('link.close'):]")
    reopen(c, cf)
    pk2 = c.new(STK + ':CRTPPacket', c.get('h'), c.bytes('data2', 1))
    c.let('pk2', pk2)
    c.call((cf, 'send_packet'), pk2)
    c.ensure('next-session-can-send', "raised is None and len([e for e in sent('link2.send_packet') if is_same(e[1][0], pk2)]) == 1")


@contract('C10', 'retry.chain-inductive', SEND + [CF + ':Crazyflie._no_answer_do_retry'],
          clause='an unanswered request is retransmitted at EVERY firing of its timer, for any number of firings (induction over the retry '
                 'chain): base - the timer of the first transmission is armed with "retry this packet for this pattern"; step - from any '
                 'state in which the pattern is pending, a retry transmits the same packet once and arms, under the same pattern, a new '
                 'started timer that is again "retry this packet for this pattern"')
def chain_inductive(c):
    cf, link = fresh_cf(c, True)
    pk = packet(c)
    stage = c.choice('stage', ['first-transmission', 'any-retry'])
    if stage == 'first-transmission':
        exp = c.ints('exp', c.choice('n_expected', [1, 2]), 0, 255, kind='tuple')
        c.snapshot('pattern', '(pk.header,) + exp')
        c.call((cf, 'send_packet'), pk, exp)
    else:
        c.let('pattern', c.ints('pat', c.choice('pattern_len', [2, 3]), 0, 255, kind='tuple'))
        other = c.ints('other', 2, 0, 255, kind='tuple')
        c.require('other != pattern')
        c.set(cf, '_answer_patterns', c.dict([(other, c.ext('T_other')), (c.get('pattern'), c.ext('T_fired'))]))
        c.call((cf, '_no_answer_do_retry'), pk, c.get('pattern'))
    c.ensure('transmitted-once', "raised is None and len(sent('link.send_packet')) == 1 and is_same(sent('link.send_packet')[0][1][0], pk)")
    c.ensure('one-new-started-timer-under-the-pattern', "len(sent('Timer')) == 1 and calls('timer') == ('timer!0.start',) and "
             "any(list(cf._answer_patterns.keys())[i] == pattern and is_same(list(cf._answer_patterns.values())[i], sent('Timer')[0][2]['timer']) "
             "for i in range(len(cf._answer_patterns)))")
    c.ensure('other-pending-requests-untouched', "len(calls('T_other')) == 0 and len(calls('T_fired')) == 0")
    c.snapshot('fire', "sent('Timer')[0][1][1]")
    rec = c.ext('next_retry')
    c.set(cf, '_no_answer_do_retry', rec)
    c.call(c.get('fire'))
    c.ensure('new-timer-is-again-retry-this-packet-for-this-pattern',
             "raised is None and len(sent('next_retry')) == 1 and len(sent('next_retry')[0][1]) + len(sent('next_retry')[0][2]) >= 2 and "
             "is_same((list(sent('next_retry')[0][1]) + [sent('next_retry')[0][2].get('pk')])[0], pk) and "
             "(list(sent('next_retry')[0][1])[1:] + [sent('next_retry')[0][2].get('pattern')])[0] == pattern")


N_LONG = 40


@contract('C10', 'retry.long-chain', SEND + [CF + ':Crazyflie._no_answer_do_retry'],
          clause='for as long as the link is open and no reply has arrived the request keeps being retransmitted: no firing of the chain '
                 'gives up (state that accumulates on the Crazyflie object over the retries is not seen by the inductive step above)',
          bounded='%d successive firings, one request pending' % N_LONG)
def long_chain(c):
    cf, link = fresh_cf(c, True)
    pk = packet(c)
    exp = c.ints('exp', 2, 0, 255, kind='tuple')
    c.call((cf, 'send_packet'), pk, exp)
    c.require('raised is None')
    for i in range(N_LONG):
        if not fire_nth(c, i):
            break               # the chain ended: the obligations below fail
    c.ensure('retransmitted-at-every-firing', "raised is None and len(sent('link.send_packet')) == %d and "
             "all(is_same(e[1][0], pk) for e in sent('link.send_packet'))" % (N_LONG + 1))
    c.ensure('still-pending-with-a-started-timer', "len(sent('Timer')) == %d and len(cf._answer_patterns) == 1 and "
             "is_same(list(cf._answer_patterns.values())[0], sent('Timer')[-1][2]['timer']) and calls('timer')[-1] == 'timer!%d.start'" % (N_LONG + 1, N_LONG))
    c.ensure('send-lock-released', 'not cf._send_lock.locked()')
